----------------------------- MODULE Durability -----------------------------
(***************************************************************************)
(* The page-level durability protocol of TurDB with the WAL enabled        *)
(* (C01, C02; implementation-shaped: one action per durable side effect of *)
(* the code, in the order the code performs them).                         *)
(*                                                                         *)
(*  - Pages of every file are written IN PLACE through a MAP_SHARED        *)
(*    mapping (`mem`): a process kill keeps them, a power loss keeps only  *)
(*    what the last msync of the file wrote back (`disk`).                 *)
(*  - Pages of TABLE files are also marked dirty; the statement (or        *)
(*    COMMIT) ends by draining the dirty set into WAL frames: after-images *)
(*    appended to a BufWriter (`wbuf`, lost by any crash), flushed to the  *)
(*    log file (`wfile`, survives a kill) and - synchronous=FULL - fsynced *)
(*    (`wsync`: length of the durable prefix).                             *)
(*  - Pages of INDEX files, and the table header page when it is written   *)
(*    after the flush, bypass the log (BypassFiles / late header write).   *)
(*  - Checkpoint: msync every file, then truncate the log.                 *)
(*  - Recovery = redo: every frame of the surviving log prefix is copied   *)
(*    over the page, in order (nothing is undone).                         *)
(*                                                                         *)
(* Page contents are version numbers (one bump per page_mut), so "older /  *)
(* newer image" is <.  `acked[f][p]` is the version of the page written by *)
(* the last ACKNOWLEDGED statement that touched it (ghost).                *)
(*                                                                         *)
(* Durable(m) - evaluated in every state, i.e. a crash after every action - *)
(* says that recovery in crash model m gives every page at least its last  *)
(* acknowledged version. It is stated per class of page because the code   *)
(* satisfies it for logged pages only; the bypass classes are the recorded *)
(* findings of C01 and are checked by the witness configuration to FAIL.   *)
(***************************************************************************)
EXTENDS Integers, Sequences, FiniteSets, TLC

CONSTANTS Files, Pages,
          LoggedFiles,       \* files whose pages go through the WAL wrapper (table files)
          MaxStmts, MaxMut,
          SyncMode           \* "FULL": fsync before the acknowledgement; "OFF": no fsync (then Durable("power") must fail)

VARIABLES mem, disk,         \* [Files -> [Pages -> Nat]]
          dirty,             \* set of <<f, p>> marked by the WAL wrapper
          wbuf, wfile, wsync,
          pc,                \* "idle" | "stmt" | "flush" | "sync" | "late" | "ack"
          touched,           \* pages the running statement has written (ghost)
          acked,             \* [Files -> [Pages -> Nat]] (ghost)
          nstmt, nmut
vars == <<mem, disk, dirty, wbuf, wfile, wsync, pc, touched, acked, nstmt, nmut>>

Zero == [f \in Files |-> [p \in Pages |-> 0]]
Init == /\ mem = Zero /\ disk = Zero /\ acked = Zero
        /\ dirty = {} /\ wbuf = <<>> /\ wfile = <<>> /\ wsync = 0
        /\ pc = "idle" /\ touched = {} /\ nstmt = 0 /\ nmut = 0

Frame(f, p) == [f |-> f, p |-> p, v |-> mem[f][p]]

StmtBegin == /\ pc = "idle" /\ nstmt < MaxStmts
             /\ pc' = "stmt" /\ nstmt' = nstmt + 1 /\ touched' = {}
             /\ UNCHANGED <<mem, disk, dirty, wbuf, wfile, wsync, acked, nmut>>

\* MmapStorage::page_mut followed by the mutation (hook mmap.page_mut fires just before it)
PageMut(f, p) == /\ pc \in {"stmt", "late"} /\ nmut < MaxMut
                 /\ pc = "late" => p = 0                        \* the late write is the header page (row_count)
                 /\ mem' = [mem EXCEPT ![f][p] = @ + 1]
                 /\ dirty' = IF f \in LoggedFiles /\ p # 0 /\ pc = "stmt" THEN dirty \cup {<<f, p>>} ELSE dirty   \* header writes bypass the wrapper
                 /\ touched' = touched \cup {<<f, p>>}
                 /\ nmut' = nmut + 1
                 /\ UNCHANGED <<disk, wbuf, wfile, wsync, pc, acked, nstmt>>

\* flush_wal_if_autocommit / commit: drain the dirty set into frames (write_frames_batch -> BufWriter)
StmtFlush == /\ pc = "stmt" /\ pc' = "flush"
             /\ UNCHANGED <<mem, disk, dirty, wbuf, wfile, wsync, touched, acked, nstmt, nmut>>
FrameWritten(f, p) == /\ pc = "flush" /\ <<f, p>> \in dirty
                      /\ wbuf' = Append(wbuf, Frame(f, p)) /\ dirty' = dirty \ {<<f, p>>}
                      /\ UNCHANGED <<mem, disk, wfile, wsync, pc, touched, acked, nstmt, nmut>>
\* sync_to_disk: BufWriter::flush then fdatasync (FULL); without FULL only the flush
WalSync == /\ pc = "flush" /\ dirty = {}
           /\ wfile' = wfile \o wbuf /\ wbuf' = <<>>
           /\ wsync' = IF SyncMode = "FULL" THEN Len(wfile') ELSE wsync
           /\ pc' = "late"
           /\ UNCHANGED <<mem, disk, dirty, touched, acked, nstmt, nmut>>
\* the statement returns to the caller: its page versions become the acknowledged ones
Ack == /\ pc = "late"
       /\ acked' = [f \in Files |-> [p \in Pages |-> IF <<f, p>> \in touched THEN mem[f][p] ELSE acked[f][p]]]
       /\ pc' = "idle" /\ touched' = {}
       /\ UNCHANGED <<mem, disk, dirty, wbuf, wfile, wsync, nstmt, nmut>>

\* msync of one file (MmapStorage::sync): checkpoint, close, COMMIT's sync_dirty_storages, DDL
Msync(f) == /\ disk' = [disk EXCEPT ![f] = mem[f]]
            /\ UNCHANGED <<mem, dirty, wbuf, wfile, wsync, pc, touched, acked, nstmt, nmut>>
\* Database::checkpoint (after the fix 09c9adc): every file msynced, then the log truncated. The precondition IS the
\* protocol: the log may only be discarded when no page depends on it any more
CkptTruncate == /\ pc \in {"idle", "stmt"} /\ dirty = {} /\ wbuf = <<>>
                /\ \A f \in Files : disk[f] = mem[f]
                /\ wfile' = <<>> /\ wsync' = 0
                /\ UNCHANGED <<mem, disk, dirty, wbuf, pc, touched, acked, nstmt, nmut>>
\* a statement that wrote nothing through the wrapper (SELECT, PRAGMA, checkpoint) returns
AckIdle == /\ pc = "stmt" /\ dirty = {} /\ touched = {}
           /\ pc' = "idle"
           /\ UNCHANGED <<mem, disk, dirty, wbuf, wfile, wsync, touched, acked, nstmt, nmut>>

Next == StmtBegin \/ StmtFlush \/ WalSync \/ Ack \/ AckIdle \/ CkptTruncate
        \/ \E f \in Files : Msync(f) \/ \E p \in Pages : PageMut(f, p) \/ FrameWritten(f, p)
Spec == Init /\ [][Next]_vars

(* ---------------------------------------------------------------- crash and recovery *)
\* redo: the last frame for (f, p) in log prefix `log` wins over the base image
RECURSIVE Redo(_, _)
Redo(base, log) == IF log = <<>> THEN base
                   ELSE Redo([base EXCEPT ![log[1].f][log[1].p] = log[1].v], Tail(log))
Recovered(m) == IF m = "kill" THEN Redo(mem, wfile) ELSE Redo(disk, SubSeq(wfile, 1, wsync))

\* classes of pages
LoggedData(f, p) == f \in LoggedFiles /\ p # 0
Header(f, p) == f \in LoggedFiles /\ p = 0
Bypass(f, p) == f \notin LoggedFiles

DurableFor(m, Class(_, _)) == \A f \in Files, p \in Pages : Class(f, p) => Recovered(m)[f][p] >= acked[f][p]
C01_kill == DurableFor("kill", LAMBDA f, p : TRUE)
C01_power_logged == DurableFor("power", LoggedData)
\* recorded findings (witnesses: these are expected to be violated by the code's protocol)
C01_power_header == DurableFor("power", Header)
C01_power_bypass == DurableFor("power", Bypass)

\* C02 at page level, kill model: recovery never REGRESSES a page below what is in the mapping unless the newer
\* image belongs to the unacknowledged statement (the regression of in-flight pages is the recorded finding)
NoRegressionOfAcked == \A f \in Files, p \in Pages : Recovered("kill")[f][p] < mem[f][p] => <<f, p>> \in touched
=============================================================================

\* run with -simulate num=N -depth 27 -seed S
CONSTANTS Bound = 26  Ns = {}  Ls = {}  Dense = FALSE  MetaMax = 0
SPECIFICATION SpecWalk
INVARIANTS EmitSet MetaSet
CHECK_DEADLOCK FALSE

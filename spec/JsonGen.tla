------------------------------- MODULE JsonGen -------------------------------
(* C32 - JSON documents round-trip through JSONB.

   JSON values as a recursive structure, the semantic operators of the property, and a generator of documents.

     value  ::=  null | bool | num(class) | str(class) | arr(<<value...>>) | obj(<<[k,v]...>>)

   An object is a SEQUENCE of pairs, so that unsorted and DUPLICATE keys are first-class.  Numbers and strings are
   named classes: the class IS the abstract value (two numbers are equal iff they are the same class; NumTable gives
   the mathematical value as a canonical decimal text together with several textual spellings of the same value:
   -0 / 0, 1e3 / 1000 / 1.0E+3 ...; StrTable gives the code points of every string class).  The renderer turns a
   document into JSON TEXT (whitespace, escapes vs raw characters, number spellings are rendering choices that must
   not change the value).

   The property, as operators:
     Lookup(o,k,pol)   value of key k in object o; for duplicate keys `pol` says whether the first or the last pair
                       wins (src/records/jsonb.rs documents no winner: both are admissible, consistently)
     Index(a,i)        i-th element (0-based) of array a
     Path(v,p)         fold of stepwise lookups along p
     ReadBack(v)       the value itself; with duplicate keys: KeepAll(v) (every pair survives), or Normalize(v,first),
                       or Normalize(v,last)
   Missing is the "no such key / index" answer.

   The byte format of JSONB is NOT modelled.  What TLC contributes: the enumeration of documents, the expected
   answer of every probe, and the laws of the operators checked on every generated document (LawsOf). *)
EXTENDS Naturals, Sequences, FiniteSets, TLC

Missing  == [t |-> "missing"]
JNull    == [t |-> "null"]
JBool(b) == [t |-> "bool", b |-> b]
JNum(c)  == [t |-> "num", c |-> c]
JStr(c)  == [t |-> "str", c |-> c]
JArr(es) == [t |-> "arr", e |-> es]
JObj(ps) == [t |-> "obj", p |-> ps]
Pr(k, v) == [k |-> k, v |-> v]

(* ------------------------------------------------------------------ scalar tables *)
NumTable == <<
  [c |-> "zero",   canon |-> "0",        sp |-> <<"0", "-0", "0.0", "0e0", "-0.0E+5", "0E-3">>],
  [c |-> "one",    canon |-> "1",        sp |-> <<"1", "1.0", "1e0", "10e-1", "0.1E1">>],
  [c |-> "int",    canon |-> "42",       sp |-> <<"42", "4.2e1", "42.0", "420e-1", "0.42E+2">>],
  [c |-> "neg",    canon |-> "-17",      sp |-> <<"-17", "-1.7E1", "-17.000", "-170e-1">>],
  [c |-> "half",   canon |-> "0.5",      sp |-> <<"0.5", "5e-1", "0.50", "5E-1", "0.05e1">>],
  [c |-> "tenth",  canon |-> "0.1",      sp |-> <<"0.1", "1e-1", "0.10", "1E-1", "0.01e+1">>],
  [c |-> "exp3",   canon |-> "1000",     sp |-> <<"1000", "1e3", "1E3", "1e+3", "1.0E+3", "0.001e6">>],
  [c |-> "negexp", canon |-> "-0.00125", sp |-> <<"-0.00125", "-1.25e-3", "-125E-5", "-0.125e-2">>],
  [c |-> "big",    canon |-> "1e308",    sp |-> <<"1e308", "1E+308", "10e307", "0.1e309">>],
  [c |-> "tiny",   canon |-> "5e-324",   sp |-> <<"5e-324", "0.5E-323">>],
  [c |-> "i53",    canon |-> "9007199254740993",    sp |-> <<"9007199254740993", "9007199254740993.0", "9.007199254740993e15">>],
  [c |-> "i64max", canon |-> "9223372036854775807", sp |-> <<"9223372036854775807", "9.223372036854775807e18">>] >>

(* cp: code points; rep: the content is cp repeated rep times *)
StrTable == <<
  [c |-> "empty",   cp |-> <<>>,                         rep |-> 1],
  [c |-> "ascii",   cp |-> <<97, 98, 99>>,                rep |-> 1],
  [c |-> "spaces",  cp |-> <<32, 97, 32, 32, 98, 32>>,    rep |-> 1],
  [c |-> "quote",   cp |-> <<97, 34, 98>>,                rep |-> 1],
  [c |-> "bslash",  cp |-> <<97, 92, 98>>,                rep |-> 1],
  [c |-> "bsend",   cp |-> <<97, 92>>,                    rep |-> 1],
  [c |-> "slash",   cp |-> <<97, 47, 98>>,                rep |-> 1],
  [c |-> "ctrls",   cp |-> <<8, 12, 10, 13, 9>>,          rep |-> 1],      \* \b \f \n \r \t
  [c |-> "ctrlu",   cp |-> <<1, 31>>,                     rep |-> 1],      \* only \uXXXX can spell these
  [c |-> "nul",     cp |-> <<97, 0, 98>>,                 rep |-> 1],
  [c |-> "del",     cp |-> <<127, 133>>,                  rep |-> 1],      \* DEL and a C1 control: legal raw
  [c |-> "latin",   cp |-> <<233, 223>>,                  rep |-> 1],      \* 2-byte UTF-8
  [c |-> "cjk",     cp |-> <<20013, 25991>>,              rep |-> 1],      \* 3-byte UTF-8
  [c |-> "astral",  cp |-> <<128512>>,                    rep |-> 1],      \* 4-byte UTF-8 / surrogate pair
  [c |-> "mixed",   cp |-> <<97, 233, 20013, 128512, 34, 92, 10>>, rep |-> 1],
  [c |-> "bmpedge", cp |-> <<65535, 55295, 57344>>,       rep |-> 1],      \* U+FFFF, U+D7FF, U+E000 (around the surrogates)
  [c |-> "lsep",    cp |-> <<8232, 65279>>,               rep |-> 1],      \* U+2028, BOM
  [c |-> "uesc",    cp |-> <<92, 117, 48, 48, 52, 49>>,   rep |-> 1],      \* the six characters backslash u 0 0 4 1 (must not be unescaped twice)
  [c |-> "struct",  cp |-> <<123, 34, 97, 34, 58, 91, 49, 44, 50, 93, 125>>, rep |-> 1],   \* {"a":[1,2]} inside a string
  [c |-> "s255",    cp |-> <<120>>,                       rep |-> 255],
  [c |-> "s256",    cp |-> <<120>>,                       rep |-> 256],
  [c |-> "s65535",  cp |-> <<120>>,                       rep |-> 65535],  \* 16-bit length boundary
  [c |-> "s65536",  cp |-> <<120>>,                       rep |-> 65536],
  (* key-only classes *)
  [c |-> "ka",      cp |-> <<97>>,                        rep |-> 1],
  [c |-> "kb",      cp |-> <<98>>,                        rep |-> 1],
  [c |-> "kk",      cp |-> <<107>>,                       rep |-> 1],
  [c |-> "kz",      cp |-> <<122>>,                       rep |-> 1],
  [c |-> "kA",      cp |-> <<65>>,                        rep |-> 1],      \* sorts before "a"
  [c |-> "kaa",     cp |-> <<97, 97>>,                    rep |-> 1],      \* prefix ordering
  [c |-> "kcolon",  cp |-> <<107, 34, 58>>,               rep |-> 1],      \* k":
  [c |-> "kabsent", cp |-> <<110, 111, 112, 101>>,        rep |-> 1] >>    \* never used as a key of a document

NumClasses == {NumTable[j].c : j \in 1..Len(NumTable)}
StrClasses == {StrTable[j].c : j \in 1..Len(StrTable)}
HugeStr    == {"s65535", "s65536"}
ValueStrs  == {StrTable[j].c : j \in 1..23}          \* string classes used as values
KeyStrs    == (StrClasses \ HugeStr) \ {"kabsent"}   \* every (non-huge) string class is also tried as a key

TablesOK ==
  /\ \A a, b \in 1..Len(NumTable) : NumTable[a].c = NumTable[b].c => a = b
  /\ \A a, b \in 1..Len(StrTable) : (StrTable[a].c = StrTable[b].c \/ (StrTable[a].cp = StrTable[b].cp /\ StrTable[a].rep = StrTable[b].rep)) => a = b
  /\ \A a \in 1..Len(NumTable) : NumTable[a].sp[1] = NumTable[a].canon

(* ------------------------------------------------------------------ semantics *)
Policies == {"first", "last"}

KeysOf(o)      == {o.p[i].k : i \in 1..Len(o.p)}
Positions(o, k) == {i \in 1..Len(o.p) : o.p[i].k = k}
HasDupKeys(o)  == \E i, j \in 1..Len(o.p) : i # j /\ o.p[i].k = o.p[j].k
Winner(o, k, pol) == LET ps == Positions(o, k) IN
                     IF pol = "first" THEN CHOOSE i \in ps : \A j \in ps : i <= j
                                      ELSE CHOOSE i \in ps : \A j \in ps : i >= j

Lookup(o, k, pol) == IF o.t # "obj" \/ Positions(o, k) = {} THEN Missing ELSE o.p[Winner(o, k, pol)].v
Index(a, i)       == IF a.t # "arr" \/ i >= Len(a.e) THEN Missing ELSE a.e[i + 1]
(* a step is [k |-> key class] or [i |-> 0-based index] *)
Step(v, st, pol)  == IF "k" \in DOMAIN st THEN Lookup(v, st.k, pol) ELSE Index(v, st.i)

(* Path, twice: right-recursive, and as an iterative left fold; LawPath says they agree *)
RECURSIVE PathR(_, _, _)
PathR(v, p, pol) == IF p = <<>> THEN v ELSE PathR(Step(v, Head(p), pol), Tail(p), pol)
RECURSIVE PathLoop(_, _, _, _)
PathLoop(acc, p, j, pol) == IF j > Len(p) THEN acc ELSE PathLoop(Step(acc, p[j], pol), p, j + 1, pol)
PathL(v, p, pol) == PathLoop(v, p, 1, pol)
Path(v, p, pol)  == PathR(v, p, pol)

(* every answer some choice of duplicates along the path could give (a lookup that returns an element of PathAny that
   is neither Path(..first) nor Path(..last) has picked an arbitrary duplicate) *)
RECURSIVE PathAny(_, _)
PathAny(v, p) ==
  IF p = <<>> THEN {v}
  ELSE LET st == Head(p) IN
       IF "k" \in DOMAIN st
         THEN IF v.t # "obj" \/ Positions(v, st.k) = {} THEN {Missing}
              ELSE UNION { PathAny(v.p[i].v, Tail(p)) : i \in Positions(v, st.k) }
         ELSE PathAny(Index(v, st.i), Tail(p))

RECURSIVE HasDup(_)
HasDup(v) == CASE v.t = "arr" -> \E i \in 1..Len(v.e) : HasDup(v.e[i])
               [] v.t = "obj" -> HasDupKeys(v) \/ \E i \in 1..Len(v.p) : HasDup(v.p[i].v)
               [] OTHER -> FALSE

(* the value with every duplicate key resolved by the policy (pairs stay in order of the surviving occurrence) *)
RECURSIVE Normalize(_, _)
Normalize(v, pol) ==
  CASE v.t = "arr" -> JArr([i \in 1..Len(v.e) |-> Normalize(v.e[i], pol)])
    [] v.t = "obj" -> LET keep == SelectSeq([i \in 1..Len(v.p) |-> i], LAMBDA i : Winner(v, v.p[i].k, pol) = i)
                      IN JObj([j \in 1..Len(keep) |-> Pr(v.p[keep[j]].k, Normalize(v.p[keep[j]].v, pol))])
    [] OTHER -> v

RECURSIVE Depth(_)
Max(S) == CHOOSE x \in S : \A y \in S : x >= y
Depth(v) == CASE v.t = "arr" -> 1 + Max({0} \cup {Depth(v.e[i]) : i \in 1..Len(v.e)})
              [] v.t = "obj" -> 1 + Max({0} \cup {Depth(v.p[i].v) : i \in 1..Len(v.p)})
              [] OTHER -> 0

(* ------------------------------------------------------------------ probes: every path into the document, plus one
   absent key per object, one out-of-range index per array and one wrong-type step per scalar *)
StepsAt(v) == CASE v.t = "obj" -> {[k |-> k] : k \in KeysOf(v)} \cup {[k |-> "kabsent"]}
                [] v.t = "arr" -> {[i |-> j] : j \in 0..Len(v.e)}
                [] v.t = "missing" -> {}
                [] OTHER -> {}
(* one walk over the document computing, for every path, the answer under both policies at once *)
RECURSIVE Walk(_, _, _)
Walk(p, vf, vl) ==
  { [steps |-> p, f |-> vf, l |-> vl] } \cup
  UNION { Walk(Append(p, st), Step(vf, st, "first"), Step(vl, st, "last")) : st \in StepsAt(vf) \cup StepsAt(vl) }
ProbesOf(v) == Walk(<<>>, v, v)

(* ------------------------------------------------------------------ laws of the operators (meta-invariants) *)
RECURSIVE Nodes(_)
Nodes(v) == {v} \cup (CASE v.t = "arr" -> UNION {Nodes(v.e[i]) : i \in 1..Len(v.e)}
                        [] v.t = "obj" -> UNION {Nodes(v.p[i].v) : i \in 1..Len(v.p)}
                        [] OTHER -> {})

(* the three definitions of Path agree on every probe *)
LawPath(v, probes) == \A pr \in probes :
                        /\ pr.f \in PathAny(v, pr.steps) /\ pr.l \in PathAny(v, pr.steps)
                        /\ (pr.f = pr.l /\ ~HasDup(v)) => PathAny(v, pr.steps) = {pr.f}
                        /\ PathR(v, pr.steps, "first") = pr.f /\ PathL(v, pr.steps, "first") = pr.f
                        /\ PathR(v, pr.steps, "last") = pr.l  /\ PathL(v, pr.steps, "last") = pr.l
LawKey(v)   == \A o \in {x \in Nodes(v) : x.t = "obj"} :
                 /\ \A i \in 1..Len(o.p) : \A pol \in Policies :
                      /\ Lookup(o, o.p[i].k, pol) # Missing
                      /\ \E j \in Positions(o, o.p[i].k) : Lookup(o, o.p[i].k, pol) = o.p[j].v
                      /\ (Cardinality(Positions(o, o.p[i].k)) = 1) => Lookup(o, o.p[i].k, pol) = o.p[i].v
                 /\ \A pol \in Policies : Lookup(o, "kabsent", pol) = Missing
LawIndex(v) == \A a \in {x \in Nodes(v) : x.t = "arr"} :
                 /\ \A i \in 1..Len(a.e) : Index(a, i - 1) = a.e[i]
                 /\ Index(a, Len(a.e)) = Missing
(* read-back and lookup are consistent: looking a path up in the normalized document gives the normalized answer,
   normalization is idempotent and removes every duplicate, and without duplicates the policy is irrelevant *)
NormOrMissing(r, pol) == IF r = Missing THEN Missing ELSE Normalize(r, pol)
LawNorm(v, probes, nf, nl) ==
  /\ ~HasDup(nf) /\ ~HasDup(nl) /\ Normalize(nf, "first") = nf /\ Normalize(nl, "last") = nl
  /\ Normalize(nf, "last") = nf /\ Normalize(nl, "first") = nl
  /\ \A pr \in probes : /\ Path(nf, pr.steps, "last") = NormOrMissing(pr.f, "first")
                        /\ Path(nl, pr.steps, "first") = NormOrMissing(pr.l, "last")
  /\ (~HasDup(v)) => (nf = v /\ nl = v /\ \A pr \in probes : pr.f = pr.l)
LawsOf(v, probes, nf, nl) == LawPath(v, probes) /\ LawKey(v) /\ LawIndex(v) /\ LawNorm(v, probes, nf, nl)

(* ------------------------------------------------------------------ the generator *)
Nums == {JNum(c) : c \in NumClasses}
Strs == {JStr(c) : c \in ValueStrs}
ScalarsFull == {JNull, JBool(TRUE), JBool(FALSE)} \cup Nums \cup Strs
ScalarsLite == {JNull, JBool(TRUE), JNum("int"), JStr("ascii")}

SeqsUpTo(S, n) == UNION {[1..m -> S] : m \in 0..n}

(* G1: every scalar class at the root, inside an array, as an object value; every string class as a key *)
GScalar == ScalarsFull \cup {JArr(<<s>>) : s \in ScalarsFull} \cup {JObj(<<Pr("ka", s)>>) : s \in ScalarsFull}
           \cup {JObj(<<Pr(k, JNum("one"))>>) : k \in KeyStrs}
           \cup {JObj(<<Pr("kb", JNum("one")), Pr(k, JNum("int")), Pr("kA", JNull)>>) : k \in KeyStrs \ {"kb", "kA"}}
           \cup {JArr(<<JObj(<<Pr("ka", JArr(<<JStr(c), JNum("one")>>))>>)>>) : c \in HugeStr}
(* G2: every array of <= 3 elements and every object of <= 3 pairs over a small alphabet (unsorted and duplicate keys
   arise by construction) *)
GFlatW(w) == {JArr(es) : es \in SeqsUpTo(ScalarsLite, 3)} \cup
             {JObj(ps) : ps \in SeqsUpTo({Pr(k, s) : k \in {"ka", "kb", "kA"}, s \in ScalarsLite}, w)}
GFlat == GFlatW(3)
(* G3: duplicate keys in every position: all key sequences of length 2..5 over three keys with a duplicate; the value
   of the pair at position i is the i-th number class, so the winner is identifiable *)
GDups == { JObj([i \in 1..Len(ks) |-> Pr(ks[i], JNum(NumTable[i].c))]) :
             ks \in {q \in UNION {[1..m -> {"ka", "kk", "kz"}] : m \in 2..5} : \E i, j \in 1..Len(q) : i # j /\ q[i] = q[j]} }

(* growing documents: wrap the current document into an array or an object, in several neighbourhoods *)
WrapModes == {"bare", "sib", "dupl", "dupf", "twin"}
Wrap(kind, mode, d) ==
  IF kind = "arr" THEN
    CASE mode = "bare" -> JArr(<<d>>)
      [] mode = "sib"  -> JArr(<<JNum("one"), d, JStr("ascii")>>)
      [] mode = "dupl" -> JArr(<<JArr(<<>>), d>>)
      [] mode = "dupf" -> JArr(<<d, JObj(<<>>)>>)
      [] mode = "twin" -> JArr(<<d, d>>)
  ELSE
    CASE mode = "bare" -> JObj(<<Pr("ka", d)>>)
      [] mode = "sib"  -> JObj(<<Pr("kz", JNum("one")), Pr("ka", d), Pr("kb", JStr("ascii"))>>)      \* unsorted
      [] mode = "dupl" -> JObj(<<Pr("ka", JNull), Pr("kb", JBool(TRUE)), Pr("ka", d)>>)              \* d is the LAST "a"
      [] mode = "dupf" -> JObj(<<Pr("ka", d), Pr("ka", JBool(FALSE))>>)                              \* d is the FIRST "a"
      [] mode = "twin" -> JObj(<<Pr("kb", d), Pr("ka", d)>>)
LeavesLite == ScalarsLite \cup {JStr("mixed"), JNum("negexp"), JArr(<<>>), JObj(<<>>)}
Leaves == (ScalarsFull \ {JStr(c) : c \in HugeStr}) \cup {JArr(<<>>), JObj(<<>>)}      \* the 64 KiB strings stay in GScalar (size)

(* a probe as emitted: `l` only when the policies disagree; when the answer itself contains duplicate keys, its two
   normal forms (the admissible read-backs of the answer) are emitted as well *)
ProbeRec(v, pr) ==
  LET base == IF pr.f = pr.l THEN [steps |-> pr.steps, f |-> pr.f] ELSE pr
      any  == PathAny(v, pr.steps)
      b2   == IF Cardinality(any) > 1 THEN base @@ [any |-> any] ELSE base IN
  IF HasDup(pr.f) \/ HasDup(pr.l)
    THEN b2 @@ [fn |-> NormOrMissing(pr.f, "first"), ln |-> NormOrMissing(pr.l, "last")]
    ELSE b2

(* what is emitted for a document (after the laws have been checked on exactly these probes) *)
Judge(grp, v) ==
  LET probes == ProbesOf(v)  nf == Normalize(v, "first")  nl == Normalize(v, "last")  dup == HasDup(v) IN
  [ok |-> LawsOf(v, probes, nf, nl),
   d  |-> [grp |-> grp, depth |-> Depth(v), dup |-> dup, doc |-> v,
           nf |-> IF dup THEN nf ELSE JNull, nl |-> IF dup THEN nl ELSE JNull,
           probes |-> { ProbeRec(v, pr) : pr \in probes }]]
Tables == [nums |-> NumTable, strs |-> StrTable]
=============================================================================

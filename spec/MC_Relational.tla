--------------------------- MODULE MC_Relational ---------------------------
EXTENDS Relational, Json
MCAVals == {N, 1, 2}
MCBVals == {N, 0, 1, 5}
Emit == PrintT(<<"T", ToJson([hist |-> hist'])>>)
=============================================================================

--------------------------- MODULE MC_Relational ---------------------------
EXTENDS Relational, Json
MCAVals == {N, 1, 2}
MCBVals == {N, 0, 1, 5}
\* which single-row INSERTs the table accepts after the behaviour (C09: the constraint state itself is probed, so an
\* index that silently lost or kept an entry shows even if every statement so far returned the right result)
ProbeRows == {Row(i, a, 0) : i \in Ids, a \in MCAVals}
Accepts == {r \in ProbeRows : DoInsert(rows', <<r>>).ok}
Emit == PrintT(<<"T", ToJson([hist |-> hist', accept |-> Accepts, intxn |-> txn' # <<>>])>>)

(***************************************************************************)
(* Workload generation for the crash checks (C01, C02, C40): the same      *)
(* actions, i.e. every behaviour of WSpec is a behaviour of Spec, but with *)
(* small row / predicate domains and with the transaction-control and      *)
(* durability steps repeated (\E w \in 1..k) so that TLC's -simulate, which *)
(* picks uniformly among successor states, produces walks in which BEGIN,  *)
(* COMMIT, ROLLBACK, checkpoints and reopen are as frequent as DML.        *)
(***************************************************************************)
WRows == {Row(i, a, 0) : i \in Ids, a \in {N, 1}} \cup {Row(1, 2, 1), Row(2, N, 5), Row(3, 2, 1)}
WSecond == {Row(3, N, 0), Row(1, N, 1)}
WPreds == {[k |-> "all", c |-> "id", v |-> 0], [k |-> "eq", c |-> "id", v |-> 1], [k |-> "eq", c |-> "id", v |-> 2],
           [k |-> "eq", c |-> "b", v |-> 0], [k |-> "ge", c |-> "id", v |-> 2], [k |-> "isnull", c |-> "a", v |-> 0]}
WInsert1 == \E r \in WRows : Stmt([k |-> "insert", rows |-> <<r>>], DoInsert(rows, <<r>>))
WInsert2 == \E r1 \in WRows, r2 \in WSecond : DoInsert(rows, <<r1, r2>>).ok /\ Stmt([k |-> "insert", rows |-> <<r1, r2>>], DoInsert(rows, <<r1, r2>>))
WUpdate == \E p \in WPreds : \/ \E x \in {N, 2} : Stmt([k |-> "update", c |-> "a", v |-> x, p |-> p], DoUpdate(rows, "a", x, p))
                              \/ \E y \in {0, 1, 5} : Stmt([k |-> "update", c |-> "b", v |-> y, p |-> p], DoUpdate(rows, "b", y, p))
WDelete == \E p \in WPreds : Stmt([k |-> "delete", p |-> p], DoDelete(rows, p))
WNext == \/ WInsert1 \/ WInsert1 \/ WInsert2 \/ WUpdate \/ UpdateId \/ WDelete
         \/ \E w \in 1..2 : Truncate
         \/ \E w \in 1..14 : Begin \/ Commit \/ Rollback \/ Savepoint \/ RollbackTo \/ Release
         \/ \E w \in 1..8 : Reopen \/ Checkpoint
WSpec == Init /\ [][WNext]_vars

(***************************************************************************)
(* Transaction-focused exploration (C07, C10): starts from a table with    *)
(* two rows (the history begins with the two INSERTs that create them),    *)
(* few DML statements, every transaction-control step - so that the        *)
(* exhaustive per-transition enumeration reaches depth 6-8 inside          *)
(* transactions: ROLLBACK TO followed by further writes and a second       *)
(* rollback, RELEASE then ROLLBACK, nested savepoints, ...                 *)
(***************************************************************************)
TRows == {Row(1, 1, 0), Row(2, N, 1)}
TStep(r, rs) == [op |-> [k |-> "insert", rows |-> <<r>>], ok |-> TRUE, n |-> 1, rows |-> rs, ret |-> {r}, intxn |-> FALSE, touched |-> {r[1]}]
TInit == /\ rows = TRows /\ tomb = {} /\ reop = FALSE /\ txn = <<>> /\ conf = "default" /\ nops = 2
         /\ hist = <<TStep(Row(1, 1, 0), {Row(1, 1, 0)}), TStep(Row(2, N, 1), TRows)>>
TDml == \/ \E r \in {Row(3, 2, 0), Row(1, N, 0)} : Stmt([k |-> "insert", rows |-> <<r>>], DoInsert(rows, <<r>>))
        \/ \E p \in {[k |-> "eq", c |-> "id", v |-> 1], [k |-> "eq", c |-> "b", v |-> 1], [k |-> "all", c |-> "id", v |-> 0]} :
              \/ Stmt([k |-> "update", c |-> "b", v |-> 1, p |-> p], DoUpdate(rows, "b", 1, p))
              \/ Stmt([k |-> "update", c |-> "b", v |-> 0, p |-> p], DoUpdate(rows, "b", 0, p))
              \/ Stmt([k |-> "delete", p |-> p], DoDelete(rows, p))
        \/ Stmt([k |-> "update", c |-> "a", v |-> 2, p |-> [k |-> "eq", c |-> "id", v |-> 2]], DoUpdate(rows, "a", 2, [k |-> "eq", c |-> "id", v |-> 2]))
TNext == (txn # <<>> /\ TDml) \/ Begin \/ Commit \/ Rollback \/ DropHandle \/ Savepoint \/ RollbackTo \/ Release
         \/ (txn = <<>> /\ nops > 3 /\ TDml)
TSpec == TInit /\ [][TNext]_vars

(***************************************************************************)
(* INSERT ... ON CONFLICT DO NOTHING / DO UPDATE (C05, C06, C09, C10):     *)
(* from a table with two rows, every upsert variant over a domain that     *)
(* produces collisions on the primary key, on UNIQUE(a), on both and on    *)
(* none, SET values that keep and that break UNIQUE / NOT NULL / CHECK,    *)
(* interleaved with deletes and reopen (tombstones, restarted counters).   *)
(***************************************************************************)
URows == {Row(i, a, b) : i \in Ids, a \in {N, 1, 2}, b \in {0, 5}}
USets == {<<"a", N>>, <<"a", 1>>, <<"a", 2>>, <<"b", 1>>, <<"b", 5>>, <<"b", N>>}
UInit == /\ rows = {Row(1, 1, 0), Row(2, 2, 1)} /\ tomb = {} /\ reop = FALSE /\ txn = <<>> /\ conf = "default" /\ nops = 2
         /\ hist = <<TStep(Row(1, 1, 0), {Row(1, 1, 0)}), TStep(Row(2, 2, 1), {Row(1, 1, 0), Row(2, 2, 1)})>>
UNext == \/ UpsertNothing(URows) \/ UpsertUpdate(URows, USets)
         \/ \E i \in Ids : Stmt([k |-> "delete", p |-> [k |-> "eq", c |-> "id", v |-> i]], DoDelete(rows, [k |-> "eq", c |-> "id", v |-> i]))
         \/ Reopen
USpec == UInit /\ [][UNext]_vars

(***************************************************************************)
(* Statements that are wrong in themselves (C06): from the same two-row    *)
(* table, every kind of Bad statement, with inserts, deletes, updates and  *)
(* reopen around them.                                                     *)
(***************************************************************************)
BNext == \/ Bad
         \/ \E r \in {Row(3, N, 0), Row(1, 2, 1)} : Stmt([k |-> "insert", rows |-> <<r>>], DoInsert(rows, <<r>>))
         \/ \E i \in Ids : Stmt([k |-> "delete", p |-> [k |-> "eq", c |-> "id", v |-> i]], DoDelete(rows, [k |-> "eq", c |-> "id", v |-> i]))
         \/ Stmt([k |-> "update", c |-> "b", v |-> 1, p |-> [k |-> "all", c |-> "id", v |-> 0]], DoUpdate(rows, "b", 1, [k |-> "all", c |-> "id", v |-> 0]))
         \/ Reopen
BSpec == UInit /\ [][BNext]_vars
=============================================================================

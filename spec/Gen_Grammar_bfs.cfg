CONSTANTS Budget = 2  VBudget = 0  JunkTokens = {"-"}  MaxMut = 0  Starts = {"<Stmt>"}  DeepN = {64, 1000, 5000}  MutMaxLen = 60  MaxLen = 200
SPECIFICATION Spec
INVARIANT TypeOK Balanced KeywordLed Bounded
ACTION_CONSTRAINT Emit
CHECK_DEADLOCK FALSE

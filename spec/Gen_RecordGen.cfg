CONSTANTS Salts = {0, 1}  MaxExh = 6  EdgeN = {7, 8, 9, 15, 16, 17, 31, 32, 33, 63, 64}
SPECIFICATION Spec
INVARIANT Laws
INVARIANT MetaSmall
INVARIANT Emit
CHECK_DEADLOCK FALSE

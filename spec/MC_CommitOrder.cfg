CONSTANTS Threads = {1, 2}  MaxMods = 3
SPECIFICATION Spec
VIEW view
INVARIANT SerialCovered SerialLogOrder SerialReplay AckAfterLogged BatchLogged
CHECK_DEADLOCK FALSE

CONSTANTS Threads = {1, 2}  MaxMods = 3
SPECIFICATION Spec
VIEW view
INVARIANT ReplayGivesNewestCommitted
CHECK_DEADLOCK FALSE

---------------------------- MODULE MC_RelDDL ----------------------------
EXTENDS RelDDL, Json
Emit == PrintT(<<"T", ToJson([hist |-> hist', start |-> start])>>)
NoDev == {}
=============================================================================

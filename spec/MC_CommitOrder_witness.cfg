CONSTANTS Threads = {1, 2}  MaxMods = 3
SPECIFICATION Spec
VIEW view
INVARIANT Covered
CHECK_DEADLOCK FALSE

\* the code as it is, call level, 3 threads
CONSTANTS Threads = {t1, t2, t3}  KA = {k1, k2, k3}  KB = {}  Cap = 2  MaxCalls = 2  MaxHeld = 2  Fine = FALSE  InitMayFail = TRUE
          BudgetPages = 3  Ballast = 30  ClearKeepsPinned = FALSE  ClearCountsUnderLock = TRUE  ReleaseOnInitError = TRUE
CONSTANT Keys <- KeysAll  ShardOf <- ShardsOneTwo
SYMMETRY Sym
SPECIFICATION Spec
VIEW view
INVARIANTS TypeOK DataIsLastWrite WithinCapacity PinnedStaysUnlessClear BudgetExplained BudgetMatchesUnless ConsequencesOnlyAfterClear
ACTION_CONSTRAINT Emit
CHECK_DEADLOCK FALSE

\* interior splits at every child position: from a full root interior page (Pre_Full over U36) every sequence of inserts
CONSTANTS NKeys = 36  KB <- KB_U36  Vals = {1}  VLen <- VLen8  InsVals <- AllVals8  AllowUnsafe = FALSE
CONSTANTS MaxOps = 3  Preloads <- Pre_Full  Motifs = {"bfs"}  PhaseLen = 1  OpVals <- OpVals_Full
SPECIFICATION SpecBfs
VIEW view
ACTION_CONSTRAINT EmitBfs
CHECK_DEADLOCK FALSE

\* model-checking config: only the meta-invariants of the oracle (nothing is printed); Stride = 1 is exhaustive over
\* all triples of tables of <= 2 / 2 / 1 rows
CONSTANTS KeySeq <- MCKeySeq  ValSeq <- MCValSeq
CONSTANTS MaxRowsT = 2  MaxRowsS = 2  MaxRowsU = 1  Stride = 11  Seed = 1
SPECIFICATION Spec
INVARIANT SetAlgebra InAlgebra ScalarAlgebra
CHECK_DEADLOCK FALSE

------------------------------ MODULE ByteKeys ------------------------------
(***************************************************************************)
(* Byte strings and their order, shared by BTreeMap, BTreeShape and        *)
(* LeafSearch (C28 C29 C30).                                               *)
(*                                                                         *)
(* A key is a byte string compared lexicographically (memcmp order, a      *)
(* proper prefix sorts first).  Two representations:                       *)
(*   plain  <<b1, b2, ...>>                  bytes 0..255                  *)
(*   RLE    << <<b, n>>, <<b', n'>>, ... >>  n >= 1 copies of b, so that   *)
(*          1-3 KB keys stay small.  The order is defined on the RLE form  *)
(*          directly and does not depend on the runs being maximal.        *)
(* RleOrderAgrees (checked by TLC in MC_BTreeMap) ties RleLess to SeqLess  *)
(* on the expanded strings.                                                *)
(***************************************************************************)
EXTENDS Integers, Sequences, FiniteSets

\* plain lexicographic order.  The first differing position is found by bisection (keys of several KB are
\* compared; recursion depth is logarithmic)
RECURSIVE FirstDiff(_, _, _, _)   \* least i in lo..hi with a[i] # b[i], given that one exists
FirstDiff(a, b, lo, hi) ==
  IF lo = hi THEN lo
  ELSE LET mid == (lo + hi) \div 2 IN
       IF SubSeq(a, lo, mid) = SubSeq(b, lo, mid) THEN FirstDiff(a, b, mid + 1, hi) ELSE FirstDiff(a, b, lo, mid)
SeqLess(a, b) ==
  LET n == IF Len(a) < Len(b) THEN Len(a) ELSE Len(b) IN
  IF SubSeq(a, 1, n) = SubSeq(b, 1, n) THEN Len(a) < Len(b)
  ELSE LET i == FirstDiff(a, b, 1, n) IN a[i] < b[i]

SeqLeq(a, b) == ~SeqLess(b, a)

RECURSIVE RleLess(_, _)
RleLess(a, b) ==
  IF a = <<>> THEN b # <<>>
  ELSE IF b = <<>> THEN FALSE
  ELSE LET x == a[1]  y == b[1] IN
       IF x[1] # y[1] THEN x[1] < y[1]
       ELSE IF x[2] = y[2] THEN RleLess(Tail(a), Tail(b))
       ELSE IF x[2] < y[2] THEN RleLess(Tail(a), << <<y[1], y[2] - x[2]>> >> \o Tail(b))
       ELSE RleLess(<< <<x[1], x[2] - y[2]>> >> \o Tail(a), Tail(b))

RleLeq(a, b) == ~RleLess(b, a)
RleEq(a, b) == ~RleLess(a, b) /\ ~RleLess(b, a)

RECURSIVE RleLen(_)
RleLen(a) == IF a = <<>> THEN 0 ELSE a[1][2] + RleLen(Tail(a))

RECURSIVE RleExpand(_)
RleExpand(a) == IF a = <<>> THEN <<>> ELSE [i \in 1..a[1][2] |-> a[1][1]] \o RleExpand(Tail(a))

\* RLE of a plain string with one run per byte (not maximal; the order does not care)
ToRle(s) == [i \in 1..Len(s) |-> <<s[i], 1>>]

RleWellFormed(a) == \A i \in 1..Len(a) : a[i][1] \in 0..255 /\ a[i][2] >= 1

\* first four bytes, zero padded: the "prefix hint" of a slot (leaf.rs extract_prefix)
Prefix4(s) == [i \in 1..4 |-> IF i <= Len(s) THEN s[i] ELSE 0]

RECURSIVE Flatten(_)            \* concatenation of a sequence of sequences
Flatten(ss) == IF ss = <<>> THEN <<>> ELSE ss[1] \o Flatten(Tail(ss))

\* the same for an RLE string, without expanding it
RlePrefix4(a) ==
  LET m4(x) == IF x < 4 THEN x ELSE 4
      head == [i \in 1..m4(Len(a)) |-> <<a[i][1], m4(a[i][2])>>]
  IN Prefix4(RleExpand(head))
=============================================================================

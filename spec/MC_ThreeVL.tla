----------------------------- MODULE MC_ThreeVL -----------------------------
(***************************************************************************)
(* Generator + self-check of the ThreeVL oracle (C14, C19).                *)
(*                                                                         *)
(* The "state" is the expression being built; TLC's search is the          *)
(* enumerator.  Every expression is evaluated on a FIXED table that holds  *)
(* every combination of the column domains, so one query on TurDB tests    *)
(* the expression on all inputs at once.                                   *)
(*                                                                         *)
(*   Mode = "bfs"    level 1 = every atom, level 2 = the atom itself and   *)
(*                   every tree of depth 2 whose first child is that atom  *)
(*                   (all partners when Partners = 0, else a seeded choice *)
(*                   of Partners atoms per atom and connective)            *)
(*   Mode = "walk"   Walks pseudo-random walks of WalkLen steps: two trees  *)
(*                   are wrapped / extended / merged at every step (deep,  *)
(*                   bushy trees); every choice is a fixed function of     *)
(*                   (Seed, walk number, step), so a seed names the trees  *)
(*   Mode = "rw"     C19: for a seeded choice of predicates (every         *)
(*                   Stride-th atom and its partners), every rewrite       *)
(*                   with the expected answer of every variant             *)
(*   Mode = "opq"    C19: compounds over OPAQUE atoms A, B, C with their   *)
(*                   truth table over all 27 valuations                    *)
(*                                                                         *)
(* Emitted lines (PrintT(<<"T", ToJson(..)>>)):                            *)
(*   [table |-> ..]                     the fixed tables, once             *)
(*   [e |-> tree, v |-> packed values, nodes |-> per-node packed values]   *)
(*   [kind |-> rewrite, variants |-> trees, vals |-> packed values, ..]    *)
(* Packed values: for rows 1..n in groups of G rows, the base-3 number     *)
(* whose digit k is 0/1/2 for T/F/N of row (group*G + k + 1).              *)
(*                                                                         *)
(* The LAWS of the oracle itself (De Morgan, double negation, TLP,         *)
(* commutativity, IN = OR of =, BETWEEN = two comparisons, LIKE sanity,    *)
(* soundness of every rewrite of C19) are TLC invariants over the same     *)
(* enumeration: a mistake in the oracle shows up here, not as an alarm.    *)
(***************************************************************************)
EXTENDS ThreeVL, Json, TLC

CONSTANTS Mode,        \* "bfs" | "walk" | "rw" | "opq"
          Partners,    \* bfs/rw: 0 = all atoms as second operand, k > 0 = seeded choice of k atoms
          Seed,        \* seeds the choice (0..999)
          EmitNodes,   \* emit per-node expected values with every case
          CheckLaws    \* "all": the meta-invariants (Laws) on every enumerated expression; "some": on every atom, every
                       \* depth-2 tree over every 16th atom; "none"

CONSTANTS Walks, WalkLen,   \* walk mode: number of walks, steps per walk
          Stride            \* rw mode: use the atoms k with (k + Seed) % Stride = 0

VARIABLE st            \* [lvl, k (atom number / walk number), m (bfs: number of the second atom, 0 = none), e (the tree),
                       \*  e2 (second tree: walk / extra atom: rw)]

---------------------------------------------------------------------------
(* the fixed tables *)
Txt(s) == TextV(s)
IVals == <<Null, IntV(-1), IntV(0), IntV(1), IntV(2)>>
FVals == <<Null, FloatV(1), FloatV(2), FloatV(4)>>
SVals == <<Null, Txt(<<>>), Txt(<<"a">>), Txt(<<"b">>), Txt(<<"a", "b">>)>>
NRows == Len(IVals) * Len(FVals) * Len(SVals)      \* 100

Table == TLCEval([id \in 1..NRows |->
            LET z == id - 1 IN
            [id |-> IntV(id),
             i  |-> IVals[(z \div (Len(FVals) * Len(SVals))) + 1],
             f  |-> FVals[((z \div Len(SVals)) % Len(FVals)) + 1],
             s  |-> SVals[(z % Len(SVals)) + 1]]])

(* second table for the FROM-reordering rewrites of C19: u(uid, k) *)
KVals == <<Null, IntV(0), IntV(1)>>
NU    == Len(KVals)
TableU == [uid \in 1..NU |-> [uid |-> IntV(uid), k |-> KVals[uid]]]
(* the cross product t x u, numbered (id - 1) * NU + uid *)
TableTU == [p \in 1..(NRows * NU) |->
              LET id == ((p - 1) \div NU) + 1  uid == ((p - 1) % NU) + 1 IN
              [id |-> Table[id].id, i |-> Table[id].i, f |-> Table[id].f, s |-> Table[id].s,
               uid |-> TableU[uid].uid, k |-> TableU[uid].k]]

(* all 27 valuations of the opaque atoms A, B, C *)
TVSeq == <<"T", "F", "N">>
TableV == [p \in 1..27 |-> [A |-> TVSeq[((p - 1) \div 9) + 1], B |-> TVSeq[(((p - 1) \div 3) % 3) + 1],
                            C |-> TVSeq[((p - 1) % 3) + 1]]]

---------------------------------------------------------------------------
(* packing of value vectors *)
Code(t) == CASE t = "T" -> 0 [] t = "F" -> 1 [] t = "N" -> 2
RECURSIVE PackGroup(_, _, _, _, _)
PackGroup(e, T, base, k, G) == IF k = G THEN 0 ELSE Code(Eval(e, T[base + k + 1])) + 3 * PackGroup(e, T, base, k + 1, G)   \* Horner
Pack(e, T, G) == [g \in 1..(Len(T) \div G) |-> PackGroup(e, T, (g - 1) * G, 0, G)]
PackT(e) == Pack(e, Table, 10)

(* compact rendering info: nested tuples *)
RECURSIVE Show(_)
Show(e) == CASE e.op = "col" -> <<"col", e.nm>>
             [] e.op = "lit" -> <<"lit", e.val.k, e.val.n, e.val.c>>
             [] e.op = "tv"  -> <<"tv", e.nm>>
             [] e.op = "opq" -> <<"opq", e.nm>>
             [] OTHER        -> <<e.op>> \o [j \in 1..Len(e.args) |-> Show(e.args[j])]
ShowV(v) == <<v.k, v.n, v.c>>

---------------------------------------------------------------------------
(* atoms: every operator of the property over the columns and literals *)
OpSeq == <<"=", "<>", "<", "<=", ">", ">=">>
CmpAll(xs, ys) == [j \in 1..(6 * Len(xs) * Len(ys)) |->
                     LET z == j - 1 IN
                     CmpE(OpSeq[(z % 6) + 1], xs[((z \div 6) % Len(xs)) + 1], ys[(z \div (6 * Len(xs))) + 1])]
I == Col("i")   F == Col("f")   S == Col("s")
LI(n) == Lit(IntV(n))   LF(h) == Lit(FloatV(h))   LS(s) == Lit(Txt(s))   LN == Lit(Null)

A_icmp == CmpAll(<<I>>, <<LI(0), LI(1), LI(-1), LF(1), LF(2), LN>>)
A_fcmp == CmpAll(<<F>>, <<LF(1), LF(2), LI(1), LI(0), LN>>)
A_scmp == CmpAll(<<S>>, <<LS(<<>>), LS(<<"a">>), LS(<<"a", "b">>), LS(<<"b">>), LN>>)
A_colcol == CmpAll(<<I>>, <<F>>) \o
            << CmpE("<", F, I), Eq(F, I), Eq(I, I), CmpE("<>", I, I), CmpE("<=", I, I), Eq(S, S), CmpE("<>", S, S),
               CmpE(">=", F, F) >>
A_litcol == << Eq(LI(1), I), CmpE("<", LI(1), I), Eq(LN, I), CmpE("<>", LN, S), CmpE("<", LF(1), F),
               CmpE("<", LS(<<"a">>), S), CmpE(">=", LI(2), I), Eq(LF(2), I), Eq(LS(<<"a", "b">>), S), CmpE(">", LI(1), F) >>
A_litlit == << Eq(LI(1), LI(1)), Eq(LI(1), LN), Eq(LN, LN), CmpE("<>", LN, LN), CmpE("<", LI(1), LI(2)),
               CmpE(">", LI(1), LI(2)), Eq(LI(1), LF(2)), CmpE("<", LS(<<"a">>), LS(<<"b">>)), CmpE("<", LF(1), LI(1)),
               CmpE("<>", LI(1), LI(1)) >>
NullTests(xs) == [j \in 1..(2 * Len(xs)) |-> IF j % 2 = 1 THEN IsNullE(xs[(j + 1) \div 2]) ELSE IsNotNullE(xs[j \div 2])]
A_null == NullTests(<<I, F, S, LN, LI(1)>>)

InArgs == << <<I, LI(0), LI(1)>>, <<I, LI(1), LN>>, <<I, LN>>, <<I, LI(1)>>, <<I, LI(0), LF(2)>>, <<I, LI(-1), LI(2), LI(0)>>,
             <<F, LF(1), LF(4)>>, <<F, LI(1), LN>>, <<S, LS(<<"a">>), LS(<<"a", "b">>)>>, <<S, LS(<<>>), LN>>, <<S, LS(<<"b">>)>>,
             <<I, F, LI(2)>>, <<LI(1), I, LI(2)>>, <<LN, LI(1)>>, <<LI(1), LI(1), LN>>, <<LI(1), LI(2), LN>> >>
A_in == [j \in 1..(2 * Len(InArgs)) |->
           IF j % 2 = 1 THEN Node("in", InArgs[(j + 1) \div 2]) ELSE Node("notin", InArgs[j \div 2])]

BtwArgs == << <<I, LI(0), LI(1)>>, <<I, LN, LI(1)>>, <<I, LI(0), LN>>, <<I, LI(1), LI(0)>>, <<I, LI(1), LI(1)>>,
              <<I, LF(1), LI(2)>>, <<I, LI(-1), LI(2)>>, <<F, LF(1), LF(2)>>, <<F, LI(1), LI(2)>>, <<F, LN, LF(2)>>,
              <<F, I, LF(4)>>, <<S, LS(<<"a">>), LS(<<"b">>)>>, <<S, LS(<<>>), LS(<<"a">>)>>, <<S, LN, LS(<<"b">>)>>,
              <<LI(1), I, F>>, <<I, LN, LN>> >>
A_btw == [j \in 1..(2 * Len(BtwArgs)) |->
            IF j % 2 = 1 THEN Node("between", BtwArgs[(j + 1) \div 2]) ELSE Node("notbetween", BtwArgs[j \div 2])]

Patterns == << <<>>, <<"%">>, <<"_">>, <<"a">>, <<"a", "%">>, <<"%", "b">>, <<"_", "b">>, <<"a", "_">>, <<"%", "a", "%">>,
               <<"_", "_">>, <<"%", "_">>, <<"_", "%", "_">>, <<"a", "b">>, <<"%", "%">>, <<"b", "%", "a">>, <<"a", "%", "b">> >>
A_like == [j \in 1..(2 * Len(Patterns)) |->
             IF j % 2 = 1 THEN LikeE(S, LS(Patterns[(j + 1) \div 2])) ELSE NotLikeE(S, LS(Patterns[j \div 2]))] \o
          << LikeE(S, LN), NotLikeE(S, LN), LikeE(LS(<<"a", "b">>), LS(<<"a", "%">>)), LikeE(LN, LS(<<"%">>)),
             LikeE(LS(<<"a", "b">>), S) >>
A_tv == << TVLit("T"), TVLit("F") >>

AtomSeq == A_icmp \o A_fcmp \o A_scmp \o A_colcol \o A_litcol \o A_litlit \o A_null \o A_in \o A_btw \o A_like \o A_tv
NAtoms  == Len(AtomSeq)
Atoms   == {AtomSeq[j] : j \in 1..NAtoms}

(* seeded choice: the j-th partner of atom number k (a fixed pseudo-random function of k, j, Seed) *)
PickIdx(k, j) == ((k * 7919 + j * 10429 + (Seed % 1000) * 31337 + (k * j * 13) ) % NAtoms) + 1
PartnerIdx(k) == IF Partners = 0 THEN 1..NAtoms ELSE {PickIdx(k, j) : j \in 1..Partners}

(* Memo for the bfs mode: the value vector of every atom, computed ONCE with Eval (TLCEval forces the lazy function
   constructors).  A depth-2 tree over atoms k and m then gets its vector from the vectors of k and m by the
   Kleene connectives - which is what Eval does by definition; FastIsEval states that and is checked by TLC on
   every expression on which the laws are checked. *)
AtomVal == TLCEval([k \in 1..NAtoms |-> TLCEval([id \in 1..NRows |-> Eval(AtomSeq[k], Table[id])])])

FastVec(e, k, m) ==
    LET va == AtomVal[k] IN
    IF m = 0
    THEN (IF e = AtomSeq[k] THEN va
          ELSE CASE e.op = "not"       -> [id \in 1..NRows |-> Not3(va[id])]
                 [] e.op = "isnull"    -> [id \in 1..NRows |-> B3(va[id] = "N")]
                 [] e.op = "isnotnull" -> [id \in 1..NRows |-> B3(va[id] # "N")])
    ELSE LET vb == AtomVal[m] IN
         CASE e.op = "and" -> [id \in 1..NRows |-> And3(va[id], vb[id])]
           [] e.op = "or"  -> [id \in 1..NRows |-> Or3(va[id], vb[id])]
FastIsEval(e, k, m) == \A id \in 1..NRows : FastVec(e, k, m)[id] = Eval(e, Table[id])

RECURSIVE PackVecGroup(_, _, _, _)
PackVecGroup(v, base, k, G) == IF k = G THEN 0 ELSE Code(v[base + k + 1]) + 3 * PackVecGroup(v, base, k + 1, G)
PackVec(v, n, G) == [g \in 1..(n \div G) |-> PackVecGroup(v, (g - 1) * G, 0, G)]

---------------------------------------------------------------------------
(* C19: rewrites of a predicate p. Every rewrite is a record
   [kind, variants (sequence of expressions), same (TRUE: all variants must have the same value on every row)] *)
IdC == Col("id")
TrueConjuncts == << Eq(LI(1), LI(1)), Eq(IdC, IdC), IsNotNullE(IdC), TVLit("T"), CmpE("<", LI(0), IdC), LikeE(LS(<<"a">>), LS(<<"%">>)) >>
FalseDisjuncts == << Eq(LI(1), LI(0)), IsNullE(IdC), TVLit("F") >>
EqChain(x, items) == IF Len(items) = 1 THEN Eq(x, items[1])
                     ELSE IF Len(items) = 2 THEN OrE(Eq(x, items[1]), Eq(x, items[2]))
                     ELSE OrE(OrE(Eq(x, items[1]), Eq(x, items[2])), Eq(x, items[3]))

Rewrites(p, c, tc, fd) ==     \* c: an extra atom (for reassociation), tc / fd: the always-true conjunct / always-false disjunct
    LET bin == p.op \in {"and", "or"}
    IN  << [kind |-> "tlp", same |-> FALSE, variants |-> <<p, NotE(p), IsNullE(p)>>],
           [kind |-> "add_true_conjunct", same |-> TRUE, variants |-> <<p, AndE(p, tc), AndE(tc, p)>>],
           [kind |-> "add_false_disjunct", same |-> TRUE, variants |-> <<p, OrE(p, fd), OrE(fd, p)>>],
           [kind |-> "double_negation", same |-> TRUE, variants |-> <<p, NotE(NotE(p))>>] >>
        \o (IF bin THEN << [kind |-> "commute_" \o p.op, same |-> TRUE, variants |-> <<p, Node(p.op, <<p.args[2], p.args[1]>>)>>],
                           [kind |-> "reassociate_" \o p.op, same |-> TRUE,
                            variants |-> << Node(p.op, <<p, c>>), Node(p.op, <<p.args[1], Node(p.op, <<p.args[2], c>>)>>),
                                            Node(p.op, <<c, p>>) >>],
                           [kind |-> "de_morgan_" \o p.op, same |-> TRUE,
                            variants |-> << NotE(p), Node(IF p.op = "and" THEN "or" ELSE "and", <<NotE(p.args[1]), NotE(p.args[2])>>) >>] >>
            ELSE << >>)
        \o (IF p.op \in {"in", "notin"} /\ Len(p.args) <= 4
            THEN << [kind |-> "in_list_as_or", same |-> TRUE,
                     variants |-> << p, IF p.op = "in" THEN EqChain(p.args[1], Tail(p.args)) ELSE NotE(EqChain(p.args[1], Tail(p.args))) >>] >>
            ELSE << >>)
        \o (IF p.op \in {"between", "notbetween"}
            THEN << [kind |-> "between_as_two_comparisons", same |-> TRUE,
                     variants |-> << p, LET two == AndE(CmpE(">=", p.args[1], p.args[2]), CmpE("<=", p.args[1], p.args[3]))
                                        IN IF p.op = "between" THEN two ELSE NotE(two) >>] >>
            ELSE << >>)

(* two-table predicates for the FROM-reordering rewrite: p over t combined with a condition on u *)
K == Col("k")
JoinForms(p) == << AndE(p, Eq(I, K)), AndE(CmpE("<", K, I), p), OrE(p, IsNullE(K)), AndE(p, CmpE("<>", K, LI(0))) >>

(* compounds over the opaque atoms *)
OA == Opaque("A")   OB == Opaque("B")   OC == Opaque("C")
OpqBase == << OA, NotE(OA), IsNullE(OA), IsNotNullE(OA),
              AndE(OA, OB), OrE(OA, OB), AndE(OA, NotE(OB)), OrE(NotE(OA), OB), NotE(AndE(OA, OB)), NotE(OrE(OA, OB)),
              AndE(OrE(OA, OB), OC), OrE(AndE(OA, OB), OC), AndE(OA, OrE(OB, OC)), OrE(OA, AndE(OB, OC)),
              IsNullE(AndE(OA, OB)), IsNullE(OrE(OA, OB)), IsNotNullE(AndE(OA, OB)), AndE(IsNullE(OA), OB),
              OrE(IsNullE(OA), NotE(OB)), AndE(AndE(OA, OB), OC), OrE(OrE(OA, OB), OC), NotE(NotE(OA)),
              AndE(NotE(OA), NotE(OB)), OrE(NotE(OA), NotE(OB)) >>

---------------------------------------------------------------------------
(* LAWS of the oracle (meta-invariants), for one enumerated expression e over the fixed table *)
SameT(e1, e2) == SameOn(e1, e2, Table)

Laws(e) ==
    /\ \A id \in 1..NRows : WellTyped(e, Table[id]) /\ Eval(e, Table[id]) \in TV
    /\ TLP(e, Table)
    /\ SameT(NotE(NotE(e)), e)                                           \* double negation
    /\ SameT(IsNotNullE(e), NotE(IsNullE(e)))
    /\ SameT(AndE(e, TVLit("T")), e) /\ SameT(OrE(e, TVLit("F")), e)     \* neutral elements
    /\ SameT(AndE(e, e), e) /\ SameT(OrE(e, e), e)                       \* idempotence
    /\ e.op \in {"and", "or"} =>
         LET a == e.args[1]  b == e.args[2]  dual == IF e.op = "and" THEN "or" ELSE "and" IN
         /\ SameT(Node(e.op, <<b, a>>), e)                                \* commutativity
         /\ SameT(NotE(e), Node(dual, <<NotE(a), NotE(b)>>))              \* De Morgan
         /\ SameT(Node(e.op, <<e, a>>), e)                                \* absorption of a repeated operand
    /\ e.op \in CmpOps =>
         LET x == e.args[1]  y == e.args[2] IN
         /\ SameT(CmpE("<>", x, y), NotE(Eq(x, y)))
         /\ SameT(CmpE("<=", x, y), OrE(CmpE("<", x, y), Eq(x, y)))
         /\ SameT(CmpE(">", x, y), CmpE("<", y, x))
         /\ SameT(CmpE(">=", x, y), NotE(CmpE("<", x, y)))
         /\ SameT(Eq(x, y), Eq(y, x))
    /\ e.op \in {"in", "notin"} =>
         LET x == e.args[1]  items == Tail(e.args)
             RECURSIVE Chain(_)
             Chain(j) == IF j = Len(items) THEN Eq(x, items[j]) ELSE OrE(Eq(x, items[j]), Chain(j + 1))
         IN  /\ SameT(Node("in", e.args), Chain(1))                       \* x IN (a,b) = (x = a OR x = b)
             /\ SameT(Node("notin", e.args), NotE(Chain(1)))
    /\ e.op \in {"between", "notbetween"} =>
         LET x == e.args[1] IN
         /\ SameT(Node("between", e.args), AndE(CmpE(">=", x, e.args[2]), CmpE("<=", x, e.args[3])))
         /\ SameT(Node("notbetween", e.args), OrE(CmpE("<", x, e.args[2]), CmpE(">", x, e.args[3])))
    /\ e.op \in {"like", "notlike"} =>
         LET x == e.args[1]  p == e.args[2] IN
         /\ SameT(Node("notlike", e.args), NotE(Node("like", e.args)))
         /\ (p.op = "lit" /\ p.val.k = "text" /\ \A j \in DOMAIN p.val.c : p.val.c[j] \notin {"%", "_"})
               => SameT(LikeE(x, p), Eq(x, p))                            \* no wildcard: LIKE is =
         /\ (p.op = "lit" /\ p.val.k = "text" /\ p.val.c = <<"%">>) =>           \* '%' matches every non-NULL text
               \A id \in 1..NRows : Eval(LikeE(x, p), Table[id]) = (IF IsNullV(Val(x, Table[id])) THEN "N" ELSE "T")
         /\ (p.op = "lit" /\ p.val.k = "text") =>                       \* appending % never loses a match
               \A id \in 1..NRows : Eval(LikeE(x, p), Table[id]) = "T" => Eval(LikeE(x, Lit(Txt(p.val.c \o <<"%">>))), Table[id]) = "T"

LawsDue(e, k) == \/ CheckLaws = "all"
                 \/ (CheckLaws = "some" /\ Depth(e) = 1)                          \* every atom (the definitions of the operators)
                 \/ (CheckLaws = "some" /\ Depth(e) = 2 /\ (k + Seed) % 16 = 0)    \* the connectives on a slice of the trees

RewriteSound(rw, T) == rw.same => \A j \in 2..Len(rw.variants) : SameOn(rw.variants[1], rw.variants[j], T)

---------------------------------------------------------------------------
(* emission *)
Dummy == TVLit("T")

CaseRec(e) == IF EmitNodes
              THEN [e |-> Show(e), v |-> PackT(e), nodes |-> [j \in 1..Len(Nodes(e)) |-> PackT(Nodes(e)[j])]]
              ELSE [e |-> Show(e), v |-> PackT(e)]
EmitCase(e) == PrintT(<<"T", ToJson(CaseRec(e))>>)

RwRec(rw, T, G, extra) == [kind |-> rw.kind, same |-> rw.same, on |-> extra,
                           variants |-> [j \in 1..Len(rw.variants) |-> Show(rw.variants[j])],
                           vals |-> [j \in 1..Len(rw.variants) |-> Pack(rw.variants[j], T, G)],
                           nodes |-> IF EmitNodes
                                     THEN [j \in 1..Len(rw.variants) |->
                                             LET ns == Nodes(rw.variants[j]) IN [n \in 1..Len(ns) |-> Pack(ns[n], T, G)]]
                                     ELSE <<>>]
EmitRw(rw, T, G, extra) == PrintT(<<"T", ToJson(RwRec(rw, T, G, extra))>>)

EmitTables == PrintT(<<"T", ToJson([table |-> [id \in 1..NRows |-> [id |-> id, i |-> ShowV(Table[id].i), f |-> ShowV(Table[id].f), s |-> ShowV(Table[id].s)]],
                                    utable |-> [u \in 1..NU |-> [uid |-> u, k |-> ShowV(TableU[u].k)]],
                                    natoms |-> NAtoms,
                                    \* truth tables of the connectives over the valuations of TableV (A = first, B = second operand)
                                    tt |-> [not |-> Pack(NotE(OA), TableV, 9), isnull |-> Pack(IsNullE(OA), TableV, 9),
                                            isnotnull |-> Pack(IsNotNullE(OA), TableV, 9),
                                            and |-> Pack(AndE(OA, OB), TableV, 9), or |-> Pack(OrE(OA, OB), TableV, 9)]])>>)

---------------------------------------------------------------------------
(* the search *)
St(l, k, e, e2) == [lvl |-> l, k |-> k, m |-> 0, e |-> e, e2 |-> e2]
Init == st = St(0, 0, Dummy, Dummy)

(* bfs: level 1 = an atom number k; level 2 = the atom, NOT / IS NULL / IS NOT NULL of it, and atom k AND / OR a
   second atom m (every m, or a seeded choice of Partners atoms) *)
BfsNext == \/ st.lvl = 0 /\ \E k \in 1..NAtoms : st' = St(1, k, Dummy, Dummy)
           \/ st.lvl = 1 /\ \E t \in {AtomSeq[st.k], NotE(AtomSeq[st.k]), IsNullE(AtomSeq[st.k]), IsNotNullE(AtomSeq[st.k])} :
                                st' = St(2, st.k, t, Dummy)
           \/ st.lvl = 1 /\ \E m \in PartnerIdx(st.k) : st' = [St(2, st.k, AndE(AtomSeq[st.k], AtomSeq[m]), Dummy) EXCEPT !.m = m]
           \/ st.lvl = 1 /\ \E m \in PartnerIdx(2 * st.k + 1) : st' = [St(2, st.k, OrE(AtomSeq[st.k], AtomSeq[m]), Dummy) EXCEPT !.m = m]

(* walk: st.e is the tree under construction (emitted at every step), st.e2 a second tree that is merged in.
   st.k is the walk number; Rnd(w, l, j) is the j-th pseudo-random number of step l of walk w. *)
Rnd(w, l, j) == LET x == (w * 7919 + l * 1031 + j * 131 + (Seed % 1000) * 31337) % 46337 IN (x * x) % 46337
RAtom(w, l, j) == AtomSeq[(Rnd(w, l, j) % NAtoms) + 1]
Bin(w, l, a, b) == IF Rnd(w, l, 2) % 2 = 0 THEN AndE(a, b) ELSE OrE(a, b)
WalkStep(w, l, e, e2) ==
    LET r == Rnd(w, l, 0) % 12  a == RAtom(w, l, 1) IN
    CASE r = 0 -> St(l + 1, w, NotE(e), e2)
      [] r = 1 -> St(l + 1, w, IsNullE(e), e2)
      [] r = 2 -> St(l + 1, w, IsNotNullE(e), e2)
      [] r \in {3, 4} -> St(l + 1, w, Bin(w, l, e, a), e2)
      [] r \in {5, 6} -> St(l + 1, w, Bin(w, l, a, e), e2)
      [] r = 7 -> St(l + 1, w, e, NotE(e2))
      [] r = 8 -> St(l + 1, w, e, Bin(w, l, e2, a))
      [] r \in {9, 10} -> St(l + 1, w, Bin(w, l, e, e2), a)
      [] r = 11 -> St(l + 1, w, Bin(w, l, e2, e), a)
WalkNext == \/ st.lvl = 0 /\ \E w \in 1..Walks : st' = St(1, w, RAtom(w, 0, 1), RAtom(w, 0, 3))
            \/ st.lvl >= 1 /\ st.lvl < WalkLen /\ st' = WalkStep(st.k, st.lvl, st.e, st.e2)

(* rw: level 2 = a predicate (atom number k, or a depth-2 tree over atom k and a seeded partner) *)
RwPreds(k) == LET a == AtomSeq[k] IN
              {a} \cup {AndE(a, AtomSeq[m]) : m \in PartnerIdx(k)} \cup {OrE(a, AtomSeq[m]) : m \in PartnerIdx(3 * k + 2)}
                  \cup (IF k % 4 = 0 THEN {NotE(a)} ELSE IF k % 4 = 1 THEN {IsNullE(a)} ELSE {})
RwNext == \/ st.lvl = 0 /\ \E k \in {j \in 1..NAtoms : (j + Seed) % Stride = 0} : st' = St(1, k, Dummy, Dummy)
          \/ st.lvl = 1 /\ \E p \in RwPreds(st.k) : st' = St(2, st.k, p, AtomSeq[PickIdx(st.k, 7)])

OpqNext == st.lvl = 0 /\ \E j \in 1..Len(OpqBase) : st' = St(2, j, OpqBase[j], Dummy)

Next == CASE Mode = "bfs" -> BfsNext [] Mode = "walk" -> WalkNext [] Mode = "rw" -> RwNext [] Mode = "opq" -> OpqNext

(* everything that is emitted / checked for the state reached (an INVARIANT) *)
RwW(p) == Len(Nodes(p)) + st.k + (Seed % 7)
Visit ==
    CASE st.lvl = 0 -> EmitTables
      [] Mode = "bfs" /\ st.lvl = 2 -> /\ PrintT(<<"T", ToJson([e |-> Show(st.e), v |-> PackVec(FastVec(st.e, st.k, st.m), NRows, 10)])>>)
                                       /\ (LawsDue(st.e, st.k) => Laws(st.e) /\ FastIsEval(st.e, st.k, st.m))
      [] Mode = "walk" /\ st.lvl >= 1 -> EmitCase(st.e) /\ (LawsDue(st.e, st.k) => Laws(st.e))
      [] Mode = "rw" /\ st.lvl = 2 ->
           LET p == st.e  w == RwW(p)
               rws == Rewrites(p, st.e2, TrueConjuncts[(w % Len(TrueConjuncts)) + 1], FalseDisjuncts[(w % Len(FalseDisjuncts)) + 1])
               jf == JoinForms(p) IN
           /\ \A j \in 1..Len(rws) : RewriteSound(rws[j], Table) /\ EmitRw(rws[j], Table, 10, "t")
           /\ (LawsDue(p, st.k) => Laws(p))
           /\ LET q == jf[(w % Len(jf)) + 1]
                  rw == [kind |-> "reorder_from", same |-> TRUE, variants |-> <<q>>] IN
              (w % 3 = 0) => EmitRw(rw, TableTU, 10, "tu")
      [] Mode = "opq" /\ st.lvl = 2 ->
           LET p == st.e  rws == Rewrites(p, OC, IF st.k % 2 = 0 THEN TVLit("T") ELSE Eq(LI(1), LI(1)), IF st.k % 2 = 0 THEN Eq(LI(1), LI(0)) ELSE TVLit("F")) IN
           \A j \in 1..Len(rws) : RewriteSound(rws[j], TableV) /\ EmitRw(rws[j], TableV, 9, "v")
      [] OTHER -> TRUE

Spec == Init /\ [][Next]_st
=============================================================================

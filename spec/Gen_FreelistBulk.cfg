CONSTANTS TrunkMax = 4090  Sizes = {1, 2, 4089, 4090, 4091, 4092}  MaxOps = 4  MaxPages = 12400
SPECIFICATION Spec
VIEW view
INVARIANT CountMatchesChain
ACTION_CONSTRAINT Emit
CHECK_DEADLOCK FALSE

----------------------------- MODULE CheckExpr -----------------------------
(***************************************************************************)
(* C09, CHECK constraints: "the expression is not FALSE under SQL          *)
(* semantics".  A column  x INT CHECK (e)  accepts a value v iff           *)
(* ThreeVL!Eval(e, [x |-> v]) is TRUE or UNKNOWN.                          *)
(*                                                                         *)
(* The expressions: comparisons with the column on either side, IS [NOT]   *)
(* NULL, BETWEEN, IN, and every shape of NOT / AND / OR over up to three   *)
(* of them - in particular the shapes whose meaning depends on operator    *)
(* precedence when they are written without parentheses (a OR b AND c,     *)
(* a AND b OR c, NOT a AND b): lib renders them with the minimal           *)
(* parentheses. The values: NULL (UNKNOWN must pass), values on both sides *)
(* of and exactly on every literal used.                                   *)
(***************************************************************************)
EXTENDS ThreeVL

X == Col("x")
LI(n) == Lit(IntV(n))
AtomSeq == << CmpE(">", X, LI(100)), CmpE(">", X, LI(0)), CmpE("<", X, LI(10)), Eq(X, LI(5)), CmpE("<>", X, LI(5)),
              CmpE(">=", X, LI(0)), CmpE("<=", X, LI(10)), CmpE("<", LI(0), X), IsNotNullE(X), IsNullE(X),
              BetweenE(X, LI(0), LI(10)), InE(X, <<LI(5), LI(200)>>) >>
Atoms == {AtomSeq[j] : j \in 1..Len(AtomSeq)}
\* a smaller set for the three-operand shapes
Core == {AtomSeq[j] : j \in {1, 2, 3, 4, 9}}

Shapes1 == Atoms \cup {NotE(a) : a \in Atoms}
Shapes2 == {AndE(a, b) : a \in Atoms, b \in Atoms} \cup {OrE(a, b) : a \in Atoms, b \in Atoms}
           \cup {NotE(AndE(a, b)) : a \in Core, b \in Core} \cup {NotE(OrE(a, b)) : a \in Core, b \in Core}
           \cup {AndE(NotE(a), b) : a \in Core, b \in Core} \cup {OrE(NotE(a), b) : a \in Core, b \in Core}
Shapes3 == {OrE(a, AndE(b, c)) : a \in Core, b \in Core, c \in Core}          \* a OR b AND c
           \cup {AndE(OrE(a, b), c) : a \in Core, b \in Core, c \in Core}     \* (a OR b) AND c
           \cup {OrE(AndE(a, b), c) : a \in Core, b \in Core, c \in Core}     \* a AND b OR c
           \cup {AndE(a, OrE(b, c)) : a \in Core, b \in Core, c \in Core}     \* a AND (b OR c)
Exprs == Shapes1 \cup Shapes2 \cup Shapes3

XVals == <<Null, IntV(-5), IntV(0), IntV(5), IntV(7), IntV(10), IntV(200)>>
Row(v) == [x |-> v]
Accepts(e, v) == Eval(e, Row(v)) # "F"

VARIABLES e, done
vars == <<e, done>>
Init == e \in Exprs /\ done = FALSE
Next == ~done /\ done' = TRUE /\ UNCHANGED e
Spec == Init /\ [][Next]_vars

\* laws of the oracle itself, over every generated expression and value
DeMorgan == \A a \in Core, b \in Core : \A j \in 1..Len(XVals) :
               /\ Eval(NotE(AndE(a, b)), Row(XVals[j])) = Eval(OrE(NotE(a), NotE(b)), Row(XVals[j]))
               /\ Eval(NotE(OrE(a, b)), Row(XVals[j])) = Eval(AndE(NotE(a), NotE(b)), Row(XVals[j]))
NullPassesComparisons == \A j \in 1..8 : Accepts(AtomSeq[j], Null)
PrecedenceMatters == \E a \in Core, b \in Core, c \in Core : \E j \in 1..Len(XVals) :
                        Accepts(OrE(a, AndE(b, c)), XVals[j]) # Accepts(AndE(OrE(a, b), c), XVals[j])
OracleLaws == DeMorgan /\ NullPassesComparisons /\ PrecedenceMatters
=============================================================================

---- MODULE MC_Calendar_TTrace_1790066278 ----
EXTENDS Sequences, TLCExt, Toolbox, MC_Calendar, Naturals, TLC

_expression ==
    LET MC_Calendar_TEExpression == INSTANCE MC_Calendar_TEExpression
    IN MC_Calendar_TEExpression!expression
----

_trace ==
    LET MC_Calendar_TETrace == INSTANCE MC_Calendar_TETrace
    IN MC_Calendar_TETrace!trace
----

_inv ==
    ~(
        TLCGet("level") = Len(_TETrace)
        /\
        st = (<<"ym", 1045, 10>>)
    )
----

_init ==
    /\ st = _TETrace[1].st
----

_next ==
    /\ \E i,j \in DOMAIN _TETrace:
        /\ \/ /\ j = i + 1
              /\ i = TLCGet("level")
        /\ st  = _TETrace[i].st
        /\ st' = _TETrace[j].st

\* Uncomment the ASSUME below to write the states of the error trace
\* to the given file in Json format. Note that you can pass any tuple
\* to `JsonSerialize`. For example, a sub-sequence of _TETrace.
    \* ASSUME
    \*     LET J == INSTANCE Json
    \*         IN J!JsonSerialize("MC_Calendar_TTrace_1790066278.json", _TETrace)

=============================================================================

 Note that you can extract this module `MC_Calendar_TEExpression`
  to a dedicated file to reuse `expression` (the module in the 
  dedicated `MC_Calendar_TEExpression.tla` file takes precedence 
  over the module `MC_Calendar_TEExpression` below).

---- MODULE MC_Calendar_TEExpression ----
EXTENDS Sequences, TLCExt, Toolbox, MC_Calendar, Naturals, TLC

expression == 
    [
        \* To hide variables of the `MC_Calendar` spec from the error trace,
        \* remove the variables below.  The trace will be written in the order
        \* of the fields of this record.
        st |-> st
        
        \* Put additional constant-, state-, and action-level expressions here:
        \* ,_stateNumber |-> _TEPosition
        \* ,_stUnchanged |-> st = st'
        
        \* Format the `st` variable as Json value.
        \* ,_stJson |->
        \*     LET J == INSTANCE Json
        \*     IN J!ToJson(st)
        
        \* Lastly, you may build expressions over arbitrary sets of states by
        \* leveraging the _TETrace operator.  For example, this is how to
        \* count the number of times a spec variable changed up to the current
        \* state in the trace.
        \* ,_stModCount |->
        \*     LET F[s \in DOMAIN _TETrace] ==
        \*         IF s = 1 THEN 0
        \*         ELSE IF _TETrace[s].st # _TETrace[s-1].st
        \*             THEN 1 + F[s-1] ELSE F[s-1]
        \*     IN F[_TEPosition - 1]
    ]

=============================================================================



Parsing and semantic processing can take forever if the trace below is long.
 In this case, it is advised to uncomment the module below to deserialize the
 trace from a generated binary file.

\*
\*---- MODULE MC_Calendar_TETrace ----
\*EXTENDS IOUtils, MC_Calendar, TLC
\*
\*trace == IODeserialize("MC_Calendar_TTrace_1790066278.bin", TRUE)
\*
\*=============================================================================
\*

---- MODULE MC_Calendar_TETrace ----
EXTENDS MC_Calendar, TLC

trace == 
    <<
    ([st |-> <<"root", 0, 0>>]),
    ([st |-> <<"blk", 10, 0>>]),
    ([st |-> <<"ym", 1045, 10>>])
    >>
----


=============================================================================

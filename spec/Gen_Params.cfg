SPECIFICATION Spec
INVARIANT SubstRoundTrip
INVARIANT FormLaws
INVARIANT ParamIsLiteral
INVARIANT ConstraintsHold
INVARIANT ErrLeavesStateAlone
INVARIANT RepeatLaws
INVARIANT SelectLaws
INVARIANT Emit
CHECK_DEADLOCK FALSE

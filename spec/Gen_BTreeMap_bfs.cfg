\* per-transition enumeration over U6 from every preload script (history hidden by VIEW)
CONSTANTS NKeys = 6  KB <- KB_U6  Vals = {1, 3, 6, 8}  VLen <- VLen8  InsVals <- AllVals8  AllowUnsafe = FALSE
CONSTANTS MaxOps = 3  Preloads <- Pre_U6  Motifs = {"bfs"}  PhaseLen = 1  OpVals <- OpVals_U6
SPECIFICATION SpecBfs
VIEW view
ACTION_CONSTRAINT EmitBfs
CHECK_DEADLOCK FALSE

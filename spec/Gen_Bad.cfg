CONSTANTS Ids = {1, 2, 3}  MaxOps = 8  WithTxn = FALSE  WithReopen = TRUE  Configs = {}
CONSTANTS AVals <- MCAVals  BVals <- MCBVals
SPECIFICATION BSpec
VIEW view
INVARIANT ConstraintsHold
ACTION_CONSTRAINT Emit
CHECK_DEADLOCK FALSE

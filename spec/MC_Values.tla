------------------------------ MODULE MC_Values ------------------------------
(* TLC model for Values.tla: checks the register invariants and emits one line per behaviour that ends in Read:
   the table shape, the history of writes (the test case) and the expected contents, with the arithmetic meaning
   of every named point that has one (byte length, day number, time of day). *)
EXTENDS Values, Json

QuickShapes == {"solo", "nokey", "first", "lastn"}
SizePointOf(c) == CHOOSE p \in SizePoints : c \in {"t_" \o p, "bu_" \o p, "bb_" \o p}
IsSized(c) == \E p \in SizePoints : c \in {"t_" \o p, "bu_" \o p, "bb_" \o p}

DateDetail(c) == LET p == DatePoint(c) IN [y |-> p[1], m |-> p[2], d |-> p[3], days |-> DaysFromCivil(p[1], p[2], p[3])]
TimeDetail(c) == LET p == TimePoint(c) IN [h |-> p[1], mi |-> p[2], s |-> p[3], us |-> p[4], secs |-> p[1] * 3600 + p[2] * 60 + p[3]]

Detail(x, c) ==
    IF c \in {"null", "-", "n_42", "absent"} THEN [none |-> TRUE]
    ELSE IF IsSized(c) THEN [len |-> SizeOf(SizePointOf(c))]
    ELSE IF c = "t_mb_chunk" THEN [len |-> ChunkSize + 100, split |-> ChunkSize - 2]
    ELSE IF Tag(x) = "date" THEN DateDetail(c)
    ELSE IF Tag(x) = "time" THEN TimeDetail(c)
    ELSE IF Tag(x) = "ts" THEN [date |-> DateDetail(TsPoint(c)[1]), time |-> TimeDetail(TsPoint(c)[2])]
    ELSE IF Tag(x) = "vec" THEN [dim |-> VecDim(x)]
    ELSE [none |-> TRUE]

StepOut(h) == [k |-> h.k, cls |-> h.cls, form |-> h.form, path |-> h.path, detail |-> Detail(ct, h.cls),
               pre |-> h.pre, predetail |-> Detail(ct, h.pre), may_reject |-> MayReject(ct, h.cls),
               large |-> IsLarge(h.cls), huge |-> IsHuge(h.cls)]

Emit == (phase = "written" /\ phase' = "read") =>
          PrintT(<<"T", ToJson([ct |-> ct, tag |-> Tag(ct), shape |-> shape, witness_first |-> WitnessFirst(shape),
                                hist |-> [i \in 1..Len(hist) |-> StepOut(hist[i])],
                                expect |-> [v |-> store.r1.v, vdetail |-> Detail(ct, store.r1.v.cls), a |-> store.r1.a, b |-> store.r1.b,
                                            copies |-> store.copies,
                                            w |-> store.r2.v, wdetail |-> Detail(ct, store.r2.v.cls)],
                                reopened |-> sess > 1])>>)
=============================================================================

---------------------------- MODULE AutoIncTrace ----------------------------
(***************************************************************************)
(* Judge for C12: validates traces OBSERVED on the implementation against  *)
(* AutoInc.tla. The generated values are taken from the observation (the   *)
(* id stored for each tag / RETURNING) and fed to the reference as the     *)
(* `gens` input; AutoInc!GenOK, MustFail, MayFail decide. After every step *)
(* the judge ADOPTS the observed table (rows := what SELECT shows, held    *)
(* grows by what was seen) so that one divergence does not blind the rest  *)
(* of the trace. One verdict record is printed per step.                   *)
(*                                                                         *)
(* Input: ndjson file named by the environment variable TRACE, one trace   *)
(* per line: {"id":n,"steps":[{"k","api","items":[[id,v]..],"ok","hasret", *)
(* "ret":[id..],"rows":[[id,v]..],"ids":[..],"w","from","to"}..]}; NULL=-99 *)
(***************************************************************************)
EXTENDS AutoInc, Json, IOUtils

Traces == ndJsonDeserialize(IOEnv.TRACE)
Missing == -98

VARIABLES ti, si, how, gone, reopSince, bulkUsed, verdict
jvars == <<ti, si, how, gone, reopSince, bulkUsed, verdict, rows, held, lastGen, txn, nv, nops, hist>>

ToItems(s) == [i \in 1..Len(s.items) |-> [id |-> s.items[i][1], v |-> s.items[i][2]]]
RowSet(s) == {<<s.rows[i][1], s.rows[i][2]>> : i \in 1..Len(s.rows)}
ObsId(R, v) == IF \E r \in R : r[2] = v THEN (CHOOSE r \in R : r[2] = v)[1] ELSE Missing
GenIdx(items) == SelectSeq([i \in 1..Len(items) |-> i], LAMBDA i : items[i].id = N)
ObsGens(items, R) == LET gi == GenIdx(items) IN [k \in 1..Len(gi) |-> ObsId(R, items[gi[k]].v)]

\* class of an explicit id relative to the (adopted) state the statement starts in
ClassOf(x) == IF x = N THEN "gen"
              ELSE IF x \in Ids(rows) THEN "dup"
              ELSE IF x \in held THEN "gone"
              ELSE IF x = MaxOf(held) + 1 THEN "next"
              ELSE IF x > MaxOf(held) THEN "far" ELSE "low"
ShapeOf(items) == [i \in 1..Len(items) |-> ClassOf(items[i].id)]

\* per generated value: which clause of GenOK fails (evaluated in statement order, as AutoInc!Fold does)
RECURSIVE GenKinds(_, _, _, _, _)
GenKinds(items, gens, i, gi, acc) ==
    IF i > Len(items) THEN acc.k
    ELSE LET it == items[i]
             x == IF it.id = N THEN gens[gi] ELSE it.id
             bad == IF it.id # N THEN {}
                    ELSE IF x = Missing THEN {[kind |-> "gen_missing", g |-> x]}
                    ELSE IF x = N THEN {[kind |-> "gen_null", g |-> x]}
                    ELSE IF x \in acc.h THEN {[kind |-> "gen_reused", g |-> x]}
                    ELSE IF x <= acc.last THEN {[kind |-> "gen_not_increasing", g |-> x]}
                    ELSE {}
         IN GenKinds(items, gens, i + 1, IF it.id = N THEN gi + 1 ELSE gi,
                     [h |-> IF x \in {N, Missing} THEN acc.h ELSE acc.h \cup {x},
                      last |-> IF it.id = N /\ x \notin {N, Missing} THEN x ELSE acc.last,
                      k |-> acc.k \cup bad])

\* where a value that is generated again came from and where it went (spec-defined blame)
Origin(g) == IF g \in DOMAIN how THEN how[g] ELSE "same_statement"
Where(g) == IF g \in Ids(rows) THEN "present" ELSE IF g \in DOMAIN gone THEN gone[g] ELSE "same_statement"
Unusual(o) == o \notin {"gen", "explicit"}
\* values above the last generated one that the column has held and that did not get there by a plain INSERT:
\* what a counter that only follows INSERT statements does not know about
Blocker == LET b == {i \in held : i > lastGen /\ i \in DOMAIN how /\ Unusual(how[i])}
           IN IF b = {} THEN "none" ELSE how[MinOf(b)]
\* an explicit id the column never held, above the last generated value, precedes a generating item of the same statement
ExplicitBeforeGen(items) == \E i \in ExpItems(items), j \in GenItems(items) : i < j /\ items[i].id > lastGen /\ items[i].id \notin held
\* why a generating INSERT that the reference accepts may have been refused: first applicable cause
Cause(items) == IF "bulk_insert" \in bulkUsed THEN "after_bulk_insert"
                ELSE IF Blocker # "none" THEN "blocked_by_" \o Blocker
                ELSE IF ExplicitBeforeGen(items) THEN "explicit_id_before_generating_item"
                ELSE "none"

JInit == /\ ti \in 1..Len(Traces) /\ si = 0 /\ how = <<>> /\ gone = <<>> /\ reopSince = FALSE /\ bulkUsed = {} /\ verdict = <<>>
         /\ rows = {} /\ held = {} /\ lastGen = 0 /\ txn = <<>> /\ nv = 0 /\ nops = 0 /\ hist = <<>>

Adopt(R, newHow, goneKind) ==
    /\ rows' = R
    /\ held' = held \cup (Ids(R) \ {N})
    /\ how' = [i \in (DOMAIN how) \cup (Ids(R) \ {N}) |-> IF i \in DOMAIN how THEN how[i] ELSE newHow[i]]
    /\ gone' = [i \in (DOMAIN gone) \cup (Ids(rows) \ Ids(R)) |-> IF i \in Ids(rows) \ Ids(R) THEN goneKind ELSE gone[i]]

JStep ==
    /\ si < Len(Traces[ti].steps)
    /\ si' = si + 1 /\ UNCHANGED <<ti, nv, nops, hist>>
    /\ LET s == Traces[ti].steps[si + 1]
           R == RowSet(s)
           base == [id |-> Traces[ti].id, step |-> si + 1, k |-> s.k, api |-> s.api, intxn |-> txn # <<>>, reopened |-> reopSince, ok |-> s.ok]
       IN
       IF s.k \in {"ins", "bulk"}
       THEN LET items == ToItems(s)
                gens == ObsGens(items, R)
                shape == ShapeOf(items)
                a == Fold(items, gens, 1, Acc0(rows, held, lastGen))
                gk == IF s.ok THEN GenKinds(items, gens, 1, 1, [h |-> held, last |-> lastGen, k |-> {}]) ELSE {}
                stored == [i \in 1..Len(items) |-> IF items[i].id = N THEN ObsId(R, items[i].v) ELSE items[i].id]
                kinds == {x.kind : x \in gk}
                         \cup (IF s.ok /\ s.hasret /\ s.ret # stored THEN {"returning_differs_from_stored"} ELSE {})
                         \cup (IF s.ok /\ MustFail(items, rows) THEN {"accepted_duplicate"} ELSE {})
                         \cup (IF s.ok /\ ~MustFail(items, rows) /\ gk = {} /\ R # rows \cup a.new THEN {"state"} ELSE {})
                         \cup (IF ~s.ok /\ ~MayFail(items, rows, held, lastGen) THEN {"rejected_valid"} ELSE {})
                         \cup (IF ~s.ok /\ R # rows THEN {"err_changed_state"} ELSE {})
                blame == {[g |-> x.g, origin |-> Origin(x.g), where |-> Where(x.g)] : x \in {y \in gk : y.kind = "gen_reused"}}
                genIds == {gens[k] : k \in 1..Len(gens)}
                sfx == IF s.k = "bulk" THEN "_" \o s.api ELSE ""
                newHow == [i \in Ids(R) |-> IF ~s.ok THEN "leftover_of_failed_statement"
                                            ELSE IF i \in genIds THEN "gen" \o sfx ELSE "explicit" \o sfx]
            IN /\ verdict' = [base EXCEPT !.k = s.k] @@ [kinds |-> kinds, shape |-> shape, gens |-> gens, blame |-> blame,
                                                         cause |-> Cause(items), ngen |-> Len(gens)]
               /\ bulkUsed' = IF s.k = "bulk" THEN bulkUsed \cup {s.api} ELSE bulkUsed
               /\ Adopt(R, newHow, s.k)
               /\ lastGen' = LET idx == {k \in 1..Len(gens) : gens[k] \notin {N, Missing}}
                             IN IF s.ok /\ idx # {} THEN gens[MaxOf(idx)] ELSE lastGen
               /\ reopSince' = IF s.ok /\ Len(gens) > 0 THEN FALSE ELSE reopSince
               /\ UNCHANGED txn
       ELSE LET expect == CASE s.k = "del" -> IF s.w = "all" THEN {} ELSE {r \in rows : r[1] \notin {s.ids[i] : i \in 1..Len(s.ids)}}
                            [] s.k = "trunc" -> {}
                            [] s.k = "upd" -> {IF r[1] = s.from THEN <<s.to, r[2]>> ELSE r : r \in rows}
                            [] s.k = "rollback" -> IF txn # <<>> THEN txn[1] ELSE rows
                            [] OTHER -> rows
                kinds == (IF ~s.ok THEN {"rejected_valid_other"} ELSE {})
                         \cup (IF s.ok /\ R # expect THEN {"state"} ELSE {})
                         \cup (IF ~s.ok /\ R # rows THEN {"err_changed_state"} ELSE {})
                newHow == [i \in Ids(R) |-> IF s.k = "upd" THEN "update" ELSE "appeared"]
            IN /\ verdict' = base @@ [kinds |-> kinds, shape |-> <<>>, gens |-> <<>>, blame |-> {}, cause |-> "none", ngen |-> 0]
               /\ UNCHANGED bulkUsed
               /\ Adopt(R, newHow, s.k)
               /\ UNCHANGED lastGen
               /\ reopSince' = (reopSince \/ s.k = "reopen")
               /\ txn' = CASE s.k = "begin" /\ s.ok -> <<R>>
                           [] s.k \in {"commit", "rollback"} -> <<>>
                           [] OTHER -> txn

JSpec == JInit /\ [][JStep]_jvars
JEmit == PrintT(<<"T", ToJson(verdict')>>)
\* the judge must never lose soundness of its own ghosts
JInv == Ids(rows) \ {N} \subseteq held
=============================================================================

CONSTANTS Files = {"t.tbd", "t_id_pkey.idx", "t_a_key.idx", "t_t_b.idx", "t_toast.tbd", "turdb.meta", "memory_stats.tbd", "wal_stats.tbd"}
          Pages = {0, 1, 2, 3}  LoggedFiles = {"t.tbd"}  MaxStmts = 100000  MaxMut = 100000  SyncMode = "FULL"
SPECIFICATION TSpec
INVARIANT C01_kill C01_power_logged NoRegressionOfAcked
POSTCONDITION Accepted
CHECK_DEADLOCK FALSE

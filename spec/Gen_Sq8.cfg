CONSTANTS Dense = FALSE
INIT Init
NEXT Next
INVARIANTS ExactInput IdealWithinHalfStep Emit
CHECK_DEADLOCK FALSE

------------------------------- MODULE SpillRow -------------------------------
(* C33 - spilled rows round-trip through the spill format.

   Rows are sequences of ITEMS; an item is a value variant plus a value class  [v |-> "Float", c |-> "negzero", n |-> 0]
   (`n` is the byte length of a variable-size value / the dimension of a vector).  Two value universes exist in TurDB:
     F1  `Value`       (19 variants)  serialized by sql::row_serde::RowSerde, used by the partition spiller
     F2  `OwnedValue`  (23 variants)  serialized by sql::subquery::spill::MaterializedRow / SpillableBuffer

   The PROPERTY (reference semantics, the same for both):
       Deser(Ser(row)) = row  with the same variants          (LawRoundTrip)
       DeserAll(Ser(r1) \o ... \o Ser(rk)) = <<r1, ..., rk>>  (LawSequence; the final offset is the total length)
       Size(row) = number of bytes of Ser(row)                (LawSize)

   The module also writes down the DOCUMENTED RowSerde encoding (the discriminant table in the header comment of
   src/sql/row_serde.rs) as Enc / Dec, and the documented size function (value_size) as SizeOf - two tables that the
   source keeps separately.  TLC checks (a) that the two tables agree (LawSize on the documented encoding), (b) which
   items the documented encoding cannot return unchanged: DocLossy.  The reference answer stays the identity; DocLossy
   only names the deviation the documented format predicts, so that a finding has a spec-defined signature.

   Bytes are not modelled: a serialized row is a sequence of tokens (one count token, one token per item carrying a
   discriminant and a width). *)
EXTENDS Naturals, Sequences, FiniteSets, TLC

(* ------------------------------------------------------------------ items *)
It(v, c, n) == [v |-> v, c |-> c, n |-> n]

IntItems   == {It("Int", c, 0) : c \in {"zero", "one", "neg1", "min", "max"}}
FloatItems == {It("Float", c, 0) : c \in {"zero", "negzero", "one", "negfrac", "nan", "inf", "neginf", "tiny", "max"}}
TextItems  == {It("Text", "e0", 0), It("Text", "e1", 1), It("Text", "e127", 127), It("Text", "e128", 128), It("Text", "utf8", 130),
               It("Text", "e16383", 16383), It("Text", "e16384", 16384), It("Text", "large", 70000)}
BlobItems  == {It("Blob", "e0", 0), It("Blob", "e1", 1), It("Blob", "toast17", 17), It("Blob", "e128", 128), It("Blob", "e16384", 16384),
               It("Blob", "large", 70000)}
VecItems   == {It("Vector", "d0", 0), It("Vector", "d1", 1), It("Vector", "d9", 9), It("Vector", "d70", 70), It("Vector", "d3nan", 3)}
BytesN(v)  == {It(v, c, 0) : c \in {"zeros", "ones", "pattern"}}
Triple(v)  == {It(v, c, 0) : c \in {"zero", "mixed", "extreme"}}
JsonbItems == {It("Jsonb", "e0", 0), It("Jsonb", "jnull", 4), It("Jsonb", "jobj", 37)}
DecItems   == {It("Decimal", c, 0) : c \in {"dzero", "dpos", "dneg", "dmax", "dmin"}}
ToastItems == {It("ToastPointer", "tp17", 17), It("ToastPointer", "e0", 0)}

(* the variants shared by both universes *)
CommonItems == {It("Null", "null", 0)} \cup IntItems \cup FloatItems \cup TextItems \cup BlobItems \cup VecItems
               \cup BytesN("Uuid") \cup BytesN("MacAddr") \cup BytesN("Inet4") \cup BytesN("Inet6")
               \cup {It("TimestampTz", c, 0) : c \in {"zero", "maxplus", "minminus"}}
               \cup Triple("Interval") \cup Triple("Point") \cup Triple("GeoBox") \cup Triple("Circle") \cup Triple("Enum")
               \cup JsonbItems \cup DecItems \cup ToastItems
(* OwnedValue has four more *)
OwnedOnly == {It("Bool", "false", 0), It("Bool", "true", 0)} \cup
             {It(v, c, 0) : v \in {"Date", "Time", "Timestamp"}, c \in {"zero", "min", "max"}}
ItemsF1 == CommonItems
ItemsF2 == CommonItems \cup OwnedOnly
VariantsF1 == {i.v : i \in ItemsF1}
VariantsF2 == {i.v : i \in ItemsF2}
ASSUME Cardinality(VariantsF1) = 19 /\ Cardinality(VariantsF2) = 23      \* the two enums, counted in the source

VarSized == {"Text", "Blob", "Jsonb", "ToastPointer"}

(* ------------------------------------------------------------------ reference semantics (the property) *)
(* a serialized row: <<count token>> \o one token per item *)
SerRef(row) == <<[cnt |-> Len(row)]>> \o [i \in 1..Len(row) |-> [item |-> row[i]]]
RECURSIVE ConcatAll(_)
ConcatAll(rows) == IF rows = <<>> THEN <<>> ELSE SerRef(Head(rows)) \o ConcatAll(Tail(rows))
(* decode one row starting at position pos (1-based) of a token stream *)
DeserAt(stream, pos) == LET n == stream[pos].cnt IN
                        [row |-> [i \in 1..n |-> stream[pos + i].item], next |-> pos + n + 1]
RECURSIVE DeserAll(_, _, _)
DeserAll(stream, pos, k) == IF k = 0 THEN <<>> ELSE LET r == DeserAt(stream, pos) IN <<r.row>> \o DeserAll(stream, r.next, k - 1)
RECURSIVE EndAfter(_, _, _)
EndAfter(stream, pos, k) == IF k = 0 THEN pos ELSE EndAfter(stream, DeserAt(stream, pos).next, k - 1)

LawRoundTrip(row) == DeserAt(SerRef(row), 1).row = row /\ DeserAt(SerRef(row), 1).next = Len(row) + 2
LawSequence(rows) == LET s == ConcatAll(rows) IN
                     /\ DeserAll(s, 1, Len(rows)) = rows
                     /\ EndAfter(s, 1, Len(rows)) = Len(s) + 1

(* ------------------------------------------------------------------ the documented RowSerde encoding (F1) *)
ZeroWidthDisc == {"NULL", "ZERO", "NAN", "POS_INFINITY", "NEG_INFINITY"}
Enc(i) ==
  CASE i.v = "Null"  -> [disc |-> "NULL", w |-> 0, pay |-> i]
    [] i.v = "Int"   -> IF i.c = "zero" THEN [disc |-> "ZERO", w |-> 0, pay |-> i]
                        ELSE IF i.c \in {"neg1", "min"} THEN [disc |-> "NEG_INT", w |-> 8, pay |-> i]
                        ELSE [disc |-> "POS_INT", w |-> 8, pay |-> i]
    [] i.v = "Float" -> CASE i.c = "nan" -> [disc |-> "NAN", w |-> 0, pay |-> i]
                          [] i.c = "inf" -> [disc |-> "POS_INFINITY", w |-> 0, pay |-> i]
                          [] i.c = "neginf" -> [disc |-> "NEG_INFINITY", w |-> 0, pay |-> i]
                          [] i.c \in {"zero", "negzero"} -> [disc |-> "ZERO", w |-> 0, pay |-> i]     \* f == 0.0 holds for -0.0 too
                          [] i.c = "negfrac" -> [disc |-> "NEG_FLOAT", w |-> 8, pay |-> i]
                          [] OTHER -> [disc |-> "POS_FLOAT", w |-> 8, pay |-> i]
    [] i.v \in VarSized -> [disc |-> i.v, w |-> 4 + i.n, pay |-> i]
    [] i.v = "Vector"   -> [disc |-> "VECTOR", w |-> 4 + 4 * i.n, pay |-> i]
    [] i.v \in {"Uuid", "Inet6", "Interval", "Point"} -> [disc |-> i.v, w |-> 16, pay |-> i]
    [] i.v = "MacAddr"  -> [disc |-> i.v, w |-> 6, pay |-> i]
    [] i.v \in {"Inet4", "Enum"} -> [disc |-> i.v, w |-> 4, pay |-> i]
    [] i.v = "TimestampTz" -> [disc |-> i.v, w |-> 12, pay |-> i]
    [] i.v = "GeoBox"   -> [disc |-> i.v, w |-> 32, pay |-> i]
    [] i.v = "Circle"   -> [disc |-> i.v, w |-> 24, pay |-> i]
    [] i.v = "Decimal"  -> [disc |-> i.v, w |-> 18, pay |-> i]
(* a decoder sees the discriminant and, when the width is not zero, the payload *)
Dec(e) ==
  CASE e.disc = "ZERO"         -> It("Int", "zero", 0)           \* "0x14 = ZERO (no data, deserializes to Int(0))"
    [] e.disc = "NAN"          -> It("Float", "nan", 0)
    [] e.disc = "POS_INFINITY" -> It("Float", "inf", 0)
    [] e.disc = "NEG_INFINITY" -> It("Float", "neginf", 0)
    [] e.disc = "NULL"         -> It("Null", "null", 0)
    [] OTHER -> e.pay
DocRoundTrip(i) == Dec(Enc(i))
DocLossy == {i \in ItemsF1 : DocRoundTrip(i) # i}

(* the documented size function (RowSerde::value_size), written per variant as the source does *)
SizeOf(i) ==
  CASE i.v = "Null" -> 1
    [] i.v = "Int" -> IF i.c = "zero" THEN 1 ELSE 9
    [] i.v = "Float" -> IF i.c \in {"nan", "inf", "neginf", "zero", "negzero"} THEN 1 ELSE 9
    [] i.v \in VarSized -> 1 + 4 + i.n
    [] i.v = "Vector" -> 1 + 4 + i.n * 4
    [] i.v = "Uuid" -> 17 [] i.v = "MacAddr" -> 7 [] i.v = "Inet4" -> 5 [] i.v = "Inet6" -> 17
    [] i.v = "TimestampTz" -> 13 [] i.v = "Interval" -> 17 [] i.v = "Point" -> 17 [] i.v = "GeoBox" -> 33
    [] i.v = "Circle" -> 25 [] i.v = "Enum" -> 5 [] i.v = "Decimal" -> 19
RECURSIVE SumSizes(_, _)
SumSizes(row, j) == IF j = 0 THEN 0 ELSE SumSizes(row, j - 1) + SizeOf(row[j])
RowSize(row)  == 2 + SumSizes(row, Len(row))
RECURSIVE SumEnc(_, _)
SumEnc(row, j) == IF j = 0 THEN 0 ELSE SumEnc(row, j - 1) + 1 + Enc(row[j]).w
BytesOfSer(row) == 2 + SumEnc(row, Len(row))
LawSize(row) == RowSize(row) = BytesOfSer(row)

(* ------------------------------------------------------------------ generator *)
(* representatives: one or two classes per variant (for pairs and wide rows) *)
RepsCommon == {It("Null", "null", 0), It("Int", "zero", 0), It("Int", "min", 0), It("Int", "max", 0), It("Float", "zero", 0),
               It("Float", "negfrac", 0), It("Float", "nan", 0), It("Text", "e0", 0), It("Text", "utf8", 130), It("Blob", "e0", 0),
               It("Blob", "toast17", 17), It("Vector", "d0", 0), It("Vector", "d9", 9), It("Uuid", "pattern", 0), It("MacAddr", "pattern", 0),
               It("Inet4", "pattern", 0), It("Inet6", "ones", 0), It("TimestampTz", "minminus", 0), It("Interval", "mixed", 0),
               It("Point", "mixed", 0), It("GeoBox", "extreme", 0), It("Circle", "mixed", 0), It("Enum", "extreme", 0), It("Jsonb", "jobj", 37),
               It("Decimal", "dmin", 0), It("ToastPointer", "tp17", 17)}
RepsOwned == RepsCommon \cup {It("Bool", "true", 0), It("Bool", "false", 0), It("Date", "min", 0), It("Time", "max", 0), It("Timestamp", "min", 0)}
Reps(u) == IF u = "F1" THEN RepsCommon ELSE RepsOwned
Items(u) == IF u = "F1" THEN ItemsF1 ELSE ItemsF2

(* a fixed order of the representatives, to build wide rows *)
RECURSIVE SetToSeq(_)
SetToSeq(S) == IF S = {} THEN <<>> ELSE LET x == CHOOSE y \in S : TRUE IN <<x>> \o SetToSeq(S \ {x})
Cycle(seq, n) == [i \in 1..n |-> seq[((i - 1) % Len(seq)) + 1]]
Reverse(seq) == [i \in 1..Len(seq) |-> seq[Len(seq) + 1 - i]]

Widths == {0, 1, 15, 16, 17, 255, 256, 300}      \* 16 = inline capacity of the SmallVec rows are decoded into
SingleRows(u) == {<<i>> : i \in Items(u)}
PairRows(u)   == {<<a, b>> : a \in Reps(u), b \in Reps(u)}
WideRows(u)   == LET all == SetToSeq(Reps(u)) IN {all, Reverse(all)} \cup {Cycle(all, n) : n \in Widths} \cup {Cycle(Reverse(all), n) : n \in Widths}

(* row sequences sharing one buffer: every sequence of 1..3 rows over a small pool that contains the empty row,
   a row of zero-width items only, variable-size items, and a wide row *)
Pool(u) == LET all == SetToSeq(Reps(u)) IN
           << <<>>, <<It("Null", "null", 0)>>, <<It("Int", "zero", 0), It("Float", "nan", 0)>>, <<It("Int", "max", 0)>>,
              <<It("Text", "utf8", 130), It("Blob", "e0", 0)>>, <<It("Text", "e0", 0)>>, <<It("Vector", "d9", 9), It("Int", "neg1", 0)>>,
              Cycle(all, 17), <<It("Float", "zero", 0)>>, <<It("Text", "e16384", 16384), It("Decimal", "dmax", 0)>> >>
SeqsOver(u, maxlen) == UNION {[1..m -> 1..Len(Pool(u))] : m \in 1..maxlen}

DescribeRow(u, grp, row) ==
  [u |-> u, grp |-> grp, row |-> row, size |-> IF u = "F1" THEN RowSize(row) ELSE 0,
   doc |-> IF u = "F1" THEN [i \in 1..Len(row) |-> DocRoundTrip(row[i])] ELSE row]
DescribeSeq(u, idxs) ==
  LET rows == [j \in 1..Len(idxs) |-> Pool(u)[idxs[j]]] IN
  [u |-> u, grp |-> "seq", rows |-> rows, sizes |-> IF u = "F1" THEN [j \in 1..Len(rows) |-> RowSize(rows[j])] ELSE <<>>]
=============================================================================

---------------------------- MODULE Varint_proofs ----------------------------
(***************************************************************************)
(* C27 - TLAPS proofs about TurDB's varint (src/encoding/varint.rs).       *)
(*                                                                         *)
(* Part 1 restates varint_len / encode_varint / decode_varint over         *)
(* unbounded naturals (NLenOf, NEnc, NDec): this is the form in which the  *)
(* property reads naturally ("for every u64 v ...") and TLAPS integers are *)
(* unbounded.                                                              *)
(* Part 2 proves the property for ALL 2^64 values / ALL byte strings:      *)
(*      RoundTrip     NDec(NEnc(v)) = Ok(v, NLenOf(v))                      *)
(*      CanonicalLen  Len(NEnc(v)) = NLenOf(v), every element a byte        *)
(*      DecTotal      NDec(b) is an error or a u64 with 1 <= n <= Len(b)    *)
(*      DecPrefix     NDec(b) depends only on the n bytes it consumes       *)
(* Part 3 ties the digit form of spec/Varint.tla (what TLC evaluates for   *)
(* the conformance vectors) to the natural-number form:                    *)
(*      EncRefines    Enc(d) = NEnc(Val(d)), LenOf(d) = NLenOf(Val(d))      *)
(*      DecRefines    Dec(b) and NDec(b) fail alike / Val(Dec(b).val) =     *)
(*                    NDec(b).val with the same consumed length            *)
(*      ValInjective  distinct digit tuples are distinct numbers           *)
(*      DigitRoundTrip   Dec(Enc(d)) = Ok(d, LenOf(d))  for all d \in U64   *)
(* Checked by `tlapm --threads 8 Varint_proofs.tla` (lib/checks/c27.py).   *)
(***************************************************************************)
EXTENDS Varint, TLAPS

(* The u64 range.  tlapm reads numerals into 63-bit machine integers, so 2^64 - 1 cannot be written   *)
(* as a literal; "v < 2^64" is stated as "v \div 2^32 < 2^32", which is the same set of naturals.      *)
NU64   == {v \in Nat : v \div 4294967296 <= 4294967295}
Val(d) == d[1] * 281474976710656 + d[2] * 4294967296 + d[3] * 65536 + d[4]

(* ---------------------------------------------------------------- Part 1 *)
NLenOf(v) ==
  IF      v <= 240        THEN 1
  ELSE IF v <= 2287       THEN 2
  ELSE IF v <= 67823      THEN 3
  ELSE IF v <= 16777215   THEN 4
  ELSE IF v <= 4294967295 THEN 5
  ELSE 9

(* `x as u8` is x % 256, `x >> k` is x \div 2^k *)
NEnc(v) ==
  IF v <= 240 THEN << v >>
  ELSE IF v <= 2287 THEN
       LET w == v - 240 IN << ((w \div 256) + 241) % 256, w % 256 >>
  ELSE IF v <= 67823 THEN
       LET w == v - 2288 IN << 249, (w \div 256) % 256, w % 256 >>
  ELSE IF v <= 16777215 THEN
       << 250, (v \div 65536) % 256, (v \div 256) % 256, v % 256 >>
  ELSE IF v <= 4294967295 THEN
       << 251, (v \div 16777216) % 256, (v \div 65536) % 256, (v \div 256) % 256, v % 256 >>
  ELSE << 255, (v \div 72057594037927936) % 256, (v \div 281474976710656) % 256,
               (v \div 1099511627776) % 256,     (v \div 4294967296) % 256,
               (v \div 16777216) % 256,          (v \div 65536) % 256,
               (v \div 256) % 256,               v % 256 >>

NOk(v, n) == [ok |-> TRUE, val |-> v, n |-> n]

NDec(b) ==
  IF Len(b) = 0 THEN ErrEmpty
  ELSE LET f == b[1] IN
    IF f <= 240 THEN NOk(f, 1)
    ELSE IF f <= 248 THEN
         IF Len(b) < 2 THEN ErrTrunc(2)
         ELSE NOk(240 + (f - 241) * 256 + b[2], 2)
    ELSE IF f = 249 THEN
         IF Len(b) < 3 THEN ErrTrunc(3)
         ELSE NOk(2288 + b[2] * 256 + b[3], 3)
    ELSE IF f = 250 THEN
         IF Len(b) < 4 THEN ErrTrunc(4)
         ELSE NOk(b[2] * 65536 + b[3] * 256 + b[4], 4)
    ELSE IF f = 251 THEN
         IF Len(b) < 5 THEN ErrTrunc(5)
         ELSE NOk(b[2] * 16777216 + b[3] * 65536 + b[4] * 256 + b[5], 5)
    ELSE IF f = 255 THEN
         IF Len(b) < 9 THEN ErrTrunc(9)
         ELSE NOk(b[2] * 72057594037927936 + b[3] * 281474976710656 + b[4] * 1099511627776
                  + b[5] * 4294967296 + b[6] * 16777216 + b[7] * 65536 + b[8] * 256 + b[9], 9)
    ELSE ErrMarker(f)

(* ---------------------------------------------------------------- Part 2 *)
(* Arithmetic facts.  Every one is linear integer arithmetic with constant divisors; they are kept  *)
(* small and separate because the SMT back end is given the linear logic UFLIA (--smt-logic UFLIA). *)
LEMMA DD1 == \A v \in Nat : (v \div 256) \div 256 = v \div 65536  BY SMTT(30)
LEMMA DD2 == \A v \in Nat : (v \div 65536) \div 256 = v \div 16777216  BY SMTT(30)
LEMMA DD3 == \A v \in Nat : (v \div 16777216) \div 256 = v \div 4294967296  BY SMTT(30)
LEMMA DD4 == \A v \in Nat : (v \div 4294967296) \div 256 = v \div 1099511627776  BY SMTT(30)
LEMMA DD5 == \A v \in Nat : (v \div 1099511627776) \div 256 = v \div 281474976710656  BY SMTT(30)
LEMMA DD6 == \A v \in Nat : (v \div 281474976710656) \div 256 = v \div 72057594037927936  BY SMTT(30)
LEMMA Step == \A q \in Nat : q = ((q \div 256) * 256) + (q % 256) /\ (q % 256) \in 0..255 /\ (q \div 256) \in Nat
  BY SMTT(30)
LEMMA ModSmall == \A q \in 0..255 : (q % 256) = q
  BY SMTT(30)
LEMMA Top9 == \A q4, q5, q6, q7 \in Nat, r4, r5, r6 \in 0..255 :
    (q4 <= 4294967295 /\ q4 = (q5 * 256) + r4 /\ q5 = (q6 * 256) + r5 /\ q6 = (q7 * 256) + r6) => q7 <= 255
  BY SMTT(30)
LEMMA Chain9 == \A v, q1, q2, q3, q4, q5, q6, q7 \in Nat, r0, r1, r2, r3, r4, r5, r6 \in 0..255 :
    (/\ v = (q1 * 256) + r0 /\ q1 = (q2 * 256) + r1 /\ q2 = (q3 * 256) + r2 /\ q3 = (q4 * 256) + r3
     /\ q4 = (q5 * 256) + r4 /\ q5 = (q6 * 256) + r5 /\ q6 = (q7 * 256) + r6)
    => q7 * 72057594037927936 + r6 * 281474976710656 + r5 * 1099511627776 + r4 * 4294967296
       + r3 * 16777216 + r2 * 65536 + r1 * 256 + r0 = v
  BY SMTT(30)
LEMMA Chain5 == \A v, q1, q2, q3 \in Nat, r0, r1, r2 \in 0..255 :
    (v = (q1 * 256) + r0 /\ q1 = (q2 * 256) + r1 /\ q2 = (q3 * 256) + r2)
    => q3 * 16777216 + r2 * 65536 + r1 * 256 + r0 = v
  BY SMTT(30)
LEMMA Top5 == \A v, q1, q2, q3 \in Nat, r0, r1, r2 \in 0..255 :
    (v = (q1 * 256) + r0 /\ q1 = (q2 * 256) + r1 /\ q2 = (q3 * 256) + r2 /\ v <= 4294967295) => q3 <= 255
  BY SMTT(30)
LEMMA Top4 == \A v, q1, q2, q3 \in Nat, r0, r1, r2 \in 0..255 :
    (v = (q1 * 256) + r0 /\ q1 = (q2 * 256) + r1 /\ q2 = (q3 * 256) + r2 /\ v <= 16777215) => q3 <= 0
  BY SMTT(30)
LEMMA Top3 == \A v, q1, q2 \in Nat, r0, r1 \in 0..255 :
    (v = (q1 * 256) + r0 /\ q1 = (q2 * 256) + r1 /\ v <= 65535) => q2 <= 0
  BY SMTT(30)

(* the eight bytes of the 9-byte form are the base-256 digits of v *)
LEMMA Bytes9 == \A v \in NU64 :
   /\ ((v \div 72057594037927936) % 256) * 72057594037927936 + ((v \div 281474976710656) % 256) * 281474976710656
      + ((v \div 1099511627776) % 256) * 1099511627776 + ((v \div 4294967296) % 256) * 4294967296
      + ((v \div 16777216) % 256) * 16777216 + ((v \div 65536) % 256) * 65536 + ((v \div 256) % 256) * 256 + (v % 256) = v
   /\ ((v \div 72057594037927936) % 256) \in Byte /\ ((v \div 281474976710656) % 256) \in Byte
   /\ ((v \div 1099511627776) % 256) \in Byte /\ ((v \div 4294967296) % 256) \in Byte
   /\ ((v \div 16777216) % 256) \in Byte /\ ((v \div 65536) % 256) \in Byte
   /\ ((v \div 256) % 256) \in Byte /\ (v % 256) \in Byte
<1> TAKE v \in NU64
<1> DEFINE q1 == v \div 256
<1> DEFINE q2 == v \div 65536
<1> DEFINE q3 == v \div 16777216
<1> DEFINE q4 == v \div 4294967296
<1> DEFINE q5 == v \div 1099511627776
<1> DEFINE q6 == v \div 281474976710656
<1> DEFINE q7 == v \div 72057594037927936
<1>0. v \in Nat /\ q4 <= 4294967295 BY DEF NU64
<1>1. q1 \in Nat /\ v = (q1 * 256) + (v % 256) /\ (v % 256) \in 0..255 BY <1>0, Step
<1>2. q2 \in Nat /\ q1 = (q2 * 256) + (q1 % 256) /\ (q1 % 256) \in 0..255 BY <1>0, <1>1, Step, DD1
<1>3. q3 \in Nat /\ q2 = (q3 * 256) + (q2 % 256) /\ (q2 % 256) \in 0..255 BY <1>0, <1>2, Step, DD2
<1>4. q4 \in Nat /\ q3 = (q4 * 256) + (q3 % 256) /\ (q3 % 256) \in 0..255 BY <1>0, <1>3, Step, DD3
<1>5. q5 \in Nat /\ q4 = (q5 * 256) + (q4 % 256) /\ (q4 % 256) \in 0..255 BY <1>0, <1>4, Step, DD4
<1>6. q6 \in Nat /\ q5 = (q6 * 256) + (q5 % 256) /\ (q5 % 256) \in 0..255 BY <1>0, <1>5, Step, DD5
<1>7. q7 \in Nat /\ q6 = (q7 * 256) + (q6 % 256) /\ (q6 % 256) \in 0..255 BY <1>0, <1>6, Step, DD6
<1>8. q7 <= 255 /\ (q7 % 256) = q7
  <2> HIDE DEF q1, q2, q3, q4, q5, q6, q7
  <2>1. q7 <= 255 BY <1>0, <1>4, <1>5, <1>6, <1>7, Top9, SMTT(30)
  <2> QED BY <2>1, <1>7, ModSmall, SMTT(30)
<1> HIDE DEF q1, q2, q3, q4, q5, q6, q7
<1>9. (q7 % 256) * 72057594037927936 + (q6 % 256) * 281474976710656 + (q5 % 256) * 1099511627776
      + (q4 % 256) * 4294967296 + (q3 % 256) * 16777216 + (q2 % 256) * 65536 + (q1 % 256) * 256 + (v % 256) = v
  BY <1>0, <1>1, <1>2, <1>3, <1>4, <1>5, <1>6, <1>7, <1>8, Chain9, SMTT(30)
<1>10. (q7 % 256) \in Byte /\ (q6 % 256) \in Byte /\ (q5 % 256) \in Byte /\ (q4 % 256) \in Byte
       /\ (q3 % 256) \in Byte /\ (q2 % 256) \in Byte /\ (q1 % 256) \in Byte /\ (v % 256) \in Byte
  BY <1>1, <1>2, <1>3, <1>4, <1>5, <1>6, <1>7, <1>8, SMTT(30) DEF Byte
<1> QED BY <1>9, <1>10 DEF q1, q2, q3, q4, q5, q6, q7

(* the four low bytes; for v < 2^32 they are all of v, for v < 2^24 the top one is 0 *)
LEMMA Bytes5 == \A v \in Nat :
   /\ ((v \div 16777216) % 256) \in Byte /\ ((v \div 65536) % 256) \in Byte
   /\ ((v \div 256) % 256) \in Byte /\ (v % 256) \in Byte
   /\ v <= 4294967295 =>
        ((v \div 16777216) % 256) * 16777216 + ((v \div 65536) % 256) * 65536 + ((v \div 256) % 256) * 256 + (v % 256) = v
   /\ v <= 16777215 => ((v \div 65536) % 256) * 65536 + ((v \div 256) % 256) * 256 + (v % 256) = v
   /\ v <= 65535 => ((v \div 256) % 256) * 256 + (v % 256) = v
<1> TAKE v \in Nat
<1> DEFINE q1 == v \div 256
<1> DEFINE q2 == v \div 65536
<1> DEFINE q3 == v \div 16777216
<1>1. q1 \in Nat /\ v = (q1 * 256) + (v % 256) /\ (v % 256) \in 0..255 BY Step, SMTT(30)
<1>2. q2 \in Nat /\ q1 = (q2 * 256) + (q1 % 256) /\ (q1 % 256) \in 0..255 BY <1>1, Step, DD1
<1>3. q3 \in Nat /\ q2 = (q3 * 256) + (q2 % 256) /\ (q2 % 256) \in 0..255 BY <1>2, Step, DD2
<1>4. (q3 % 256) \in 0..255 BY <1>3, Step
<1> HIDE DEF q1, q2, q3
<1>5. q3 * 16777216 + (q2 % 256) * 65536 + (q1 % 256) * 256 + (v % 256) = v
  BY <1>1, <1>2, <1>3, Chain5, SMTT(30)
<1>5a. v <= 4294967295 => q3 <= 255 BY <1>1, <1>2, <1>3, Top5, SMTT(30)
<1>5b. v <= 16777215 => q3 <= 0 BY <1>1, <1>2, <1>3, Top4, SMTT(30)
<1>5c. v <= 65535 => q2 <= 0 BY <1>1, <1>2, Top3, SMTT(30)
<1>6. v <= 4294967295 => (q3 % 256) = q3 BY <1>3, <1>5a, ModSmall, SMTT(30)
<1>7. v <= 16777215 => (q3 % 256) <= 0 BY <1>3, <1>5b, <1>6, SMTT(30)
<1>8. v <= 65535 => (q2 % 256) <= 0 BY <1>2, <1>5c, ModSmall, SMTT(30)
<1>9a. (q3 % 256) \in Byte /\ (q2 % 256) \in Byte /\ (q1 % 256) \in Byte /\ (v % 256) \in Byte
  BY <1>1, <1>2, <1>3, <1>4, SMTT(30) DEF Byte
<1>9b. v <= 4294967295 => (q3 % 256) * 16777216 + (q2 % 256) * 65536 + (q1 % 256) * 256 + (v % 256) = v
  BY <1>5, <1>6, SMTT(30)
<1>9c. v <= 16777215 => (q2 % 256) * 65536 + (q1 % 256) * 256 + (v % 256) = v
  BY <1>3, <1>5, <1>5b, SMTT(30)
<1>9d. v <= 65535 => (q1 % 256) * 256 + (v % 256) = v
  BY <1>1, <1>2, <1>5c, SMTT(30)
<1> QED BY <1>9a, <1>9b, <1>9c, <1>9d DEF q1, q2, q3

(* ------------------------------------------------------------------------------------------------ *)
(* what the encoder writes, case by case *)
LEMMA Enc1 == \A v \in Nat : v <= 240 => NEnc(v) = <<v>>
  BY SMTT(60) DEF NEnc
LEMMA Enc2 == \A v \in Nat : (v > 240 /\ v <= 2287) =>
                 NEnc(v) = << (((v - 240) \div 256) + 241) % 256, (v - 240) % 256 >>
  BY SMTT(60) DEF NEnc
LEMMA Enc3 == \A v \in Nat : (v > 2287 /\ v <= 67823) =>
                 NEnc(v) = << 249, ((v - 2288) \div 256) % 256, (v - 2288) % 256 >>
  BY SMTT(60) DEF NEnc
LEMMA Enc4 == \A v \in Nat : (v > 67823 /\ v <= 16777215) =>
                 NEnc(v) = << 250, (v \div 65536) % 256, (v \div 256) % 256, v % 256 >>
  BY SMTT(60) DEF NEnc
LEMMA Enc5 == \A v \in Nat : (v > 16777215 /\ v <= 4294967295) =>
                 NEnc(v) = << 251, (v \div 16777216) % 256, (v \div 65536) % 256, (v \div 256) % 256, v % 256 >>
  BY SMTT(60) DEF NEnc
LEMMA Enc9 == \A v \in Nat : v > 4294967295 =>
                 NEnc(v) = << 255, (v \div 72057594037927936) % 256, (v \div 281474976710656) % 256,
                              (v \div 1099511627776) % 256,     (v \div 4294967296) % 256,
                              (v \div 16777216) % 256,          (v \div 65536) % 256,
                              (v \div 256) % 256,               v % 256 >>
  BY SMTT(60) DEF NEnc

(* what the decoder returns, by length and marker *)
LEMMA DecE == \A b \in Seq(Byte) : Len(b) = 0 => NDec(b) = ErrEmpty
  BY SMTT(60) DEF NDec, Byte
LEMMA Dec1 == \A b \in Seq(Byte) : (Len(b) >= 1 /\ b[1] <= 240) => NDec(b) = NOk(b[1], 1)
  BY SMTT(60) DEF NDec, Byte
LEMMA Dec2 == \A b \in Seq(Byte) : (Len(b) >= 1 /\ b[1] >= 241 /\ b[1] <= 248) =>
                 NDec(b) = IF Len(b) < 2 THEN ErrTrunc(2) ELSE NOk(240 + (b[1] - 241) * 256 + b[2], 2)
  BY SMTT(60) DEF NDec, Byte
LEMMA Dec3 == \A b \in Seq(Byte) : (Len(b) >= 1 /\ b[1] = 249) =>
                 NDec(b) = IF Len(b) < 3 THEN ErrTrunc(3) ELSE NOk(2288 + b[2] * 256 + b[3], 3)
  BY SMTT(60) DEF NDec, Byte
LEMMA Dec4 == \A b \in Seq(Byte) : (Len(b) >= 1 /\ b[1] = 250) =>
                 NDec(b) = IF Len(b) < 4 THEN ErrTrunc(4) ELSE NOk(b[2] * 65536 + b[3] * 256 + b[4], 4)
  BY SMTT(60) DEF NDec, Byte
LEMMA Dec5 == \A b \in Seq(Byte) : (Len(b) >= 1 /\ b[1] = 251) =>
                 NDec(b) = IF Len(b) < 5 THEN ErrTrunc(5)
                           ELSE NOk(b[2] * 16777216 + b[3] * 65536 + b[4] * 256 + b[5], 5)
  BY SMTT(60) DEF NDec, Byte
LEMMA Dec9 == \A b \in Seq(Byte) : (Len(b) >= 1 /\ b[1] = 255) =>
                 NDec(b) = IF Len(b) < 9 THEN ErrTrunc(9)
                           ELSE NOk(b[2] * 72057594037927936 + b[3] * 281474976710656 + b[4] * 1099511627776
                                    + b[5] * 4294967296 + b[6] * 16777216 + b[7] * 65536 + b[8] * 256 + b[9], 9)
  BY SMTT(60) DEF NDec, Byte
LEMMA DecM == \A b \in Seq(Byte) : (Len(b) >= 1 /\ b[1] >= 252 /\ b[1] <= 254) => NDec(b) = ErrMarker(b[1])
  BY SMTT(60) DEF NDec, Byte

(* ------------------------------------------------------------------------------------------------ *)
(* round trip, one lemma per encoding case                                                           *)
RTAt(v, k) == /\ NDec(NEnc(v)) = NOk(v, k) /\ NLenOf(v) = k /\ Len(NEnc(v)) = k /\ NEnc(v) \in Seq(Byte)

LEMMA RT1 == \A v \in Nat : v <= 240 => RTAt(v, 1)
<1> TAKE v \in Nat
<1> HAVE v <= 240
<1>1. NEnc(v) = <<v>> BY Enc1, SMTT(30)
<1>2. <<v>> \in Seq(Byte) /\ Len(<<v>>) = 1 /\ <<v>>[1] = v BY SMTT(30) DEF Byte
<1>3. NDec(<<v>>) = NOk(v, 1) BY <1>2, Dec1, SMTT(30)
<1>4. NLenOf(v) = 1 BY SMTT(30) DEF NLenOf
<1> QED BY <1>1, <1>2, <1>3, <1>4, SMTT(30) DEF RTAt

LEMMA Arith2 == \A v \in Nat : (v > 240 /\ v <= 2287) =>
                   /\ ((((v - 240) \div 256) + 241) % 256) \in 241..248
                   /\ ((v - 240) % 256) \in 0..255
                   /\ 240 + (((((v - 240) \div 256) + 241) % 256) - 241) * 256 + ((v - 240) % 256) = v
<1> TAKE v \in Nat
<1> HAVE v > 240 /\ v <= 2287
<1> DEFINE w == v - 240
<1> DEFINE q == w \div 256
<1>1. w \in Nat /\ w <= 2047 /\ v = w + 240 BY SMTT(30)
<1>2. q \in Nat /\ w = (q * 256) + (w % 256) /\ (w % 256) \in 0..255 BY <1>1, Step, SMTT(30)
<1> HIDE DEF w, q
<1>3. q <= 7 BY <1>1, <1>2, SMTT(30)
<1>4. ((q + 241) % 256) = q + 241
  <2>1. (q + 241) \in 0..255 BY <1>2, <1>3, SMTT(30)
  <2> QED BY <2>1, ModSmall, SMTT(30)
<1>5. /\ ((q + 241) % 256) \in 241..248 /\ (w % 256) \in 0..255
      /\ 240 + (((q + 241) % 256) - 241) * 256 + (w % 256) = v
  BY <1>1, <1>2, <1>3, <1>4, SMTT(30)
<1> QED BY <1>5, SMTT(30) DEF w, q

LEMMA RT2 == \A v \in Nat : (v > 240 /\ v <= 2287) => RTAt(v, 2)
<1> TAKE v \in Nat
<1> HAVE v > 240 /\ v <= 2287
<1> DEFINE x == (((v - 240) \div 256) + 241) % 256
<1> DEFINE y == (v - 240) % 256
<1>1. NEnc(v) = <<x, y>> BY Enc2, SMTT(30)
<1>2. x \in 241..248 /\ y \in 0..255 /\ 240 + (x - 241) * 256 + y = v BY Arith2, SMTT(30)
<1> HIDE DEF x, y
<1>3. <<x, y>> \in Seq(Byte) /\ Len(<<x, y>>) = 2 /\ <<x, y>>[1] = x /\ <<x, y>>[2] = y
  BY <1>2, SMTT(30) DEF Byte
<1>4. NDec(<<x, y>>) = NOk(240 + (x - 241) * 256 + y, 2) BY <1>2, <1>3, Dec2, SMTT(30)
<1>5. NLenOf(v) = 2 BY SMTT(30) DEF NLenOf
<1> QED BY <1>1, <1>2, <1>3, <1>4, <1>5, SMTT(30) DEF RTAt

LEMMA RT3 == \A v \in Nat : (v > 2287 /\ v <= 67823) => RTAt(v, 3)
<1> TAKE v \in Nat
<1> HAVE v > 2287 /\ v <= 67823
<1> DEFINE w == v - 2288
<1> DEFINE x == (w \div 256) % 256
<1> DEFINE y == w % 256
<1>0. w \in Nat /\ w <= 65535 /\ v = 2288 + w BY SMTT(30)
<1>1. NEnc(v) = <<249, x, y>> BY Enc3, SMTT(30)
<1>2. x \in Byte /\ y \in Byte /\ (x * 256) + y = w BY <1>0, Bytes5, SMTT(30)
<1> HIDE DEF w, x, y
<1>3. /\ <<249, x, y>> \in Seq(Byte) /\ Len(<<249, x, y>>) = 3 /\ <<249, x, y>>[1] = 249
      /\ <<249, x, y>>[2] = x /\ <<249, x, y>>[3] = y
  BY <1>2, SMTT(30) DEF Byte
<1>4. NDec(<<249, x, y>>) = NOk(2288 + x * 256 + y, 3) BY <1>3, Dec3, SMTT(30)
<1>5. NLenOf(v) = 3 BY SMTT(30) DEF NLenOf
<1>6. 2288 + x * 256 + y = v BY <1>0, <1>2, SMTT(30) DEF Byte
<1> QED BY <1>1, <1>3, <1>4, <1>5, <1>6, SMTT(30) DEF RTAt

LEMMA RT4 == \A v \in Nat : (v > 67823 /\ v <= 16777215) => RTAt(v, 4)
<1> TAKE v \in Nat
<1> HAVE v > 67823 /\ v <= 16777215
<1> DEFINE x == (v \div 65536) % 256
<1> DEFINE y == (v \div 256) % 256
<1> DEFINE z == v % 256
<1>1. NEnc(v) = <<250, x, y, z>> BY Enc4, SMTT(30)
<1>2. x \in Byte /\ y \in Byte /\ z \in Byte /\ (x * 65536) + (y * 256) + z = v BY Bytes5, SMTT(30)
<1> HIDE DEF x, y, z
<1>3. /\ <<250, x, y, z>> \in Seq(Byte) /\ Len(<<250, x, y, z>>) = 4 /\ <<250, x, y, z>>[1] = 250
      /\ <<250, x, y, z>>[2] = x /\ <<250, x, y, z>>[3] = y /\ <<250, x, y, z>>[4] = z
  BY <1>2, SMTT(30) DEF Byte
<1>4. NDec(<<250, x, y, z>>) = NOk(x * 65536 + y * 256 + z, 4) BY <1>3, Dec4, SMTT(30)
<1>5. NLenOf(v) = 4 BY SMTT(30) DEF NLenOf
<1> QED BY <1>1, <1>2, <1>3, <1>4, <1>5, SMTT(30) DEF RTAt

LEMMA RT5 == \A v \in Nat : (v > 16777215 /\ v <= 4294967295) => RTAt(v, 5)
<1> TAKE v \in Nat
<1> HAVE v > 16777215 /\ v <= 4294967295
<1> DEFINE x == (v \div 16777216) % 256
<1> DEFINE y == (v \div 65536) % 256
<1> DEFINE z == (v \div 256) % 256
<1> DEFINE u == v % 256
<1>1. NEnc(v) = <<251, x, y, z, u>> BY Enc5, SMTT(30)
<1>2. x \in Byte /\ y \in Byte /\ z \in Byte /\ u \in Byte
      /\ (x * 16777216) + (y * 65536) + (z * 256) + u = v BY Bytes5, SMTT(30)
<1> HIDE DEF x, y, z, u
<1>3. /\ <<251, x, y, z, u>> \in Seq(Byte) /\ Len(<<251, x, y, z, u>>) = 5 /\ <<251, x, y, z, u>>[1] = 251
      /\ <<251, x, y, z, u>>[2] = x /\ <<251, x, y, z, u>>[3] = y /\ <<251, x, y, z, u>>[4] = z
      /\ <<251, x, y, z, u>>[5] = u
  BY <1>2, SMTT(30) DEF Byte
<1>4. NDec(<<251, x, y, z, u>>) = NOk(x * 16777216 + y * 65536 + z * 256 + u, 5) BY <1>3, Dec5, SMTT(30)
<1>5. NLenOf(v) = 5 BY SMTT(30) DEF NLenOf
<1> QED BY <1>1, <1>2, <1>3, <1>4, <1>5, SMTT(30) DEF RTAt

LEMMA RT9 == \A v \in NU64 : v > 4294967295 => RTAt(v, 9)
<1> TAKE v \in NU64
<1> HAVE v > 4294967295
<1> DEFINE x1 == (v \div 72057594037927936) % 256
<1> DEFINE x2 == (v \div 281474976710656) % 256
<1> DEFINE x3 == (v \div 1099511627776) % 256
<1> DEFINE x4 == (v \div 4294967296) % 256
<1> DEFINE x5 == (v \div 16777216) % 256
<1> DEFINE x6 == (v \div 65536) % 256
<1> DEFINE x7 == (v \div 256) % 256
<1> DEFINE x8 == v % 256
<1> DEFINE e == <<255, x1, x2, x3, x4, x5, x6, x7, x8>>
<1>0. v \in Nat BY SMTT(30) DEF NU64
<1>1. NEnc(v) = e BY <1>0, Enc9, SMTT(30)
<1>2. /\ x1 \in Byte /\ x2 \in Byte /\ x3 \in Byte /\ x4 \in Byte /\ x5 \in Byte /\ x6 \in Byte /\ x7 \in Byte /\ x8 \in Byte
      /\ x1 * 72057594037927936 + x2 * 281474976710656 + x3 * 1099511627776 + x4 * 4294967296
         + x5 * 16777216 + x6 * 65536 + x7 * 256 + x8 = v
  BY Bytes9, SMTT(30)
<1> HIDE DEF x1, x2, x3, x4, x5, x6, x7, x8
<1>3a. Len(e) = 9 /\ e[1] = 255 /\ e[2] = x1 /\ e[3] = x2 /\ e[4] = x3 BY SMTT(30)
<1>3b. e[5] = x4 /\ e[6] = x5 /\ e[7] = x6 /\ e[8] = x7 /\ e[9] = x8 BY SMTT(30)
<1>3c. e \in Seq(Byte)
  <2>1. 255 \in Byte BY SMTT(30) DEF Byte
  <2> QED BY <2>1, <1>2, SMTT(30)
<1>3. /\ e \in Seq(Byte) /\ Len(e) = 9 /\ e[1] = 255 /\ e[2] = x1 /\ e[3] = x2 /\ e[4] = x3 /\ e[5] = x4
      /\ e[6] = x5 /\ e[7] = x6 /\ e[8] = x7 /\ e[9] = x8
  BY <1>3a, <1>3b, <1>3c, SMTT(30)
<1> HIDE DEF e
<1>4. NDec(e) = NOk(x1 * 72057594037927936 + x2 * 281474976710656 + x3 * 1099511627776 + x4 * 4294967296
                    + x5 * 16777216 + x6 * 65536 + x7 * 256 + x8, 9)
  BY <1>3, Dec9, SMTT(30)
<1>5. NLenOf(v) = 9 BY <1>0, SMTT(30) DEF NLenOf
<1> QED BY <1>1, <1>2, <1>3, <1>4, <1>5, SMTT(30) DEF RTAt

LEMMA RTAll == \A v \in NU64 : RTAt(v, NLenOf(v))
<1> TAKE v \in NU64
<1>0. v \in Nat BY SMTT(30) DEF NU64
<1>1. \/ v <= 240 \/ (v > 240 /\ v <= 2287) \/ (v > 2287 /\ v <= 67823) \/ (v > 67823 /\ v <= 16777215)
      \/ (v > 16777215 /\ v <= 4294967295) \/ v > 4294967295
  BY <1>0, SMTT(30)
<1>2. \E k \in {1, 2, 3, 4, 5, 9} : RTAt(v, k) BY <1>0, <1>1, RT1, RT2, RT3, RT4, RT5, RT9, SMTT(30)
<1> QED BY <1>2, SMTT(30) DEF RTAt

(* ---- C27, first sentence: decoding an encoding returns the value and consumes varint_len(v) bytes *)
THEOREM RoundTrip == \A v \in NU64 : NDec(NEnc(v)) = NOk(v, NLenOf(v))
  BY RTAll, SMTT(30) DEF RTAt

THEOREM CanonicalLen == \A v \in NU64 : /\ Len(NEnc(v)) = NLenOf(v)
                                        /\ NEnc(v) \in Seq(Byte)
                                        /\ NLenOf(v) \in {1, 2, 3, 4, 5, 9}
<1> TAKE v \in NU64
<1>1. NLenOf(v) \in {1, 2, 3, 4, 5, 9} BY SMTT(30) DEF NLenOf, NU64
<1> QED BY <1>1, RTAll, SMTT(30) DEF RTAt

(* ---- C27, second sentence: every byte string decodes to an error or to a u64, consuming at most    *)
(* ---- Len(b) bytes (and never more than 9)                                                           *)
DecResultOK(b, r) ==
  \/ r = ErrEmpty /\ Len(b) = 0
  \/ \E k \in {2, 3, 4, 5, 9} : r = ErrTrunc(k) /\ Len(b) < k /\ Len(b) >= 1
  \/ \E f \in 252..254 : r = ErrMarker(f) /\ Len(b) >= 1 /\ b[1] = f
  \/ \E v \in NU64, n \in {1, 2, 3, 4, 5, 9} : r = NOk(v, n) /\ n <= Len(b)

LEMMA SmallInU64 == \A v \in Nat : v <= 4294967295 => v \in NU64
  BY SMTT(30) DEF NU64

THEOREM DecTotal == \A b \in Seq(Byte) : DecResultOK(b, NDec(b))
<1> TAKE b \in Seq(Byte)
<1>0. Len(b) \in Nat /\ \A i \in 1..Len(b) : b[i] \in Byte BY SMTT(30)
<1>1. CASE Len(b) = 0
  BY <1>1, DecE, SMTT(30) DEF DecResultOK
<1>2. CASE Len(b) >= 1 /\ b[1] <= 240
  <2>1. NDec(b) = NOk(b[1], 1) BY <1>2, Dec1, SMTT(30)
  <2>2. b[1] \in NU64 BY <1>0, <1>2, SmallInU64, SMTT(30) DEF Byte
  <2> QED BY <1>2, <2>1, <2>2, SMTT(30) DEF DecResultOK
<1>3. CASE Len(b) >= 1 /\ b[1] >= 241 /\ b[1] <= 248
  <2>1. CASE Len(b) < 2
    <3>1. NDec(b) = ErrTrunc(2) BY <1>3, <2>1, Dec2, SMTT(30)
    <3> QED BY <3>1, <1>3, <2>1, SMTT(30) DEF DecResultOK
  <2>2. CASE Len(b) >= 2
    <3>1. NDec(b) = NOk(240 + (b[1] - 241) * 256 + b[2], 2) BY <1>0, <1>3, <2>2, Dec2, SMTT(30)
    <3>2. (240 + (b[1] - 241) * 256 + b[2]) \in NU64
      <4>1. b[1] \in Byte /\ b[2] \in Byte BY <1>0, <2>2, SMTT(30)
      <4>2. (240 + (b[1] - 241) * 256 + b[2]) \in Nat /\ (240 + (b[1] - 241) * 256 + b[2]) <= 4294967295
        BY <4>1, <1>3, SMTT(30) DEF Byte
      <4> QED BY <4>2, SmallInU64, SMTT(30)
    <3> QED BY <3>1, <3>2, <2>2, SMTT(30) DEF DecResultOK
  <2> QED BY <1>0, <2>1, <2>2, SMTT(30)
<1>4. CASE Len(b) >= 1 /\ b[1] = 249
  <2>1. CASE Len(b) < 3
    <3>1. NDec(b) = ErrTrunc(3) BY <1>4, <2>1, Dec3, SMTT(30)
    <3> QED BY <3>1, <1>4, <2>1, SMTT(30) DEF DecResultOK
  <2>2. CASE Len(b) >= 3
    <3>1. NDec(b) = NOk(2288 + b[2] * 256 + b[3], 3) BY <1>0, <1>4, <2>2, Dec3, SMTT(30)
    <3>2. (2288 + b[2] * 256 + b[3]) \in NU64
      <4>1. b[2] \in Byte /\ b[3] \in Byte BY <1>0, <2>2, SMTT(30)
      <4>2. (2288 + b[2] * 256 + b[3]) \in Nat /\ (2288 + b[2] * 256 + b[3]) <= 4294967295
        BY <4>1, SMTT(30) DEF Byte
      <4> QED BY <4>2, SmallInU64, SMTT(30)
    <3> QED BY <3>1, <3>2, <2>2, SMTT(30) DEF DecResultOK
  <2> QED BY <1>0, <2>1, <2>2, SMTT(30)
<1>5. CASE Len(b) >= 1 /\ b[1] = 250
  <2>1. CASE Len(b) < 4
    <3>1. NDec(b) = ErrTrunc(4) BY <1>5, <2>1, Dec4, SMTT(30)
    <3> QED BY <3>1, <1>5, <2>1, SMTT(30) DEF DecResultOK
  <2>2. CASE Len(b) >= 4
    <3>1. NDec(b) = NOk(b[2] * 65536 + b[3] * 256 + b[4], 4) BY <1>0, <1>5, <2>2, Dec4, SMTT(30)
    <3>2. (b[2] * 65536 + b[3] * 256 + b[4]) \in NU64
      <4>1. b[2] \in Byte /\ b[3] \in Byte /\ b[4] \in Byte BY <1>0, <2>2, SMTT(30)
      <4>2. (b[2] * 65536 + b[3] * 256 + b[4]) \in Nat /\ (b[2] * 65536 + b[3] * 256 + b[4]) <= 4294967295
        BY <4>1, SMTT(30) DEF Byte
      <4> QED BY <4>2, SmallInU64, SMTT(30)
    <3> QED BY <3>1, <3>2, <2>2, SMTT(30) DEF DecResultOK
  <2> QED BY <1>0, <2>1, <2>2, SMTT(30)
<1>6. CASE Len(b) >= 1 /\ b[1] = 251
  <2>1. CASE Len(b) < 5
    <3>1. NDec(b) = ErrTrunc(5) BY <1>6, <2>1, Dec5, SMTT(30)
    <3> QED BY <3>1, <1>6, <2>1, SMTT(30) DEF DecResultOK
  <2>2. CASE Len(b) >= 5
    <3>1. NDec(b) = NOk(b[2] * 16777216 + b[3] * 65536 + b[4] * 256 + b[5], 5) BY <1>0, <1>6, <2>2, Dec5, SMTT(30)
    <3>2. (b[2] * 16777216 + b[3] * 65536 + b[4] * 256 + b[5]) \in NU64
      <4>1. b[2] \in Byte /\ b[3] \in Byte /\ b[4] \in Byte /\ b[5] \in Byte BY <1>0, <2>2, SMTT(30)
      <4>2. /\ (b[2] * 16777216 + b[3] * 65536 + b[4] * 256 + b[5]) \in Nat
            /\ (b[2] * 16777216 + b[3] * 65536 + b[4] * 256 + b[5]) <= 4294967295
        BY <4>1, SMTT(30) DEF Byte
      <4> QED BY <4>2, SmallInU64, SMTT(30)
    <3> QED BY <3>1, <3>2, <2>2, SMTT(30) DEF DecResultOK
  <2> QED BY <1>0, <2>1, <2>2, SMTT(30)
<1>7. CASE Len(b) >= 1 /\ b[1] = 255
  <2>1. CASE Len(b) < 9
    <3>1. NDec(b) = ErrTrunc(9) BY <1>7, <2>1, Dec9, SMTT(30)
    <3> QED BY <3>1, <1>7, <2>1, SMTT(30) DEF DecResultOK
  <2>2. CASE Len(b) >= 9
    <3>1. NDec(b) = NOk(b[2] * 72057594037927936 + b[3] * 281474976710656 + b[4] * 1099511627776
                        + b[5] * 4294967296 + b[6] * 16777216 + b[7] * 65536 + b[8] * 256 + b[9], 9)
      BY <1>0, <1>7, <2>2, Dec9, SMTT(30)
    <3>2. (b[2] * 72057594037927936 + b[3] * 281474976710656 + b[4] * 1099511627776
           + b[5] * 4294967296 + b[6] * 16777216 + b[7] * 65536 + b[8] * 256 + b[9]) \in NU64
      <4>1. b[2] \in Byte /\ b[3] \in Byte /\ b[4] \in Byte /\ b[5] \in Byte /\ b[6] \in Byte
            /\ b[7] \in Byte /\ b[8] \in Byte /\ b[9] \in Byte BY <1>0, <2>2, SMTT(30)
      <4> DEFINE hi == b[2] * 16777216 + b[3] * 65536 + b[4] * 256 + b[5]
      <4> DEFINE lo == b[6] * 16777216 + b[7] * 65536 + b[8] * 256 + b[9]
      <4>2. hi \in 0..4294967295 /\ lo \in 0..4294967295 BY <4>1, SMTT(30) DEF Byte
      <4>3. b[2] * 72057594037927936 + b[3] * 281474976710656 + b[4] * 1099511627776
            + b[5] * 4294967296 + b[6] * 16777216 + b[7] * 65536 + b[8] * 256 + b[9] = (hi * 4294967296) + lo
        BY <4>1, SMTT(30) DEF Byte
      <4> HIDE DEF hi, lo
      <4>4. ((hi * 4294967296) + lo) \in Nat /\ ((hi * 4294967296) + lo) \div 4294967296 = hi
        BY <4>2, SMTT(30)
      <4> QED BY <4>2, <4>3, <4>4, SMTT(30) DEF NU64
    <3> QED BY <3>1, <3>2, <2>2, SMTT(30) DEF DecResultOK
  <2> QED BY <1>0, <2>1, <2>2, SMTT(30)
<1>8. CASE Len(b) >= 1 /\ b[1] >= 252 /\ b[1] <= 254
  <2>1. NDec(b) = ErrMarker(b[1]) BY <1>8, DecM, SMTT(30)
  <2>2. b[1] \in 252..254 BY <1>0, <1>8, SMTT(30) DEF Byte
  <2> QED BY <1>8, <2>1, <2>2, SMTT(30) DEF DecResultOK
<1>9. \/ Len(b) = 0 \/ (Len(b) >= 1 /\ b[1] <= 240) \/ (Len(b) >= 1 /\ b[1] >= 241 /\ b[1] <= 248)
      \/ (Len(b) >= 1 /\ b[1] = 249) \/ (Len(b) >= 1 /\ b[1] = 250) \/ (Len(b) >= 1 /\ b[1] = 251)
      \/ (Len(b) >= 1 /\ b[1] = 255) \/ (Len(b) >= 1 /\ b[1] >= 252 /\ b[1] <= 254)
  <2>1. Len(b) >= 1 => b[1] \in Byte BY <1>0, SMTT(30)
  <2> QED BY <1>0, <2>1, SMTT(30) DEF Byte
<1> QED BY <1>1, <1>2, <1>3, <1>4, <1>5, <1>6, <1>7, <1>8, <1>9, SMTT(30)

(* ---- "without reading past the input": the result depends only on the bytes reported as consumed  *)
LEMMA Fields == /\ \A v, n : NOk(v, n).ok = TRUE /\ NOk(v, n).n = n /\ NOk(v, n).val = v
                /\ ErrEmpty.ok = FALSE
                /\ \A k : ErrTrunc(k).ok = FALSE
                /\ \A f : ErrMarker(f).ok = FALSE
  BY SMTT(30) DEF NOk, ErrEmpty, ErrTrunc, ErrMarker

THEOREM DecPrefix == \A b, c \in Seq(Byte) :
                        (NDec(b).ok /\ Len(c) >= NDec(b).n /\ \A i \in 1..NDec(b).n : c[i] = b[i])
                        => NDec(c) = NDec(b)
<1> TAKE b, c \in Seq(Byte)
<1> HAVE NDec(b).ok /\ Len(c) >= NDec(b).n /\ \A i \in 1..NDec(b).n : c[i] = b[i]
<1>0. Len(b) \in Nat /\ Len(c) \in Nat /\ (Len(b) >= 1 => b[1] \in Byte) BY SMTT(30)
<1>1. CASE Len(b) = 0
  <2>1. NDec(b) = ErrEmpty BY <1>1, DecE, SMTT(30)
  <2> QED BY <2>1, Fields, SMTT(30)
<1>8. CASE Len(b) >= 1 /\ b[1] >= 252 /\ b[1] <= 254
  <2>1. NDec(b) = ErrMarker(b[1]) BY <1>8, DecM, SMTT(30)
  <2> QED BY <2>1, Fields, SMTT(30)
<1>2. CASE Len(b) >= 1 /\ b[1] <= 240
  <2>a. Len(b) >= 1 BY <1>2
  <2>1. NDec(b) = NOk(b[1], 1) BY <1>0, <1>2, <2>a, Dec1, SMTT(30)
  <2>2. NDec(b).n = 1 BY <2>1, Fields, SMTT(30)
  <2>3. Len(c) >= 1 /\ c[1] = b[1] BY <2>2, SMTT(30)
  <2>4. Len(c) >= 1 /\ c[1] <= 240 BY <2>3, <1>2, SMTT(30)
  <2>5. NDec(c) = NOk(c[1], 1) BY <1>0, <2>3, <2>4, Dec1, SMTT(30)
  <2>6. c[1] = b[1] BY <2>3, SMTT(30)
  <2> QED BY <2>1, <2>5, <2>6, SMTT(30)
<1>3. CASE Len(b) >= 1 /\ b[1] >= 241 /\ b[1] <= 248
  <2>a. Len(b) >= 2
    <3>1. CASE Len(b) < 2
      <4>1. NDec(b) = ErrTrunc(2) BY <1>3, <3>1, Dec2, SMTT(30)
      <4> QED BY <4>1, Fields, SMTT(30)
    <3> QED BY <1>0, <3>1, SMTT(30)
  <2>1. NDec(b) = NOk(240 + (b[1] - 241) * 256 + b[2], 2) BY <1>0, <1>3, <2>a, Dec2, SMTT(30)
  <2>2. NDec(b).n = 2 BY <2>1, Fields, SMTT(30)
  <2>3. Len(c) >= 2 /\ c[1] = b[1] /\ c[2] = b[2] BY <2>2, SMTT(30)
  <2>4. Len(c) >= 1 /\ c[1] >= 241 /\ c[1] <= 248 BY <2>3, <1>3, SMTT(30)
  <2>5. NDec(c) = NOk(240 + (c[1] - 241) * 256 + c[2], 2) BY <1>0, <2>3, <2>4, Dec2, SMTT(30)
  <2>6. 240 + (c[1] - 241) * 256 + c[2] = 240 + (b[1] - 241) * 256 + b[2] BY <2>3, SMTT(30)
  <2> QED BY <2>1, <2>5, <2>6, SMTT(30)
<1>4. CASE Len(b) >= 1 /\ b[1] = 249
  <2>a. Len(b) >= 3
    <3>1. CASE Len(b) < 3
      <4>1. NDec(b) = ErrTrunc(3) BY <1>4, <3>1, Dec3, SMTT(30)
      <4> QED BY <4>1, Fields, SMTT(30)
    <3> QED BY <1>0, <3>1, SMTT(30)
  <2>1. NDec(b) = NOk(2288 + b[2] * 256 + b[3], 3) BY <1>0, <1>4, <2>a, Dec3, SMTT(30)
  <2>2. NDec(b).n = 3 BY <2>1, Fields, SMTT(30)
  <2>3. Len(c) >= 3 /\ c[1] = b[1] /\ c[2] = b[2] /\ c[3] = b[3] BY <2>2, SMTT(30)
  <2>4. Len(c) >= 1 /\ c[1] = 249 BY <2>3, <1>4, SMTT(30)
  <2>5. NDec(c) = NOk(2288 + c[2] * 256 + c[3], 3) BY <1>0, <2>3, <2>4, Dec3, SMTT(30)
  <2>6. 2288 + c[2] * 256 + c[3] = 2288 + b[2] * 256 + b[3] BY <2>3, SMTT(30)
  <2> QED BY <2>1, <2>5, <2>6, SMTT(30)
<1>5. CASE Len(b) >= 1 /\ b[1] = 250
  <2>a. Len(b) >= 4
    <3>1. CASE Len(b) < 4
      <4>1. NDec(b) = ErrTrunc(4) BY <1>5, <3>1, Dec4, SMTT(30)
      <4> QED BY <4>1, Fields, SMTT(30)
    <3> QED BY <1>0, <3>1, SMTT(30)
  <2>1. NDec(b) = NOk(b[2] * 65536 + b[3] * 256 + b[4], 4) BY <1>0, <1>5, <2>a, Dec4, SMTT(30)
  <2>2. NDec(b).n = 4 BY <2>1, Fields, SMTT(30)
  <2>3. Len(c) >= 4 /\ c[1] = b[1] /\ c[2] = b[2] /\ c[3] = b[3] /\ c[4] = b[4] BY <2>2, SMTT(30)
  <2>4. Len(c) >= 1 /\ c[1] = 250 BY <2>3, <1>5, SMTT(30)
  <2>5. NDec(c) = NOk(c[2] * 65536 + c[3] * 256 + c[4], 4) BY <1>0, <2>3, <2>4, Dec4, SMTT(30)
  <2>6. c[2] * 65536 + c[3] * 256 + c[4] = b[2] * 65536 + b[3] * 256 + b[4] BY <2>3, SMTT(30)
  <2> QED BY <2>1, <2>5, <2>6, SMTT(30)
<1>6. CASE Len(b) >= 1 /\ b[1] = 251
  <2>a. Len(b) >= 5
    <3>1. CASE Len(b) < 5
      <4>1. NDec(b) = ErrTrunc(5) BY <1>6, <3>1, Dec5, SMTT(30)
      <4> QED BY <4>1, Fields, SMTT(30)
    <3> QED BY <1>0, <3>1, SMTT(30)
  <2>1. NDec(b) = NOk(b[2] * 16777216 + b[3] * 65536 + b[4] * 256 + b[5], 5) BY <1>0, <1>6, <2>a, Dec5, SMTT(30)
  <2>2. NDec(b).n = 5 BY <2>1, Fields, SMTT(30)
  <2>3. Len(c) >= 5 /\ c[1] = b[1] /\ c[2] = b[2] /\ c[3] = b[3] /\ c[4] = b[4] /\ c[5] = b[5] BY <2>2, SMTT(30)
  <2>4. Len(c) >= 1 /\ c[1] = 251 BY <2>3, <1>6, SMTT(30)
  <2>5. NDec(c) = NOk(c[2] * 16777216 + c[3] * 65536 + c[4] * 256 + c[5], 5) BY <1>0, <2>3, <2>4, Dec5, SMTT(30)
  <2>6. c[2] * 16777216 + c[3] * 65536 + c[4] * 256 + c[5] = b[2] * 16777216 + b[3] * 65536 + b[4] * 256 + b[5] BY <2>3, SMTT(30)
  <2> QED BY <2>1, <2>5, <2>6, SMTT(30)
<1>7. CASE Len(b) >= 1 /\ b[1] = 255
  <2>a. Len(b) >= 9
    <3>1. CASE Len(b) < 9
      <4>1. NDec(b) = ErrTrunc(9) BY <1>7, <3>1, Dec9, SMTT(30)
      <4> QED BY <4>1, Fields, SMTT(30)
    <3> QED BY <1>0, <3>1, SMTT(30)
  <2>1. NDec(b) = NOk(b[2] * 72057594037927936 + b[3] * 281474976710656 + b[4] * 1099511627776 + b[5] * 4294967296 + b[6] * 16777216 + b[7] * 65536 + b[8] * 256 + b[9], 9) BY <1>0, <1>7, <2>a, Dec9, SMTT(30)
  <2>2. NDec(b).n = 9 BY <2>1, Fields, SMTT(30)
  <2>3. Len(c) >= 9 /\ c[1] = b[1] /\ c[2] = b[2] /\ c[3] = b[3] /\ c[4] = b[4] /\ c[5] = b[5] /\ c[6] = b[6] /\ c[7] = b[7] /\ c[8] = b[8] /\ c[9] = b[9] BY <2>2, SMTT(30)
  <2>4. Len(c) >= 1 /\ c[1] = 255 BY <2>3, <1>7, SMTT(30)
  <2>5. NDec(c) = NOk(c[2] * 72057594037927936 + c[3] * 281474976710656 + c[4] * 1099511627776 + c[5] * 4294967296 + c[6] * 16777216 + c[7] * 65536 + c[8] * 256 + c[9], 9) BY <1>0, <2>3, <2>4, Dec9, SMTT(30)
  <2>6. c[2] * 72057594037927936 + c[3] * 281474976710656 + c[4] * 1099511627776 + c[5] * 4294967296 + c[6] * 16777216 + c[7] * 65536 + c[8] * 256 + c[9] = b[2] * 72057594037927936 + b[3] * 281474976710656 + b[4] * 1099511627776 + b[5] * 4294967296 + b[6] * 16777216 + b[7] * 65536 + b[8] * 256 + b[9] BY <2>3, SMTT(30)
  <2> QED BY <2>1, <2>5, <2>6, SMTT(30)
<1>9. \/ Len(b) = 0 \/ (Len(b) >= 1 /\ b[1] <= 240) \/ (Len(b) >= 1 /\ b[1] >= 241 /\ b[1] <= 248)
      \/ (Len(b) >= 1 /\ b[1] = 249) \/ (Len(b) >= 1 /\ b[1] = 250) \/ (Len(b) >= 1 /\ b[1] = 251)
      \/ (Len(b) >= 1 /\ b[1] = 255) \/ (Len(b) >= 1 /\ b[1] >= 252 /\ b[1] <= 254)
  BY <1>0, SMTT(30) DEF Byte
<1> QED BY <1>1, <1>2, <1>3, <1>4, <1>5, <1>6, <1>7, <1>8, <1>9, SMTT(30)

(* ---------------------------------------------------------------- Part 3 *)
(* The digit form of spec/Varint.tla (what TLC evaluates) computes the same function.               *)
LEMMA U64Shape == \A d \in U64 : /\ d[1] \in D16 /\ d[2] \in D16 /\ d[3] \in D16 /\ d[4] \in D16
                                 /\ d = <<d[1], d[2], d[3], d[4]>>
  BY SMTT(30) DEF U64

LEMMA DivModUnique == \A q \in Nat, r \in 0..255 : ((q * 256) + r) \div 256 = q /\ ((q * 256) + r) % 256 = r
  BY SMTT(30)

LEMMA DU16 == \A q \in Nat, r \in 0..65535 : ((q * 65536) + r) \div 65536 = q /\ ((q * 65536) + r) % 65536 = r
  BY SMTT(30)
LEMMA DU32 == \A q \in Nat, r \in 0..4294967295 : ((q * 4294967296) + r) \div 4294967296 = q
  BY SMTT(30)
LEMMA DU48 == \A q \in Nat, r \in 0..281474976710655 : ((q * 281474976710656) + r) \div 281474976710656 = q
  BY SMTT(30)
LEMMA DivRange16 == \A e \in 0..65535 : (e \div 256) \in 0..255
  BY SMTT(30)
LEMMA DivLow == \A h \in Nat, e \in 0..65535 : ((h * 65536) + e) \div 256 = (h * 256) + (e \div 256)
  BY SMTT(30)
LEMMA ModByte == \A h \in Nat, e \in 0..255 : ((h * 256) + e) % 256 = e
  BY SMTT(30)
LEMMA ModLow == \A h \in Nat, e \in 0..65535 : ((h * 65536) + e) % 256 = e % 256
<1> TAKE h \in Nat, e \in 0..65535
<1> DEFINE t == (h * 65536) + e
<1>1. t \in Nat /\ e \in Nat BY SMTT(30)
<1>2. t = ((t \div 256) * 256) + (t % 256) BY <1>1, Step, SMTT(30)
<1>3. e = ((e \div 256) * 256) + (e % 256) BY <1>1, Step, SMTT(30)
<1>4. t \div 256 = (h * 256) + (e \div 256) BY DivLow, SMTT(30)
<1>5. t = (h * 65536) + e OBVIOUS
<1> HIDE DEF t
<1>6. (t % 256) = (e % 256) BY <1>2, <1>3, <1>4, <1>5, SMTT(30)
<1> QED BY <1>6 DEF t
(* (h*65536 + e) \div 256 % 256 for a 16-bit e is the high byte of e *)
LEMMA HighByte == \A h \in Nat, e \in 0..65535 : (((h * 65536) + e) \div 256) % 256 = e \div 256
<1> TAKE h \in Nat, e \in 0..65535
<1>1. ((h * 65536) + e) \div 256 = (h * 256) + (e \div 256) BY DivLow, SMTT(30)
<1>2. (e \div 256) \in 0..255 BY DivRange16, SMTT(30)
<1> DEFINE g == e \div 256
<1> HIDE DEF g
<1>3. ((h * 256) + g) % 256 = g BY <1>2, ModByte, SMTT(30) DEF g
<1> QED BY <1>1, <1>3, SMTT(30) DEF g

(* the digits are the base-2^16 digits of Val(d), and the bytes of each digit are the bytes of Val(d) *)
LEMMA ValDigits == \A d \in U64 :
   /\ Val(d) \in Nat
   /\ Val(d) \div 281474976710656 = d[1]
   /\ Val(d) \div 4294967296 = (d[1] * 65536) + d[2]
   /\ Val(d) \div 65536 = (d[1] * 4294967296) + (d[2] * 65536) + d[3]
   /\ Val(d) % 65536 = d[4]
<1> TAKE d \in U64
<1> DEFINE a == d[1]
<1> DEFINE b == d[2]
<1> DEFINE c == d[3]
<1> DEFINE e == d[4]
<1>1. a \in 0..65535 /\ b \in 0..65535 /\ c \in 0..65535 /\ e \in 0..65535 BY U64Shape, SMTT(30) DEF D16
<1>2. Val(d) = a * 281474976710656 + b * 4294967296 + c * 65536 + e BY SMTT(30) DEF Val
<1> HIDE DEF a, b, c, e
<1> DEFINE r48 == b * 4294967296 + c * 65536 + e
<1> DEFINE r32 == c * 65536 + e
<1> DEFINE q32 == (a * 65536) + b
<1> DEFINE q16 == (a * 4294967296) + (b * 65536) + c
<1> DEFINE t == a * 281474976710656 + b * 4294967296 + c * 65536 + e
<1>3. /\ r48 \in 0..281474976710655 /\ r32 \in 0..4294967295 /\ q32 \in Nat /\ q16 \in Nat /\ a \in Nat
      /\ e \in 0..65535 /\ t \in Nat
  BY <1>1, SMTT(30)
<1>4. t = (a * 281474976710656) + r48 /\ t = (q32 * 4294967296) + r32 /\ t = (q16 * 65536) + e
  BY <1>1, SMTT(30)
<1> HIDE DEF r48, r32, q32, q16, t
<1>5. ((a * 281474976710656) + r48) \div 281474976710656 = a BY <1>3, DU48, SMTT(30)
<1>6. ((q32 * 4294967296) + r32) \div 4294967296 = q32 BY <1>3, DU32, SMTT(30)
<1>7. ((q16 * 65536) + e) \div 65536 = q16 /\ ((q16 * 65536) + e) % 65536 = e BY <1>3, DU16, SMTT(30)
<1>8. t \in Nat /\ t \div 281474976710656 = a /\ t \div 4294967296 = q32 /\ t \div 65536 = q16 /\ t % 65536 = e
  BY <1>3, <1>4, <1>5, <1>6, <1>7, SMTT(30)
<1> QED BY <1>2, <1>8, SMTT(30) DEF a, b, c, e, t, q32, q16

LEMMA ValInU64 == \A d \in U64 : Val(d) \in NU64
<1> TAKE d \in U64
<1>1. Val(d) \in Nat /\ Val(d) \div 4294967296 = (d[1] * 65536) + d[2] BY ValDigits
<1>2. d[1] \in 0..65535 /\ d[2] \in 0..65535 BY U64Shape, SMTT(30) DEF D16
<1>3. (d[1] * 65536) + d[2] <= 4294967295 BY <1>2, SMTT(30)
<1> QED BY <1>1, <1>3, SMTT(30) DEF NU64

THEOREM ValInjective == \A d, e \in U64 : Val(d) = Val(e) => d = e
<1> TAKE d, e \in U64
<1> HAVE Val(d) = Val(e)
<1>1. d[1] = e[1] BY ValDigits, SMTT(30)
<1>2. d[4] = e[4] BY ValDigits, SMTT(30)
<1>3. (d[1] * 65536) + d[2] = (e[1] * 65536) + e[2] BY ValDigits, SMTT(30)
<1>4. (d[1] * 4294967296) + (d[2] * 65536) + d[3] = (e[1] * 4294967296) + (e[2] * 65536) + e[3] BY ValDigits, SMTT(30)
<1>5. /\ d[1] \in 0..65535 /\ d[2] \in 0..65535 /\ d[3] \in 0..65535 /\ d[4] \in 0..65535
      /\ e[1] \in 0..65535 /\ e[2] \in 0..65535 /\ e[3] \in 0..65535 /\ e[4] \in 0..65535
  BY U64Shape, SMTT(30) DEF D16
<1>6. d[2] = e[2] BY <1>1, <1>3, <1>5, SMTT(30)
<1>7. d[3] = e[3] BY <1>1, <1>6, <1>4, <1>5, SMTT(30)
<1>8. d = <<d[1], d[2], d[3], d[4]>> /\ e = <<e[1], e[2], e[3], e[4]>> BY U64Shape, SMTT(30)
<1> QED BY <1>1, <1>2, <1>6, <1>7, <1>8, SMTT(30)

(* the case conditions of the digit form are the comparisons of varint.rs *)
LEMMA CondRefines == \A d \in U64 :
   /\ (Fits32(d) <=> Val(d) <= 4294967295)
   /\ (Small(d) <=> Val(d) <= 16777215)
   /\ (Small(d) => Val(d) = Low(d))
   /\ (Leq(d, 240) <=> Val(d) <= 240)
   /\ (Leq(d, 2287) <=> Val(d) <= 2287)
   /\ (Leq(d, 67823) <=> Val(d) <= 67823)
<1> TAKE d \in U64
<1> DEFINE a == d[1]
<1> DEFINE b == d[2]
<1> DEFINE c == d[3]
<1> DEFINE e == d[4]
<1>1. a \in 0..65535 /\ b \in 0..65535 /\ c \in 0..65535 /\ e \in 0..65535 BY U64Shape, SMTT(30) DEF D16
<1>2. Val(d) = a * 281474976710656 + b * 4294967296 + c * 65536 + e BY SMTT(30) DEF Val
<1>3. Fits32(d) <=> (a = 0 /\ b = 0) BY SMTT(30) DEF Fits32
<1>4. Small(d) <=> (a = 0 /\ b = 0 /\ c <= 255) BY SMTT(30) DEF Small, Fits32
<1>5. Low(d) = (c * 65536) + e BY SMTT(30) DEF Low
<1> HIDE DEF a, b, c, e
<1>6. (a = 0 /\ b = 0) <=> (a * 281474976710656 + b * 4294967296 + c * 65536 + e <= 4294967295) BY <1>1, SMTT(30)
<1>7. (a = 0 /\ b = 0 /\ c <= 255) <=> (a * 281474976710656 + b * 4294967296 + c * 65536 + e <= 16777215) BY <1>1, SMTT(30)
<1>8. (a = 0 /\ b = 0) => (a * 281474976710656 + b * 4294967296 + c * 65536 + e = (c * 65536) + e) BY <1>1, SMTT(30)
<1>9. Fits32(d) <=> Val(d) <= 4294967295 BY <1>2, <1>3, <1>6, SMTT(30)
<1>10. Small(d) <=> Val(d) <= 16777215 BY <1>2, <1>4, <1>7, SMTT(30)
<1>11. Small(d) => Val(d) = Low(d) BY <1>2, <1>4, <1>5, <1>8, SMTT(30)
<1>12. \A k \in {240, 2287, 67823} : Leq(d, k) <=> Val(d) <= k
  <2> TAKE k \in {240, 2287, 67823}
  <2>1. Leq(d, k) <=> (Small(d) /\ Low(d) <= k) BY SMTT(30) DEF Leq
  <2>2. Val(d) <= k => Val(d) <= 16777215 BY <1>1, <1>2, SMTT(30)
  <2> QED BY <2>1, <2>2, <1>10, <1>11, SMTT(30)
<1> QED BY <1>9, <1>10, <1>11, <1>12, SMTT(30)

(* bytes of Val(d) in terms of the digits *)
LEMMA ValBytes == \A d \in U64 :
   /\ (Val(d) \div 72057594037927936) % 256 = d[1] \div 256
   /\ (Val(d) \div 281474976710656) % 256 = d[1] % 256
   /\ (Val(d) \div 1099511627776) % 256 = d[2] \div 256
   /\ (Val(d) \div 4294967296) % 256 = d[2] % 256
   /\ (Val(d) \div 16777216) % 256 = d[3] \div 256
   /\ (Val(d) \div 65536) % 256 = d[3] % 256
   /\ (Val(d) \div 256) % 256 = d[4] \div 256
   /\ Val(d) % 256 = d[4] % 256
<1> TAKE d \in U64
<1> DEFINE v == Val(d)
<1> DEFINE a == d[1]
<1> DEFINE b == d[2]
<1> DEFINE c == d[3]
<1> DEFINE e == d[4]
<1>1. a \in 0..65535 /\ b \in 0..65535 /\ c \in 0..65535 /\ e \in 0..65535 BY U64Shape, SMTT(30) DEF D16
<1>2. /\ v \in Nat /\ v \div 281474976710656 = a /\ v \div 4294967296 = (a * 65536) + b
      /\ v \div 65536 = (a * 4294967296) + (b * 65536) + c /\ v % 65536 = e
  BY ValDigits
<1>3. v \div 72057594037927936 = (v \div 281474976710656) \div 256 BY <1>2, DD6, SMTT(30)
<1>4. v \div 1099511627776 = (v \div 4294967296) \div 256 BY <1>2, DD4, SMTT(30)
<1>5. v \div 16777216 = (v \div 65536) \div 256 BY <1>2, DD2, SMTT(30)
<1> HIDE DEF v, a, b, c, e
<1>6. (a \div 256) % 256 = a \div 256 BY <1>1, SMTT(30)
<1>7. (((a * 65536) + b) \div 256) % 256 = b \div 256 BY <1>1, HighByte, SMTT(30)
<1>8. ((a * 65536) + b) % 256 = b % 256 BY <1>1, ModLow, SMTT(30)
<1> DEFINE h3 == (a * 65536) + b
<1>9a. h3 \in Nat /\ (a * 4294967296) + (b * 65536) + c = (h3 * 65536) + c BY <1>1, SMTT(30)
<1>9. (((a * 4294967296) + (b * 65536) + c) \div 256) % 256 = c \div 256
  <2> HIDE DEF h3
  <2>1. (((h3 * 65536) + c) \div 256) % 256 = c \div 256 BY <1>1, <1>9a, HighByte, SMTT(30)
  <2> QED BY <2>1, <1>9a, SMTT(30)
<1>10. ((a * 4294967296) + (b * 65536) + c) % 256 = c % 256
  <2> HIDE DEF h3
  <2>1. ((h3 * 65536) + c) % 256 = c % 256 BY <1>1, <1>9a, ModLow, SMTT(30)
  <2> QED BY <2>1, <1>9a, SMTT(30)
<1>11. (v \div 256) % 256 = e \div 256 /\ v % 256 = e % 256
  <2> DEFINE h == (a * 4294967296) + (b * 65536) + c
  <2>1. v = ((v \div 65536) * 65536) + (v % 65536) BY <1>2, SMTT(30)
  <2>2. h \in Nat BY <1>1, SMTT(30)
  <2>3. v = (h * 65536) + e BY <2>1, <1>2, SMTT(30)
  <2> HIDE DEF h
  <2>4. (((h * 65536) + e) \div 256) % 256 = e \div 256 BY <2>2, <1>1, HighByte, SMTT(30)
  <2>5. ((h * 65536) + e) % 256 = e % 256 BY <2>2, <1>1, ModLow, SMTT(30)
  <2> QED BY <2>3, <2>4, <2>5, SMTT(30)
<1> QED BY <1>2, <1>3, <1>4, <1>5, <1>6, <1>7, <1>8, <1>9, <1>10, <1>11, SMTT(30) DEF v, a, b, c, e

(* ------------------------------------------------------------------------------------------------ *)
THEOREM EncRefines == \A d \in U64 : Enc(d) = NEnc(Val(d)) /\ LenOf(d) = NLenOf(Val(d))
<1> TAKE d \in U64
<1> DEFINE v == Val(d)
<1>0. /\ v \in Nat
      /\ (Fits32(d) <=> v <= 4294967295) /\ (Small(d) <=> v <= 16777215) /\ (Small(d) => v = Low(d))
      /\ (Leq(d, 240) <=> v <= 240) /\ (Leq(d, 2287) <=> v <= 2287) /\ (Leq(d, 67823) <=> v <= 67823)
  BY CondRefines, ValDigits, SMTT(30)
<1>0a. (Leq(d, 240) => Small(d)) /\ (Leq(d, 2287) => Small(d)) /\ (Leq(d, 67823) => Small(d)) BY SMTT(30) DEF Leq
<1>0b. d[1] \in 0..65535 /\ d[2] \in 0..65535 /\ d[3] \in 0..65535 /\ d[4] \in 0..65535 BY U64Shape, SMTT(30) DEF D16
<1>b. /\ (v \div 72057594037927936) % 256 = d[1] \div 256
      /\ (v \div 281474976710656) % 256 = d[1] % 256
      /\ (v \div 1099511627776) % 256 = d[2] \div 256
      /\ (v \div 4294967296) % 256 = d[2] % 256
      /\ (v \div 16777216) % 256 = d[3] \div 256
      /\ (v \div 65536) % 256 = d[3] % 256
      /\ (v \div 256) % 256 = d[4] \div 256
      /\ v % 256 = d[4] % 256
  BY ValBytes
<1>c. ((d[3] \div 256) % 256) = d[3] \div 256 /\ ((d[4] \div 256) % 256) = d[4] \div 256
  <2>1. (d[3] \div 256) \in 0..255 /\ (d[4] \div 256) \in 0..255 BY <1>0b, DivRange16, SMTT(30)
  <2> QED BY <2>1, ModSmall, SMTT(30)
<1> HIDE DEF v
<1>L. LenOf(d) = NLenOf(v) BY <1>0, SMTT(30) DEF LenOf, NLenOf
<1>1. (Leq(d, 240)) => Enc(d) = NEnc(v)
  <2> HAVE Leq(d, 240)
  <2>1. Enc(d) = << Low(d) >> BY SMTT(30) DEF Enc
  <2>2. NEnc(v) = << v >> BY <1>0, Enc1, SMTT(30)
  <2> QED BY <2>1, <2>2, <1>0, <1>0a, SMTT(30)
<1>2. (~Leq(d, 240) /\ Leq(d, 2287)) => Enc(d) = NEnc(v)
  <2> HAVE ~Leq(d, 240) /\ Leq(d, 2287)
  <2>1. Enc(d) = << (((Low(d) - 240) \div 256) + 241) % 256, (Low(d) - 240) % 256 >> BY SMTT(30) DEF Enc
  <2>2. NEnc(v) = << (((v - 240) \div 256) + 241) % 256, (v - 240) % 256 >> BY <1>0, Enc2, SMTT(30)
  <2> QED BY <2>1, <2>2, <1>0, <1>0a, SMTT(30)
<1>3. (~Leq(d, 240) /\ ~Leq(d, 2287) /\ Leq(d, 67823)) => Enc(d) = NEnc(v)
  <2> HAVE ~Leq(d, 240) /\ ~Leq(d, 2287) /\ Leq(d, 67823)
  <2>1. Enc(d) = << 249, ((Low(d) - 2288) \div 256) % 256, (Low(d) - 2288) % 256 >> BY SMTT(30) DEF Enc
  <2>2. NEnc(v) = << 249, ((v - 2288) \div 256) % 256, (v - 2288) % 256 >> BY <1>0, Enc3, SMTT(30)
  <2> QED BY <2>1, <2>2, <1>0, <1>0a, SMTT(30)
<1>4. (~Leq(d, 240) /\ ~Leq(d, 2287) /\ ~Leq(d, 67823) /\ Small(d)) => Enc(d) = NEnc(v)
  <2> HAVE ~Leq(d, 240) /\ ~Leq(d, 2287) /\ ~Leq(d, 67823) /\ Small(d)
  <2>1. Enc(d) = << 250, (Low(d) \div 65536) % 256, (Low(d) \div 256) % 256, Low(d) % 256 >> BY SMTT(30) DEF Enc
  <2>2. NEnc(v) = << 250, (v \div 65536) % 256, (v \div 256) % 256, v % 256 >> BY <1>0, Enc4, SMTT(30)
  <2> QED BY <2>1, <2>2, <1>0, SMTT(30)
<1>5. (~Leq(d, 240) /\ ~Leq(d, 2287) /\ ~Leq(d, 67823) /\ ~Small(d) /\ Fits32(d)) => Enc(d) = NEnc(v)
  <2> HAVE ~Leq(d, 240) /\ ~Leq(d, 2287) /\ ~Leq(d, 67823) /\ ~Small(d) /\ Fits32(d)
  <2>1. Enc(d) = << 251, (d[3] \div 256) % 256, d[3] % 256, (d[4] \div 256) % 256, d[4] % 256 >> BY SMTT(30) DEF Enc
  <2>2. NEnc(v) = << 251, (v \div 16777216) % 256, (v \div 65536) % 256, (v \div 256) % 256, v % 256 >>
    BY <1>0, Enc5, SMTT(30)
  <2> QED BY <2>1, <2>2, <1>b, <1>c, SMTT(30)
<1>6. (~Leq(d, 240) /\ ~Leq(d, 2287) /\ ~Leq(d, 67823) /\ ~Small(d) /\ ~Fits32(d)) => Enc(d) = NEnc(v)
  <2> HAVE ~Leq(d, 240) /\ ~Leq(d, 2287) /\ ~Leq(d, 67823) /\ ~Small(d) /\ ~Fits32(d)
  <2>1. Enc(d) = << 255, d[1] \div 256, d[1] % 256, d[2] \div 256, d[2] % 256,
                         d[3] \div 256, d[3] % 256, d[4] \div 256, d[4] % 256 >> BY SMTT(30) DEF Enc
  <2>2. NEnc(v) = << 255, (v \div 72057594037927936) % 256, (v \div 281474976710656) % 256,
                          (v \div 1099511627776) % 256,     (v \div 4294967296) % 256,
                          (v \div 16777216) % 256,          (v \div 65536) % 256,
                          (v \div 256) % 256,               v % 256 >>
    BY <1>0, Enc9, SMTT(30)
  <2> QED BY <2>1, <2>2, <1>b, SMTT(30)
<1>7. Enc(d) = NEnc(v) BY <1>1, <1>2, <1>3, <1>4, <1>5, <1>6, SMTT(30)
<1> QED BY <1>L, <1>7, SMTT(30) DEF v

(* ------------------------------------------------------------------------------------------------ *)
(* digit-form decoder, by length and marker (same shape lemmas as for NDec) *)
LEMMA DDecE == \A b \in Seq(Byte) : Len(b) = 0 => Dec(b) = ErrEmpty
  BY SMTT(60) DEF Dec, Byte
LEMMA DDec1 == \A b \in Seq(Byte) : (Len(b) >= 1 /\ b[1] <= 240) => Dec(b) = Ok(FromLow(b[1]), 1)
  BY SMTT(60) DEF Dec, Byte
LEMMA DDec2 == \A b \in Seq(Byte) : (Len(b) >= 1 /\ b[1] >= 241 /\ b[1] <= 248) =>
                 Dec(b) = IF Len(b) < 2 THEN ErrTrunc(2) ELSE Ok(FromLow(240 + (b[1] - 241) * 256 + b[2]), 2)
  BY SMTT(60) DEF Dec, Byte
LEMMA DDec3 == \A b \in Seq(Byte) : (Len(b) >= 1 /\ b[1] = 249) =>
                 Dec(b) = IF Len(b) < 3 THEN ErrTrunc(3) ELSE Ok(FromLow(2288 + b[2] * 256 + b[3]), 3)
  BY SMTT(60) DEF Dec, Byte
LEMMA DDec4 == \A b \in Seq(Byte) : (Len(b) >= 1 /\ b[1] = 250) =>
                 Dec(b) = IF Len(b) < 4 THEN ErrTrunc(4) ELSE Ok(FromLow(b[2] * 65536 + b[3] * 256 + b[4]), 4)
  BY SMTT(60) DEF Dec, Byte
LEMMA DDec5 == \A b \in Seq(Byte) : (Len(b) >= 1 /\ b[1] = 251) =>
                 Dec(b) = IF Len(b) < 5 THEN ErrTrunc(5)
                          ELSE Ok(<<0, 0, b[2] * 256 + b[3], b[4] * 256 + b[5]>>, 5)
  BY SMTT(60) DEF Dec, Byte
LEMMA DDec9 == \A b \in Seq(Byte) : (Len(b) >= 1 /\ b[1] = 255) =>
                 Dec(b) = IF Len(b) < 9 THEN ErrTrunc(9)
                          ELSE Ok(<<b[2] * 256 + b[3], b[4] * 256 + b[5], b[6] * 256 + b[7], b[8] * 256 + b[9]>>, 9)
  BY SMTT(60) DEF Dec, Byte
LEMMA DDecM == \A b \in Seq(Byte) : (Len(b) >= 1 /\ b[1] >= 252 /\ b[1] <= 254) => Dec(b) = ErrMarker(b[1])
  BY SMTT(60) DEF Dec, Byte

LEMMA Step16 == \A x \in Nat : x = ((x \div 65536) * 65536) + (x % 65536) /\ (x % 65536) \in 0..65535 /\ (x \div 65536) \in Nat
  BY SMTT(30)

LEMMA FromLowOK == \A x \in Nat : x <= 4294967295 => FromLow(x) \in U64 /\ Val(FromLow(x)) = x
<1> TAKE x \in Nat
<1> HAVE x <= 4294967295
<1> DEFINE q == x \div 65536
<1> DEFINE r == x % 65536
<1>1a. q \in Nat /\ r \in 0..65535 /\ x = (q * 65536) + r BY Step16, SMTT(30)
<1>2. FromLow(x) = <<0, 0, q, r>> BY SMTT(30) DEF FromLow
<1> HIDE DEF q, r
<1>1b. q <= 65535 BY <1>1a, SMTT(30)
<1>1. q \in 0..65535 /\ r \in 0..65535 /\ x = (q * 65536) + r BY <1>1a, <1>1b, SMTT(30)
<1>3. <<0, 0, q, r>> \in U64 BY <1>1, SMTT(30) DEF U64, D16
<1>4. Val(<<0, 0, q, r>>) = (q * 65536) + r BY <1>1, SMTT(30) DEF Val
<1> QED BY <1>1, <1>2, <1>3, <1>4, SMTT(30)

LEMMA Pair16 == \A x, y \in Byte : ((x * 256) + y) \in D16
  BY SMTT(30) DEF Byte, D16

DecRel(b) == \/ Dec(b) = NDec(b) /\ NDec(b).ok = FALSE
             \/ \E dd \in U64, n \in {1, 2, 3, 4, 5, 9} : Dec(b) = Ok(dd, n) /\ NDec(b) = NOk(Val(dd), n)

THEOREM DecRefines == \A b \in Seq(Byte) : DecRel(b)
<1> TAKE b \in Seq(Byte)
<1>0. Len(b) \in Nat /\ \A i \in 1..Len(b) : b[i] \in Byte BY SMTT(30)
<1>1. CASE Len(b) = 0
  <2>1. NDec(b) = ErrEmpty /\ Dec(b) = ErrEmpty BY <1>1, DecE, DDecE, SMTT(30)
  <2> QED BY <2>1, Fields, SMTT(30) DEF DecRel
<1>8. CASE Len(b) >= 1 /\ b[1] >= 252 /\ b[1] <= 254
  <2>1. NDec(b) = ErrMarker(b[1]) /\ Dec(b) = ErrMarker(b[1]) BY <1>8, DecM, DDecM, SMTT(30)
  <2> QED BY <2>1, Fields, SMTT(30) DEF DecRel
<1>2. CASE Len(b) >= 1 /\ b[1] <= 240
  <2>a. b[1] \in Byte BY <1>0, <1>2, SMTT(30)
  <2>b. NDec(b) = NOk(b[1], 1) BY <1>0, <1>2, Dec1, SMTT(30)
  <2>c. Dec(b) = Ok(FromLow(b[1]), 1) BY <1>0, <1>2, DDec1, SMTT(30)
  <2>d. (b[1]) \in Nat /\ (b[1]) <= 4294967295 BY <2>a, <1>2, SMTT(30) DEF Byte
  <2>e. FromLow(b[1]) \in U64 /\ Val(FromLow(b[1])) = b[1] BY <2>d, FromLowOK, SMTT(30)
  <2> QED BY <2>b, <2>c, <2>e, SMTT(30) DEF DecRel
<1>3. CASE Len(b) >= 1 /\ b[1] >= 241 /\ b[1] <= 248
  <2>1. CASE Len(b) < 2
    <3>1. NDec(b) = ErrTrunc(2) /\ Dec(b) = ErrTrunc(2) BY <1>3, <2>1, Dec2, DDec2, SMTT(30)
    <3> QED BY <3>1, Fields, SMTT(30) DEF DecRel
  <2>2. CASE Len(b) >= 2
    <3>a. b[1] \in Byte /\ b[2] \in Byte BY <1>0, <1>3, <2>2, SMTT(30)
    <3>b. NDec(b) = NOk(240 + (b[1] - 241) * 256 + b[2], 2) BY <1>0, <1>3, <2>2, Dec2, SMTT(30)
    <3>c. Dec(b) = Ok(FromLow(240 + (b[1] - 241) * 256 + b[2]), 2) BY <1>0, <1>3, <2>2, DDec2, SMTT(30)
    <3>d. (240 + (b[1] - 241) * 256 + b[2]) \in Nat /\ (240 + (b[1] - 241) * 256 + b[2]) <= 4294967295 BY <3>a, <1>3, <2>2, SMTT(30) DEF Byte
    <3>e. FromLow(240 + (b[1] - 241) * 256 + b[2]) \in U64 /\ Val(FromLow(240 + (b[1] - 241) * 256 + b[2])) = 240 + (b[1] - 241) * 256 + b[2] BY <3>d, FromLowOK, SMTT(30)
    <3> QED BY <3>b, <3>c, <3>e, SMTT(30) DEF DecRel
  <2> QED BY <1>0, <2>1, <2>2, SMTT(30)
<1>4. CASE Len(b) >= 1 /\ b[1] = 249
  <2>1. CASE Len(b) < 3
    <3>1. NDec(b) = ErrTrunc(3) /\ Dec(b) = ErrTrunc(3) BY <1>4, <2>1, Dec3, DDec3, SMTT(30)
    <3> QED BY <3>1, Fields, SMTT(30) DEF DecRel
  <2>2. CASE Len(b) >= 3
    <3>a. b[1] \in Byte /\ b[2] \in Byte /\ b[3] \in Byte BY <1>0, <1>4, <2>2, SMTT(30)
    <3>b. NDec(b) = NOk(2288 + b[2] * 256 + b[3], 3) BY <1>0, <1>4, <2>2, Dec3, SMTT(30)
    <3>c. Dec(b) = Ok(FromLow(2288 + b[2] * 256 + b[3]), 3) BY <1>0, <1>4, <2>2, DDec3, SMTT(30)
    <3>d. (2288 + b[2] * 256 + b[3]) \in Nat /\ (2288 + b[2] * 256 + b[3]) <= 4294967295 BY <3>a, <1>4, <2>2, SMTT(30) DEF Byte
    <3>e. FromLow(2288 + b[2] * 256 + b[3]) \in U64 /\ Val(FromLow(2288 + b[2] * 256 + b[3])) = 2288 + b[2] * 256 + b[3] BY <3>d, FromLowOK, SMTT(30)
    <3> QED BY <3>b, <3>c, <3>e, SMTT(30) DEF DecRel
  <2> QED BY <1>0, <2>1, <2>2, SMTT(30)
<1>5. CASE Len(b) >= 1 /\ b[1] = 250
  <2>1. CASE Len(b) < 4
    <3>1. NDec(b) = ErrTrunc(4) /\ Dec(b) = ErrTrunc(4) BY <1>5, <2>1, Dec4, DDec4, SMTT(30)
    <3> QED BY <3>1, Fields, SMTT(30) DEF DecRel
  <2>2. CASE Len(b) >= 4
    <3>a. b[1] \in Byte /\ b[2] \in Byte /\ b[3] \in Byte /\ b[4] \in Byte BY <1>0, <1>5, <2>2, SMTT(30)
    <3>b. NDec(b) = NOk(b[2] * 65536 + b[3] * 256 + b[4], 4) BY <1>0, <1>5, <2>2, Dec4, SMTT(30)
    <3>c. Dec(b) = Ok(FromLow(b[2] * 65536 + b[3] * 256 + b[4]), 4) BY <1>0, <1>5, <2>2, DDec4, SMTT(30)
    <3>d. (b[2] * 65536 + b[3] * 256 + b[4]) \in Nat /\ (b[2] * 65536 + b[3] * 256 + b[4]) <= 4294967295 BY <3>a, <1>5, <2>2, SMTT(30) DEF Byte
    <3>e. FromLow(b[2] * 65536 + b[3] * 256 + b[4]) \in U64 /\ Val(FromLow(b[2] * 65536 + b[3] * 256 + b[4])) = b[2] * 65536 + b[3] * 256 + b[4] BY <3>d, FromLowOK, SMTT(30)
    <3> QED BY <3>b, <3>c, <3>e, SMTT(30) DEF DecRel
  <2> QED BY <1>0, <2>1, <2>2, SMTT(30)
<1>6. CASE Len(b) >= 1 /\ b[1] = 251
  <2>1. CASE Len(b) < 5
    <3>1. NDec(b) = ErrTrunc(5) /\ Dec(b) = ErrTrunc(5) BY <1>6, <2>1, Dec5, DDec5, SMTT(30)
    <3> QED BY <3>1, Fields, SMTT(30) DEF DecRel
  <2>2. CASE Len(b) >= 5
    <3>a. b[1] \in Byte /\ b[2] \in Byte /\ b[3] \in Byte /\ b[4] \in Byte /\ b[5] \in Byte BY <1>0, <1>6, <2>2, SMTT(30)
    <3>b. NDec(b) = NOk(b[2] * 16777216 + b[3] * 65536 + b[4] * 256 + b[5], 5) BY <1>0, <1>6, <2>2, Dec5, SMTT(30)
    <3>c. Dec(b) = Ok(<<0, 0, b[2] * 256 + b[3], b[4] * 256 + b[5]>>, 5) BY <1>0, <1>6, <2>2, DDec5, SMTT(30)
    <3>d. ((b[2] * 256) + b[3]) \in D16 /\ ((b[4] * 256) + b[5]) \in D16 /\ 0 \in D16 BY <3>a, Pair16, SMTT(30) DEF D16
    <3>e. <<0, 0, b[2] * 256 + b[3], b[4] * 256 + b[5]>> \in U64 BY <3>d, SMTT(30) DEF U64
    <3>f. Val(<<0, 0, b[2] * 256 + b[3], b[4] * 256 + b[5]>>) = b[2] * 16777216 + b[3] * 65536 + b[4] * 256 + b[5] BY <3>a, SMTT(30) DEF Val, Byte
    <3> QED BY <3>b, <3>c, <3>e, <3>f, SMTT(30) DEF DecRel
  <2> QED BY <1>0, <2>1, <2>2, SMTT(30)
<1>7. CASE Len(b) >= 1 /\ b[1] = 255
  <2>1. CASE Len(b) < 9
    <3>1. NDec(b) = ErrTrunc(9) /\ Dec(b) = ErrTrunc(9) BY <1>7, <2>1, Dec9, DDec9, SMTT(30)
    <3> QED BY <3>1, Fields, SMTT(30) DEF DecRel
  <2>2. CASE Len(b) >= 9
    <3>a. b[1] \in Byte /\ b[2] \in Byte /\ b[3] \in Byte /\ b[4] \in Byte /\ b[5] \in Byte /\ b[6] \in Byte /\ b[7] \in Byte /\ b[8] \in Byte /\ b[9] \in Byte BY <1>0, <1>7, <2>2, SMTT(30)
    <3>b. NDec(b) = NOk(b[2] * 72057594037927936 + b[3] * 281474976710656 + b[4] * 1099511627776 + b[5] * 4294967296 + b[6] * 16777216 + b[7] * 65536 + b[8] * 256 + b[9], 9) BY <1>0, <1>7, <2>2, Dec9, SMTT(30)
    <3>c. Dec(b) = Ok(<<b[2] * 256 + b[3], b[4] * 256 + b[5], b[6] * 256 + b[7], b[8] * 256 + b[9]>>, 9) BY <1>0, <1>7, <2>2, DDec9, SMTT(30)
    <3>d. ((b[2] * 256) + b[3]) \in D16 /\ ((b[4] * 256) + b[5]) \in D16 /\ ((b[6] * 256) + b[7]) \in D16 /\ ((b[8] * 256) + b[9]) \in D16 BY <3>a, Pair16, SMTT(30)
    <3>e. <<b[2] * 256 + b[3], b[4] * 256 + b[5], b[6] * 256 + b[7], b[8] * 256 + b[9]>> \in U64 BY <3>d, SMTT(30) DEF U64
    <3>f. Val(<<b[2] * 256 + b[3], b[4] * 256 + b[5], b[6] * 256 + b[7], b[8] * 256 + b[9]>>) = b[2] * 72057594037927936 + b[3] * 281474976710656 + b[4] * 1099511627776 + b[5] * 4294967296 + b[6] * 16777216 + b[7] * 65536 + b[8] * 256 + b[9] BY <3>a, SMTT(30) DEF Val, Byte
    <3> QED BY <3>b, <3>c, <3>e, <3>f, SMTT(30) DEF DecRel
  <2> QED BY <1>0, <2>1, <2>2, SMTT(30)
<1>9. \/ Len(b) = 0 \/ (Len(b) >= 1 /\ b[1] <= 240) \/ (Len(b) >= 1 /\ b[1] >= 241 /\ b[1] <= 248)
      \/ (Len(b) >= 1 /\ b[1] = 249) \/ (Len(b) >= 1 /\ b[1] = 250) \/ (Len(b) >= 1 /\ b[1] = 251)
      \/ (Len(b) >= 1 /\ b[1] = 255) \/ (Len(b) >= 1 /\ b[1] >= 252 /\ b[1] <= 254)
  <2>1. Len(b) >= 1 => b[1] \in Byte BY <1>0, SMTT(30)
  <2> QED BY <1>0, <2>1, SMTT(30) DEF Byte
<1> QED BY <1>1, <1>2, <1>3, <1>4, <1>5, <1>6, <1>7, <1>8, <1>9, SMTT(30)

(* ---- C27 for the digit form that TLC evaluates: all of U64, by refinement ---- *)
THEOREM DigitRoundTrip == \A d \in U64 : Dec(Enc(d)) = Ok(d, LenOf(d))
<1> TAKE d \in U64
<1> DEFINE v == Val(d)
<1> DEFINE b == NEnc(v)
<1>1. v \in NU64 BY ValInU64
<1>2. Enc(d) = b /\ LenOf(d) = NLenOf(v) BY EncRefines
<1>3. b \in Seq(Byte) /\ NLenOf(v) \in {1, 2, 3, 4, 5, 9} BY <1>1, CanonicalLen
<1>4. NDec(b) = NOk(v, NLenOf(v)) BY <1>1, RoundTrip
<1>5. DecRel(b) BY <1>3, DecRefines
<1> HIDE DEF v, b
<1>6. NDec(b).ok = TRUE BY <1>4, Fields, SMTT(30)
<1>7. PICK dd \in U64, n \in {1, 2, 3, 4, 5, 9} : Dec(b) = Ok(dd, n) /\ NDec(b) = NOk(Val(dd), n)
  BY <1>5, <1>6, SMTT(30) DEF DecRel
<1>8. Val(dd) = v /\ n = NLenOf(v)
  <2>1. NOk(Val(dd), n).val = Val(dd) /\ NOk(Val(dd), n).n = n BY Fields, SMTT(30)
  <2>2. NOk(v, NLenOf(v)).val = v /\ NOk(v, NLenOf(v)).n = NLenOf(v) BY Fields, SMTT(30)
  <2> QED BY <2>1, <2>2, <1>4, <1>7, SMTT(30)
<1>9. dd = d BY <1>8, ValInjective, SMTT(30) DEF v
<1> QED BY <1>2, <1>7, <1>8, <1>9, SMTT(30)
=============================================================================

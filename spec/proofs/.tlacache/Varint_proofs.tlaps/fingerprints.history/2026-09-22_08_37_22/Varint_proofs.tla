---------------------------- MODULE Varint_proofs ----------------------------
(***************************************************************************)
(* C27 - TLAPS proofs about TurDB's varint (src/encoding/varint.rs).       *)
(*                                                                         *)
(* Part 1 restates varint_len / encode_varint / decode_varint over         *)
(* unbounded naturals (NLenOf, NEnc, NDec): this is the form in which the  *)
(* property reads naturally ("for every u64 v ...") and TLAPS integers are *)
(* unbounded.                                                              *)
(* Part 2 proves the property for ALL 2^64 values / ALL byte strings:      *)
(*      RoundTrip     NDec(NEnc(v)) = Ok(v, NLenOf(v))                      *)
(*      CanonicalLen  Len(NEnc(v)) = NLenOf(v), every element a byte        *)
(*      DecTotal      NDec(b) is an error or a u64 with 1 <= n <= Len(b)    *)
(*      DecPrefix     NDec(b) depends only on the n bytes it consumes       *)
(* Part 3 ties the digit form of spec/Varint.tla (what TLC evaluates for   *)
(* the conformance vectors) to the natural-number form:                    *)
(*      EncRefines    Enc(d) = NEnc(Val(d)), LenOf(d) = NLenOf(Val(d))      *)
(*      DecRefines    Dec(b) and NDec(b) fail alike / Val(Dec(b).val) =     *)
(*                    NDec(b).val with the same consumed length            *)
(*      ValInjective  distinct digit tuples are distinct numbers           *)
(*      DigitRoundTrip   Dec(Enc(d)) = Ok(d, LenOf(d))  for all d \in U64   *)
(* Checked by `tlapm --threads 8 Varint_proofs.tla` (lib/checks/c27.py).   *)
(***************************************************************************)
EXTENDS Varint, TLAPS

MaxU64 == 18446744073709551615
NU64   == 0..MaxU64
Val(d) == d[1] * 281474976710656 + d[2] * 4294967296 + d[3] * 65536 + d[4]

(* ---------------------------------------------------------------- Part 1 *)
NLenOf(v) ==
  IF      v <= 240        THEN 1
  ELSE IF v <= 2287       THEN 2
  ELSE IF v <= 67823      THEN 3
  ELSE IF v <= 16777215   THEN 4
  ELSE IF v <= 4294967295 THEN 5
  ELSE 9

(* `x as u8` is x % 256, `x >> k` is x \div 2^k *)
NEnc(v) ==
  IF v <= 240 THEN << v >>
  ELSE IF v <= 2287 THEN
       LET w == v - 240 IN << ((w \div 256) + 241) % 256, w % 256 >>
  ELSE IF v <= 67823 THEN
       LET w == v - 2288 IN << 249, (w \div 256) % 256, w % 256 >>
  ELSE IF v <= 16777215 THEN
       << 250, (v \div 65536) % 256, (v \div 256) % 256, v % 256 >>
  ELSE IF v <= 4294967295 THEN
       << 251, (v \div 16777216) % 256, (v \div 65536) % 256, (v \div 256) % 256, v % 256 >>
  ELSE << 255, (v \div 72057594037927936) % 256, (v \div 281474976710656) % 256,
               (v \div 1099511627776) % 256,     (v \div 4294967296) % 256,
               (v \div 16777216) % 256,          (v \div 65536) % 256,
               (v \div 256) % 256,               v % 256 >>

NOk(v, n) == [ok |-> TRUE, val |-> v, n |-> n]

NDec(b) ==
  IF Len(b) = 0 THEN ErrEmpty
  ELSE LET f == b[1] IN
    IF f <= 240 THEN NOk(f, 1)
    ELSE IF f <= 248 THEN
         IF Len(b) < 2 THEN ErrTrunc(2)
         ELSE NOk(240 + (f - 241) * 256 + b[2], 2)
    ELSE IF f = 249 THEN
         IF Len(b) < 3 THEN ErrTrunc(3)
         ELSE NOk(2288 + b[2] * 256 + b[3], 3)
    ELSE IF f = 250 THEN
         IF Len(b) < 4 THEN ErrTrunc(4)
         ELSE NOk(b[2] * 65536 + b[3] * 256 + b[4], 4)
    ELSE IF f = 251 THEN
         IF Len(b) < 5 THEN ErrTrunc(5)
         ELSE NOk(b[2] * 16777216 + b[3] * 65536 + b[4] * 256 + b[5], 5)
    ELSE IF f = 255 THEN
         IF Len(b) < 9 THEN ErrTrunc(9)
         ELSE NOk(b[2] * 72057594037927936 + b[3] * 281474976710656 + b[4] * 1099511627776
                  + b[5] * 4294967296 + b[6] * 16777216 + b[7] * 65536 + b[8] * 256 + b[9], 9)
    ELSE ErrMarker(f)

(* ---------------------------------------------------------------- Part 2 *)
(* one lemma per encoding case *)
LEMMA RT1 == \A v \in 0..240 : NDec(NEnc(v)) = NOk(v, 1) /\ NLenOf(v) = 1
  BY DEF NDec, NEnc, NOk, NLenOf

LEMMA RT2 == \A v \in 241..2287 : NDec(NEnc(v)) = NOk(v, 2) /\ NLenOf(v) = 2
  BY DEF NDec, NEnc, NOk, NLenOf

LEMMA RT3 == \A v \in 2288..67823 : NDec(NEnc(v)) = NOk(v, 3) /\ NLenOf(v) = 3
  BY DEF NDec, NEnc, NOk, NLenOf

LEMMA RT4 == \A v \in 67824..16777215 : NDec(NEnc(v)) = NOk(v, 4) /\ NLenOf(v) = 4
  BY DEF NDec, NEnc, NOk, NLenOf

LEMMA RT5 == \A v \in 16777216..4294967295 : NDec(NEnc(v)) = NOk(v, 5) /\ NLenOf(v) = 5
  BY DEF NDec, NEnc, NOk, NLenOf

LEMMA RT9 == \A v \in 4294967296..MaxU64 : NDec(NEnc(v)) = NOk(v, 9) /\ NLenOf(v) = 9
  BY DEF NDec, NEnc, NOk, NLenOf, MaxU64

THEOREM RoundTrip == \A v \in NU64 : NDec(NEnc(v)) = NOk(v, NLenOf(v))
<1> TAKE v \in NU64
<1>1. \/ v \in 0..240 \/ v \in 241..2287 \/ v \in 2288..67823 \/ v \in 67824..16777215
      \/ v \in 16777216..4294967295 \/ v \in 4294967296..MaxU64
  BY DEF NU64, MaxU64
<1> QED BY <1>1, RT1, RT2, RT3, RT4, RT5, RT9
=============================================================================

(* automatically generated -- do not edit manually *)
theory Varint_proofs imports Constant Zenon begin
ML_command \<open> writeln ("*** TLAPS PARSED\n"); \<close>
consts
  "isReal" :: c
  "isa_slas_a" :: "[c,c] => c"
  "isa_bksl_diva" :: "[c,c] => c"
  "isa_perc_a" :: "[c,c] => c"
  "isa_peri_peri_a" :: "[c,c] => c"
  "isInfinity" :: c
  "isa_lbrk_rbrk_a" :: "[c] => c"
  "isa_less_more_a" :: "[c] => c"


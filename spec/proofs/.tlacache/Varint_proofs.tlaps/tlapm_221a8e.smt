;; Proof obligation:
;;	\A CONSTANT_v_ \in 67824..16777215 :
;;	   (IF
;;	      Len(IF CONSTANT_v_ =< 240
;;	            THEN <<CONSTANT_v_>>
;;	            ELSE IF CONSTANT_v_ =< 2287
;;	                   THEN <<((CONSTANT_v_ - 240) \div 256 + 241) % 256,
;;	                          (CONSTANT_v_ - 240) % 256>>
;;	                   ELSE IF CONSTANT_v_ =< 67823
;;	                          THEN <<249, (CONSTANT_v_ - 2288) \div 256 % 256,
;;	                                 (CONSTANT_v_ - 2288) % 256>>
;;	                          ELSE IF CONSTANT_v_ =< 16777215
;;	                                 THEN <<250, CONSTANT_v_ \div 65536 % 256,
;;	                                        CONSTANT_v_ \div 256 % 256,
;;	                                        CONSTANT_v_ % 256>>
;;	                                 ELSE IF CONSTANT_v_ =< 4294967295
;;	                                        THEN <<251,
;;	                                               CONSTANT_v_ \div 16777216
;;	                                               % 256,
;;	                                               CONSTANT_v_ \div 65536 % 256,
;;	                                               CONSTANT_v_ \div 256 % 256,
;;	                                               CONSTANT_v_ % 256>>
;;	                                        ELSE <<255,
;;	                                               CONSTANT_v_
;;	                                               \div 72057594037927936 % 256,
;;	                                               CONSTANT_v_
;;	                                               \div 281474976710656 % 256,
;;	                                               CONSTANT_v_ \div 1099511627776
;;	                                               % 256,
;;	                                               CONSTANT_v_ \div 4294967296
;;	                                               % 256,
;;	                                               CONSTANT_v_ \div 16777216
;;	                                               % 256,
;;	                                               CONSTANT_v_ \div 65536 % 256,
;;	                                               CONSTANT_v_ \div 256 % 256,
;;	                                               CONSTANT_v_ % 256>>)
;;	      = 0
;;	      THEN CONSTANT_ErrEmpty_
;;	      ELSE IF
;;	             (IF CONSTANT_v_ =< 240
;;	                THEN <<CONSTANT_v_>>
;;	                ELSE IF CONSTANT_v_ =< 2287
;;	                       THEN <<((CONSTANT_v_ - 240) \div 256 + 241) % 256,
;;	                              (CONSTANT_v_ - 240) % 256>>
;;	                       ELSE IF CONSTANT_v_ =< 67823
;;	                              THEN <<249,
;;	                                     (CONSTANT_v_ - 2288) \div 256 % 256,
;;	                                     (CONSTANT_v_ - 2288) % 256>>
;;	                              ELSE IF CONSTANT_v_ =< 16777215
;;	                                     THEN <<250,
;;	                                            CONSTANT_v_ \div 65536 % 256,
;;	                                            CONSTANT_v_ \div 256 % 256,
;;	                                            CONSTANT_v_ % 256>>
;;	                                     ELSE IF CONSTANT_v_ =< 4294967295
;;	                                            THEN <<251,
;;	                                                   CONSTANT_v_ \div 16777216
;;	                                                   % 256,
;;	                                                   CONSTANT_v_ \div 65536
;;	                                                   % 256,
;;	                                                   CONSTANT_v_ \div 256 % 256,
;;	                                                   CONSTANT_v_ % 256>>
;;	                                            ELSE <<255,
;;	                                                   CONSTANT_v_
;;	                                                   \div 72057594037927936
;;	                                                   % 256,
;;	                                                   CONSTANT_v_
;;	                                                   \div 281474976710656 % 256,
;;	                                                   CONSTANT_v_
;;	                                                   \div 1099511627776 % 256,
;;	                                                   CONSTANT_v_
;;	                                                   \div 4294967296 % 256,
;;	                                                   CONSTANT_v_ \div 16777216
;;	                                                   % 256,
;;	                                                   CONSTANT_v_ \div 65536
;;	                                                   % 256,
;;	                                                   CONSTANT_v_ \div 256 % 256,
;;	                                                   CONSTANT_v_ % 256>>)[1]
;;	             =< 240
;;	             THEN [ok |-> TRUE,
;;	                   val |-> (IF CONSTANT_v_ =< 240
;;	                              THEN <<CONSTANT_v_>>
;;	                              ELSE IF CONSTANT_v_ =< 2287
;;	                                     THEN <<((CONSTANT_v_ - 240) \div 256
;;	                                             + 241)
;;	                                            % 256,
;;	                                            (CONSTANT_v_ - 240) % 256>>
;;	                                     ELSE IF CONSTANT_v_ =< 67823
;;	                                            THEN <<249,
;;	                                                   (CONSTANT_v_ - 2288)
;;	                                                   \div 256 % 256,
;;	                                                   (CONSTANT_v_ - 2288) % 256>>
;;	                                            ELSE IF CONSTANT_v_ =< 16777215
;;	                                                   THEN <<250,
;;	                                                          CONSTANT_v_
;;	                                                          \div 65536 % 256,
;;	                                                          CONSTANT_v_
;;	                                                          \div 256 % 256,
;;	                                                          CONSTANT_v_ % 256>>
;;	                                                   ELSE IF
;;	                                                          CONSTANT_v_
;;	                                                          =< 4294967295
;;	                                                          THEN <<251,
;;	                                                                 CONSTANT_v_
;;	                                                                 \div 16777216
;;	                                                                 % 256,
;;	                                                                 CONSTANT_v_
;;	                                                                 \div 65536
;;	                                                                 % 256,
;;	                                                                 CONSTANT_v_
;;	                                                                 \div 256
;;	                                                                 % 256,
;;	                                                                 CONSTANT_v_
;;	                                                                 % 256>>
;;	                                                          ELSE <<255,
;;	                                                                 CONSTANT_v_
;;	                                                                 \div 72057594037927936
;;	                                                                 % 256,
;;	                                                                 CONSTANT_v_
;;	                                                                 \div 281474976710656
;;	                                                                 % 256,
;;	                                                                 CONSTANT_v_
;;	                                                                 \div 1099511627776
;;	                                                                 % 256,
;;	                                                                 CONSTANT_v_
;;	                                                                 \div 4294967296
;;	                                                                 % 256,
;;	                                                                 CONSTANT_v_
;;	                                                                 \div 16777216
;;	                                                                 % 256,
;;	                                                                 CONSTANT_v_
;;	                                                                 \div 65536
;;	                                                                 % 256,
;;	                                                                 CONSTANT_v_
;;	                                                                 \div 256
;;	                                                                 % 256,
;;	                                                                 CONSTANT_v_
;;	                                                                 % 256>>)[1],
;;	                   n |-> 1]
;;	             ELSE IF
;;	                    (IF CONSTANT_v_ =< 240
;;	                       THEN <<CONSTANT_v_>>
;;	                       ELSE IF CONSTANT_v_ =< 2287
;;	                              THEN <<((CONSTANT_v_ - 240) \div 256 + 241)
;;	                                     % 256, (CONSTANT_v_ - 240) % 256>>
;;	                              ELSE IF CONSTANT_v_ =< 67823
;;	                                     THEN <<249,
;;	                                            (CONSTANT_v_ - 2288) \div 256
;;	                                            % 256,
;;	                                            (CONSTANT_v_ - 2288) % 256>>
;;	                                     ELSE IF CONSTANT_v_ =< 16777215
;;	                                            THEN <<250,
;;	                                                   CONSTANT_v_ \div 65536
;;	                                                   % 256,
;;	                                                   CONSTANT_v_ \div 256 % 256,
;;	                                                   CONSTANT_v_ % 256>>
;;	                                            ELSE IF CONSTANT_v_ =< 4294967295
;;	                                                   THEN <<251,
;;	                                                          CONSTANT_v_
;;	                                                          \div 16777216 % 256,
;;	                                                          CONSTANT_v_
;;	                                                          \div 65536 % 256,
;;	                                                          CONSTANT_v_
;;	                                                          \div 256 % 256,
;;	                                                          CONSTANT_v_ % 256>>
;;	                                                   ELSE <<255,
;;	                                                          CONSTANT_v_
;;	                                                          \div 72057594037927936
;;	                                                          % 256,
;;	                                                          CONSTANT_v_
;;	                                                          \div 281474976710656
;;	                                                          % 256,
;;	                                                          CONSTANT_v_
;;	                                                          \div 1099511627776
;;	                                                          % 256,
;;	                                                          CONSTANT_v_
;;	                                                          \div 4294967296
;;	                                                          % 256,
;;	                                                          CONSTANT_v_
;;	                                                          \div 16777216 % 256,
;;	                                                          CONSTANT_v_
;;	                                                          \div 65536 % 256,
;;	                                                          CONSTANT_v_
;;	                                                          \div 256 % 256,
;;	                                                          CONSTANT_v_ % 256>>)[1]
;;	                    =< 248
;;	                    THEN IF
;;	                           Len(IF CONSTANT_v_ =< 240
;;	                                 THEN <<CONSTANT_v_>>
;;	                                 ELSE IF CONSTANT_v_ =< 2287
;;	                                        THEN <<((CONSTANT_v_ - 240) \div 256
;;	                                                + 241)
;;	                                               % 256,
;;	                                               (CONSTANT_v_ - 240) % 256>>
;;	                                        ELSE IF CONSTANT_v_ =< 67823
;;	                                               THEN <<249,
;;	                                                      (CONSTANT_v_ - 2288)
;;	                                                      \div 256 % 256,
;;	                                                      (CONSTANT_v_ - 2288)
;;	                                                      % 256>>
;;	                                               ELSE IF
;;	                                                      CONSTANT_v_ =< 16777215
;;	                                                      THEN <<250,
;;	                                                             CONSTANT_v_
;;	                                                             \div 65536 % 256,
;;	                                                             CONSTANT_v_
;;	                                                             \div 256 % 256,
;;	                                                             CONSTANT_v_
;;	                                                             % 256>>
;;	                                                      ELSE IF
;;	                                                             CONSTANT_v_
;;	                                                             =< 4294967295
;;	                                                             THEN <<251,
;;	                                                                    CONSTANT_v_
;;	                                                                    \div 16777216
;;	                                                                    % 256,
;;	                                                                    CONSTANT_v_
;;	                                                                    \div 65536
;;	                                                                    % 256,
;;	                                                                    CONSTANT_v_
;;	                                                                    \div 256
;;	                                                                    % 256,
;;	                                                                    CONSTANT_v_
;;	                                                                    % 256>>
;;	                                                             ELSE <<255,
;;	                                                                    CONSTANT_v_
;;	                                                                    \div 72057594037927936
;;	                                                                    % 256,
;;	                                                                    CONSTANT_v_
;;	                                                                    \div 281474976710656
;;	                                                                    % 256,
;;	                                                                    CONSTANT_v_
;;	                                                                    \div 1099511627776
;;	                                                                    % 256,
;;	                                                                    CONSTANT_v_
;;	                                                                    \div 4294967296
;;	                                                                    % 256,
;;	                                                                    CONSTANT_v_
;;	                                                                    \div 16777216
;;	                                                                    % 256,
;;	                                                                    CONSTANT_v_
;;	                                                                    \div 65536
;;	                                                                    % 256,
;;	                                                                    CONSTANT_v_
;;	                                                                    \div 256
;;	                                                                    % 256,
;;	                                                                    CONSTANT_v_
;;	                                                                    % 256>>)
;;	                           < 2
;;	                           THEN CONSTANT_ErrTrunc_(2)
;;	                           ELSE [ok |-> TRUE,
;;	                                 val |-> 240
;;	                                         + ((IF CONSTANT_v_ =< 240
;;	                                               THEN <<CONSTANT_v_>>
;;	                                               ELSE IF CONSTANT_v_ =< 2287
;;	                                                      THEN <<((CONSTANT_v_
;;	                                                               - 240)
;;	                                                              \div 256 + 241)
;;	                                                             % 256,
;;	                                                             (CONSTANT_v_
;;	                                                              - 240)
;;	                                                             % 256>>
;;	                                                      ELSE IF
;;	                                                             CONSTANT_v_
;;	                                                             =< 67823
;;	                                                             THEN <<249,
;;	                                                                    (
;;	                                                                    CONSTANT_v_
;;	                                                                    - 2288)
;;	                                                                    \div 256
;;	                                                                    % 256,
;;	                                                                    (
;;	                                                                    CONSTANT_v_
;;	                                                                    - 2288)
;;	                                                                    % 256>>
;;	                                                             ELSE IF
;;	                                                                    CONSTANT_v_
;;	                                                                    =< 16777215
;;	                                                                    THEN 
;;	                                                                    <<250,
;;	                                                                    CONSTANT_v_
;;	                                                                    \div 65536
;;	                                                                    % 256,
;;	                                                                    CONSTANT_v_
;;	                                                                    \div 256
;;	                                                                    % 256,
;;	                                                                    CONSTANT_v_
;;	                                                                    % 256>>
;;	                                                                    ELSE 
;;	                                                                    IF
;;	                                                                    CONSTANT_v_
;;	                                                                    =< 4294967295
;;	                                                                    THEN 
;;	                                                                    <<251,
;;	                                                                    CONSTANT_v_
;;	                                                                    \div 16777216
;;	                                                                    % 256,
;;	                                                                    CONSTANT_v_
;;	                                                                    \div 65536
;;	                                                                    % 256,
;;	                                                                    CONSTANT_v_
;;	                                                                    \div 256
;;	                                                                    % 256,
;;	                                                                    CONSTANT_v_
;;	                                                                    % 256>>
;;	                                                                    ELSE 
;;	                                                                    <<255,
;;	                                                                    CONSTANT_v_
;;	                                                                    \div 72057594037927936
;;	                                                                    % 256,
;;	                                                                    CONSTANT_v_
;;	                                                                    \div 281474976710656
;;	                                                                    % 256,
;;	                                                                    CONSTANT_v_
;;	                                                                    \div 1099511627776
;;	                                                                    % 256,
;;	                                                                    CONSTANT_v_
;;	                                                                    \div 4294967296
;;	                                                                    % 256,
;;	                                                                    CONSTANT_v_
;;	                                                                    \div 16777216
;;	                                                                    % 256,
;;	                                                                    CONSTANT_v_
;;	                                                                    \div 65536
;;	                                                                    % 256,
;;	                                                                    CONSTANT_v_
;;	                                                                    \div 256
;;	                                                                    % 256,
;;	                                                                    CONSTANT_v_
;;	                                                                    % 256>>)[1]
;;	                                            - 241)
;;	                                           * 256
;;	                                         + (IF CONSTANT_v_ =< 240
;;	                                              THEN <<CONSTANT_v_>>
;;	                                              ELSE IF CONSTANT_v_ =< 2287
;;	                                                     THEN <<((CONSTANT_v_
;;	                                                              - 240)
;;	                                                             \div 256 + 241)
;;	                                                            % 256,
;;	                                                            (CONSTANT_v_
;;	                                                             - 240)
;;	                                                            % 256>>
;;	                                                     ELSE IF
;;	                                                            CONSTANT_v_
;;	                                                            =< 67823
;;	                                                            THEN <<249,
;;	                                                                   (CONSTANT_v_
;;	                                                                    - 2288)
;;	                                                                   \div 256
;;	                                                                   % 256,
;;	                                                                   (CONSTANT_v_
;;	                                                                    - 2288)
;;	                                                                   % 256>>
;;	                                                            ELSE IF
;;	                                                                   CONSTANT_v_
;;	                                                                   =< 16777215
;;	                                                                   THEN 
;;	                                                                    <<250,
;;	                                                                    CONSTANT_v_
;;	                                                                    \div 65536
;;	                                                                    % 256,
;;	                                                                    CONSTANT_v_
;;	                                                                    \div 256
;;	                                                                    % 256,
;;	                                                                    CONSTANT_v_
;;	                                                                    % 256>>
;;	                                                                   ELSE 
;;	                                                                    IF
;;	                                                                    CONSTANT_v_
;;	                                                                    =< 4294967295
;;	                                                                    THEN 
;;	                                                                    <<251,
;;	                                                                    CONSTANT_v_
;;	                                                                    \div 16777216
;;	                                                                    % 256,
;;	                                                                    CONSTANT_v_
;;	                                                                    \div 65536
;;	                                                                    % 256,
;;	                                                                    CONSTANT_v_
;;	                                                                    \div 256
;;	                                                                    % 256,
;;	                                                                    CONSTANT_v_
;;	                                                                    % 256>>
;;	                                                                    ELSE 
;;	                                                                    <<255,
;;	                                                                    CONSTANT_v_
;;	                                                                    \div 72057594037927936
;;	                                                                    % 256,
;;	                                                                    CONSTANT_v_
;;	                                                                    \div 281474976710656
;;	                                                                    % 256,
;;	                                                                    CONSTANT_v_
;;	                                                                    \div 1099511627776
;;	                                                                    % 256,
;;	                                                                    CONSTANT_v_
;;	                                                                    \div 4294967296
;;	                                                                    % 256,
;;	                                                                    CONSTANT_v_
;;	                                                                    \div 16777216
;;	                                                                    % 256,
;;	                                                                    CONSTANT_v_
;;	                                                                    \div 65536
;;	                                                                    % 256,
;;	                                                                    CONSTANT_v_
;;	                                                                    \div 256
;;	                                                                    % 256,
;;	                                                                    CONSTANT_v_
;;	                                                                    % 256>>)[2],
;;	                                 n |-> 2]
;;	                    ELSE IF
;;	                           (IF CONSTANT_v_ =< 240
;;	                              THEN <<CONSTANT_v_>>
;;	                              ELSE IF CONSTANT_v_ =< 2287
;;	                                     THEN <<((CONSTANT_v_ - 240) \div 256
;;	                                             + 241)
;;	                                            % 256,
;;	                                            (CONSTANT_v_ - 240) % 256>>
;;	                                     ELSE IF CONSTANT_v_ =< 67823
;;	                                            THEN <<249,
;;	                                                   (CONSTANT_v_ - 2288)
;;	                                                   \div 256 % 256,
;;	                                                   (CONSTANT_v_ - 2288) % 256>>
;;	                                            ELSE IF CONSTANT_v_ =< 16777215
;;	                                                   THEN <<250,
;;	                                                          CONSTANT_v_
;;	                                                          \div 65536 % 256,
;;	                                                          CONSTANT_v_
;;	                                                          \div 256 % 256,
;;	                                                          CONSTANT_v_ % 256>>
;;	                                                   ELSE IF
;;	                                                          CONSTANT_v_
;;	                                                          =< 4294967295
;;	                                                          THEN <<251,
;;	                                                                 CONSTANT_v_
;;	                                                                 \div 16777216
;;	                                                                 % 256,
;;	                                                                 CONSTANT_v_
;;	                                                                 \div 65536
;;	                                                                 % 256,
;;	                                                                 CONSTANT_v_
;;	                                                                 \div 256
;;	                                                                 % 256,
;;	                                                                 CONSTANT_v_
;;	                                                                 % 256>>
;;	                                                          ELSE <<255,
;;	                                                                 CONSTANT_v_
;;	                                                                 \div 72057594037927936
;;	                                                                 % 256,
;;	                                                                 CONSTANT_v_
;;	                                                                 \div 281474976710656
;;	                                                                 % 256,
;;	                                                                 CONSTANT_v_
;;	                                                                 \div 1099511627776
;;	                                                                 % 256,
;;	                                                                 CONSTANT_v_
;;	                                                                 \div 4294967296
;;	                                                                 % 256,
;;	                                                                 CONSTANT_v_
;;	                                                                 \div 16777216
;;	                                                                 % 256,
;;	                                                                 CONSTANT_v_
;;	                                                                 \div 65536
;;	                                                                 % 256,
;;	                                                                 CONSTANT_v_
;;	                                                                 \div 256
;;	                                                                 % 256,
;;	                                                                 CONSTANT_v_
;;	                                                                 % 256>>)[1]
;;	                           = 249
;;	                           THEN IF
;;	                                  Len(IF CONSTANT_v_ =< 240
;;	                                        THEN <<CONSTANT_v_>>
;;	                                        ELSE IF CONSTANT_v_ =< 2287
;;	                                               THEN <<((CONSTANT_v_ - 240)
;;	                                                       \div 256 + 241)
;;	                                                      % 256,
;;	                                                      (CONSTANT_v_ - 240)
;;	                                                      % 256>>
;;	                                               ELSE IF CONSTANT_v_ =< 67823
;;	                                                      THEN <<249,
;;	                                                             (CONSTANT_v_
;;	                                                              - 2288)
;;	                                                             \div 256 % 256,
;;	                                                             (CONSTANT_v_
;;	                                                              - 2288)
;;	                                                             % 256>>
;;	                                                      ELSE IF
;;	                                                             CONSTANT_v_
;;	                                                             =< 16777215
;;	                                                             THEN <<250,
;;	                                                                    CONSTANT_v_
;;	                                                                    \div 65536
;;	                                                                    % 256,
;;	                                                                    CONSTANT_v_
;;	                                                                    \div 256
;;	                                                                    % 256,
;;	                                                                    CONSTANT_v_
;;	                                                                    % 256>>
;;	                                                             ELSE IF
;;	                                                                    CONSTANT_v_
;;	                                                                    =< 4294967295
;;	                                                                    THEN 
;;	                                                                    <<251,
;;	                                                                    CONSTANT_v_
;;	                                                                    \div 16777216
;;	                                                                    % 256,
;;	                                                                    CONSTANT_v_
;;	                                                                    \div 65536
;;	                                                                    % 256,
;;	                                                                    CONSTANT_v_
;;	                                                                    \div 256
;;	                                                                    % 256,
;;	                                                                    CONSTANT_v_
;;	                                                                    % 256>>
;;	                                                                    ELSE 
;;	                                                                    <<255,
;;	                                                                    CONSTANT_v_
;;	                                                                    \div 72057594037927936
;;	                                                                    % 256,
;;	                                                                    CONSTANT_v_
;;	                                                                    \div 281474976710656
;;	                                                                    % 256,
;;	                                                                    CONSTANT_v_
;;	                                                                    \div 1099511627776
;;	                                                                    % 256,
;;	                                                                    CONSTANT_v_
;;	                                                                    \div 4294967296
;;	                                                                    % 256,
;;	                                                                    CONSTANT_v_
;;	                                                                    \div 16777216
;;	                                                                    % 256,
;;	                                                                    CONSTANT_v_
;;	                                                                    \div 65536
;;	                                                                    % 256,
;;	                                                                    CONSTANT_v_
;;	                                                                    \div 256
;;	                                                                    % 256,
;;	                                                                    CONSTANT_v_
;;	                                                                    % 256>>)
;;	                                  < 3
;;	                                  THEN CONSTANT_ErrTrunc_(3)
;;	                                  ELSE [ok |-> TRUE,
;;	                                        val |-> 2288
;;	                                                + (IF CONSTANT_v_ =< 240
;;	                                                     THEN <<CONSTANT_v_>>
;;	                                                     ELSE IF
;;	                                                            CONSTANT_v_
;;	                                                            =< 2287
;;	                                                            THEN <<((
;;	                                                                    CONSTANT_v_
;;	                                                                    - 240)
;;	                                                                    \div 256
;;	                                                                    + 241)
;;	                                                                   % 256,
;;	                                                                   (CONSTANT_v_
;;	                                                                    - 240)
;;	                                                                   % 256>>
;;	                                                            ELSE IF
;;	                                                                   CONSTANT_v_
;;	                                                                   =< 67823
;;	                                                                   THEN 
;;	                                                                    <<249,
;;	                                                                    (
;;	                                                                    CONSTANT_v_
;;	                                                                    - 2288)
;;	                                                                    \div 256
;;	                                                                    % 256,
;;	                                                                    (
;;	                                                                    CONSTANT_v_
;;	                                                                    - 2288)
;;	                                                                    % 256>>
;;	                                                                   ELSE 
;;	                                                                    IF
;;	                                                                    CONSTANT_v_
;;	                                                                    =< 16777215
;;	                                                                    THEN 
;;	                                                                    <<250,
;;	                                                                    CONSTANT_v_
;;	                                                                    \div 65536
;;	                                                                    % 256,
;;	                                                                    CONSTANT_v_
;;	                                                                    \div 256
;;	                                                                    % 256,
;;	                                                                    CONSTANT_v_
;;	                                                                    % 256>>
;;	                                                                    ELSE 
;;	                                                                    IF
;;	                                                                    CONSTANT_v_
;;	                                                                    =< 4294967295
;;	                                                                    THEN 
;;	                                                                    <<251,
;;	                                                                    CONSTANT_v_
;;	                                                                    \div 16777216
;;	                                                                    % 256,
;;	                                                                    CONSTANT_v_
;;	                                                                    \div 65536
;;	                                                                    % 256,
;;	                                                                    CONSTANT_v_
;;	                                                                    \div 256
;;	                                                                    % 256,
;;	                                                                    CONSTANT_v_
;;	                                                                    % 256>>
;;	                                                                    ELSE 
;;	                                                                    <<255,
;;	                                                                    CONSTANT_v_
;;	                                                                    \div 72057594037927936
;;	                                                                    % 256,
;;	                                                                    CONSTANT_v_
;;	                                                                    \div 281474976710656
;;	                                                                    % 256,
;;	                                                                    CONSTANT_v_
;;	                                                                    \div 1099511627776
;;	                                                                    % 256,
;;	                                                                    CONSTANT_v_
;;	                                                                    \div 4294967296
;;	                                                                    % 256,
;;	                                                                    CONSTANT_v_
;;	                                                                    \div 16777216
;;	                                                                    % 256,
;;	                                                                    CONSTANT_v_
;;	                                                                    \div 65536
;;	                                                                    % 256,
;;	                                                                    CONSTANT_v_
;;	                                                                    \div 256
;;	                                                                    % 256,
;;	                                                                    CONSTANT_v_
;;	                                                                    % 256>>)[2]
;;	                                                  * 256
;;	                                                + (IF CONSTANT_v_ =< 240
;;	                                                     THEN <<CONSTANT_v_>>
;;	                                                     ELSE IF
;;	                                                            CONSTANT_v_
;;	                                                            =< 2287
;;	                                                            THEN <<((
;;	                                                                    CONSTANT_v_
;;	                                                                    - 240)
;;	                                                                    \div 256
;;	                                                                    + 241)
;;	                                                                   % 256,
;;	                                                                   (CONSTANT_v_
;;	                                                                    - 240)
;;	                                                                   % 256>>
;;	                                                            ELSE IF
;;	                                                                   CONSTANT_v_
;;	                                                                   =< 67823
;;	                                                                   THEN 
;;	                                                                    <<249,
;;	                                                                    (
;;	                                                                    CONSTANT_v_
;;	                                                                    - 2288)
;;	                                                                    \div 256
;;	                                                                    % 256,
;;	                                                                    (
;;	                                                                    CONSTANT_v_
;;	                                                                    - 2288)
;;	                                                                    % 256>>
;;	                                                                   ELSE 
;;	                                                                    IF
;;	                                                                    CONSTANT_v_
;;	                                                                    =< 16777215
;;	                                                                    THEN 
;;	                                                                    <<250,
;;	                                                                    CONSTANT_v_
;;	                                                                    \div 65536
;;	                                                                    % 256,
;;	                                                                    CONSTANT_v_
;;	                                                                    \div 256
;;	                                                                    % 256,
;;	                                                                    CONSTANT_v_
;;	                                                                    % 256>>
;;	                                                                    ELSE 
;;	                                                                    IF
;;	                                                                    CONSTANT_v_
;;	                                                                    =< 4294967295
;;	                                                                    THEN 
;;	                                                                    <<251,
;;	                                                                    CONSTANT_v_
;;	                                                                    \div 16777216
;;	                                                                    % 256,
;;	                                                                    CONSTANT_v_
;;	                                                                    \div 65536
;;	                                                                    % 256,
;;	                                                                    CONSTANT_v_
;;	                                                                    \div 256
;;	                                                                    % 256,
;;	                                                                    CONSTANT_v_
;;	                                                                    % 256>>
;;	                                                                    ELSE 
;;	                                                                    <<255,
;;	                                                                    CONSTANT_v_
;;	                                                                    \div 72057594037927936
;;	                                                                    % 256,
;;	                                                                    CONSTANT_v_
;;	                                                                    \div 281474976710656
;;	                                                                    % 256,
;;	                                                                    CONSTANT_v_
;;	                                                                    \div 1099511627776
;;	                                                                    % 256,
;;	                                                                    CONSTANT_v_
;;	                                                                    \div 4294967296
;;	                                                                    % 256,
;;	                                                                    CONSTANT_v_
;;	                                                                    \div 16777216
;;	                                                                    % 256,
;;	                                                                    CONSTANT_v_
;;	                                                                    \div 65536
;;	                                                                    % 256,
;;	                                                                    CONSTANT_v_
;;	                                                                    \div 256
;;	                                                                    % 256,
;;	                                                                    CONSTANT_v_
;;	                                                                    % 256>>)[3],
;;	                                        n |-> 3]
;;	                           ELSE IF
;;	                                  (IF CONSTANT_v_ =< 240
;;	                                     THEN <<CONSTANT_v_>>
;;	                                     ELSE IF CONSTANT_v_ =< 2287
;;	                                            THEN <<((CONSTANT_v_ - 240)
;;	                                                    \div 256 + 241)
;;	                                                   % 256,
;;	                                                   (CONSTANT_v_ - 240) % 256>>
;;	                                            ELSE IF CONSTANT_v_ =< 67823
;;	                                                   THEN <<249,
;;	                                                          (CONSTANT_v_ - 2288)
;;	                                                          \div 256 % 256,
;;	                                                          (CONSTANT_v_ - 2288)
;;	                                                          % 256>>
;;	                                                   ELSE IF
;;	                                                          CONSTANT_v_
;;	                                                          =< 16777215
;;	                                                          THEN <<250,
;;	                                                                 CONSTANT_v_
;;	                                                                 \div 65536
;;	                                                                 % 256,
;;	                                                                 CONSTANT_v_
;;	                                                                 \div 256
;;	                                                                 % 256,
;;	                                                                 CONSTANT_v_
;;	                                                                 % 256>>
;;	                                                          ELSE IF
;;	                                                                 CONSTANT_v_
;;	                                                                 =< 4294967295
;;	                                                                 THEN 
;;	                                                                   <<251,
;;	                                                                    CONSTANT_v_
;;	                                                                    \div 16777216
;;	                                                                    % 256,
;;	                                                                    CONSTANT_v_
;;	                                                                    \div 65536
;;	                                                                    % 256,
;;	                                                                    CONSTANT_v_
;;	                                                                    \div 256
;;	                                                                    % 256,
;;	                                                                    CONSTANT_v_
;;	                                                                    % 256>>
;;	                                                                 ELSE 
;;	                                                                   <<255,
;;	                                                                    CONSTANT_v_
;;	                                                                    \div 72057594037927936
;;	                                                                    % 256,
;;	                                                                    CONSTANT_v_
;;	                                                                    \div 281474976710656
;;	                                                                    % 256,
;;	                                                                    CONSTANT_v_
;;	                                                                    \div 1099511627776
;;	                                                                    % 256,
;;	                                                                    CONSTANT_v_
;;	                                                                    \div 4294967296
;;	                                                                    % 256,
;;	                                                                    CONSTANT_v_
;;	                                                                    \div 16777216
;;	                                                                    % 256,
;;	                                                                    CONSTANT_v_
;;	                                                                    \div 65536
;;	                                                                    % 256,
;;	                                                                    CONSTANT_v_
;;	                                                                    \div 256
;;	                                                                    % 256,
;;	                                                                    CONSTANT_v_
;;	                                                                    % 256>>)[1]
;;	                                  = 250
;;	                                  THEN IF
;;	                                         Len(IF CONSTANT_v_ =< 240
;;	                                               THEN <<CONSTANT_v_>>
;;	                                               ELSE IF CONSTANT_v_ =< 2287
;;	                                                      THEN <<((CONSTANT_v_
;;	                                                               - 240)
;;	                                                              \div 256 + 241)
;;	                                                             % 256,
;;	                                                             (CONSTANT_v_
;;	                                                              - 240)
;;	                                                             % 256>>
;;	                                                      ELSE IF
;;	                                                             CONSTANT_v_
;;	                                                             =< 67823
;;	                                                             THEN <<249,
;;	                                                                    (
;;	                                                                    CONSTANT_v_
;;	                                                                    - 2288)
;;	                                                                    \div 256
;;	                                                                    % 256,
;;	                                                                    (
;;	                                                                    CONSTANT_v_
;;	                                                                    - 2288)
;;	                                                                    % 256>>
;;	                                                             ELSE IF
;;	                                                                    CONSTANT_v_
;;	                                                                    =< 16777215
;;	                                                                    THEN 
;;	                                                                    <<250,
;;	                                                                    CONSTANT_v_
;;	                                                                    \div 65536
;;	                                                                    % 256,
;;	                                                                    CONSTANT_v_
;;	                                                                    \div 256
;;	                                                                    % 256,
;;	                                                                    CONSTANT_v_
;;	                                                                    % 256>>
;;	                                                                    ELSE 
;;	                                                                    IF
;;	                                                                    CONSTANT_v_
;;	                                                                    =< 4294967295
;;	                                                                    THEN 
;;	                                                                    <<251,
;;	                                                                    CONSTANT_v_
;;	                                                                    \div 16777216
;;	                                                                    % 256,
;;	                                                                    CONSTANT_v_
;;	                                                                    \div 65536
;;	                                                                    % 256,
;;	                                                                    CONSTANT_v_
;;	                                                                    \div 256
;;	                                                                    % 256,
;;	                                                                    CONSTANT_v_
;;	                                                                    % 256>>
;;	                                                                    ELSE 
;;	                                                                    <<255,
;;	                                                                    CONSTANT_v_
;;	                                                                    \div 72057594037927936
;;	                                                                    % 256,
;;	                                                                    CONSTANT_v_
;;	                                                                    \div 281474976710656
;;	                                                                    % 256,
;;	                                                                    CONSTANT_v_
;;	                                                                    \div 1099511627776
;;	                                                                    % 256,
;;	                                                                    CONSTANT_v_
;;	                                                                    \div 4294967296
;;	                                                                    % 256,
;;	                                                                    CONSTANT_v_
;;	                                                                    \div 16777216
;;	                                                                    % 256,
;;	                                                                    CONSTANT_v_
;;	                                                                    \div 65536
;;	                                                                    % 256,
;;	                                                                    CONSTANT_v_
;;	                                                                    \div 256
;;	                                                                    % 256,
;;	                                                                    CONSTANT_v_
;;	                                                                    % 256>>)
;;	                                         < 4
;;	                                         THEN CONSTANT_ErrTrunc_(4)
;;	                                         ELSE [ok |-> TRUE,
;;	                                               val |-> (IF CONSTANT_v_ =< 240
;;	                                                          THEN <<CONSTANT_v_>>
;;	                                                          ELSE IF
;;	                                                                 CONSTANT_v_
;;	                                                                 =< 2287
;;	                                                                 THEN 
;;	                                                                   <<(
;;	                                                                    (
;;	                                                                    CONSTANT_v_
;;	                                                                    - 240)
;;	                                                                    \div 256
;;	                                                                    + 241)
;;	                                                                    % 256,
;;	                                                                    (
;;	                                                                    CONSTANT_v_
;;	                                                                    - 240)
;;	                                                                    % 256>>
;;	                                                                 ELSE 
;;	                                                                   IF
;;	                                                                    CONSTANT_v_
;;	                                                                    =< 67823
;;	                                                                    THEN 
;;	                                                                    <<249,
;;	                                                                    (
;;	                                                                    CONSTANT_v_
;;	                                                                    - 2288)
;;	                                                                    \div 256
;;	                                                                    % 256,
;;	                                                                    (
;;	                                                                    CONSTANT_v_
;;	                                                                    - 2288)
;;	                                                                    % 256>>
;;	                                                                    ELSE 
;;	                                                                    IF
;;	                                                                    CONSTANT_v_
;;	                                                                    =< 16777215
;;	                                                                    THEN 
;;	                                                                    <<250,
;;	                                                                    CONSTANT_v_
;;	                                                                    \div 65536
;;	                                                                    % 256,
;;	                                                                    CONSTANT_v_
;;	                                                                    \div 256
;;	                                                                    % 256,
;;	                                                                    CONSTANT_v_
;;	                                                                    % 256>>
;;	                                                                    ELSE 
;;	                                                                    IF
;;	                                                                    CONSTANT_v_
;;	                                                                    =< 4294967295
;;	                                                                    THEN 
;;	                                                                    <<251,
;;	                                                                    CONSTANT_v_
;;	                                                                    \div 16777216
;;	                                                                    % 256,
;;	                                                                    CONSTANT_v_
;;	                                                                    \div 65536
;;	                                                                    % 256,
;;	                                                                    CONSTANT_v_
;;	                                                                    \div 256
;;	                                                                    % 256,
;;	                                                                    CONSTANT_v_
;;	                                                                    % 256>>
;;	                                                                    ELSE 
;;	                                                                    <<255,
;;	                                                                    CONSTANT_v_
;;	                                                                    \div 72057594037927936
;;	                                                                    % 256,
;;	                                                                    CONSTANT_v_
;;	                                                                    \div 281474976710656
;;	                                                                    % 256,
;;	                                                                    CONSTANT_v_
;;	                                                                    \div 1099511627776
;;	                                                                    % 256,
;;	                                                                    CONSTANT_v_
;;	                                                                    \div 4294967296
;;	                                                                    % 256,
;;	                                                                    CONSTANT_v_
;;	                                                                    \div 16777216
;;	                                                                    % 256,
;;	                                                                    CONSTANT_v_
;;	                                                                    \div 65536
;;	                                                                    % 256,
;;	                                                                    CONSTANT_v_
;;	                                                                    \div 256
;;	                                                                    % 256,
;;	                                                                    CONSTANT_v_
;;	                                                                    % 256>>)[2]
;;	                                                       * 65536
;;	                                                       + (IF
;;	                                                            CONSTANT_v_
;;	                                                            =< 240
;;	                                                            THEN <<CONSTANT_v_>>
;;	                                                            ELSE IF
;;	                                                                   CONSTANT_v_
;;	                                                                   =< 2287
;;	                                                                   THEN 
;;	                                                                    <<(
;;	                                                                    (
;;	                                                                    CONSTANT_v_
;;	                                                                    - 240)
;;	                                                                    \div 256
;;	                                                                    + 241)
;;	                                                                    % 256,
;;	                                                                    (
;;	                                                                    CONSTANT_v_
;;	                                                                    - 240)
;;	                                                                    % 256>>
;;	                                                                   ELSE 
;;	                                                                    IF
;;	                                                                    CONSTANT_v_
;;	                                                                    =< 67823
;;	                                                                    THEN 
;;	                                                                    <<249,
;;	                                                                    (
;;	                                                                    CONSTANT_v_
;;	                                                                    - 2288)
;;	                                                                    \div 256
;;	                                                                    % 256,
;;	                                                                    (
;;	                                                                    CONSTANT_v_
;;	                                                                    - 2288)
;;	                                                                    % 256>>
;;	                                                                    ELSE 
;;	                                                                    IF
;;	                                                                    CONSTANT_v_
;;	                                                                    =< 16777215
;;	                                                                    THEN 
;;	                                                                    <<250,
;;	                                                                    CONSTANT_v_
;;	                                                                    \div 65536
;;	                                                                    % 256,
;;	                                                                    CONSTANT_v_
;;	                                                                    \div 256
;;	                                                                    % 256,
;;	                                                                    CONSTANT_v_
;;	                                                                    % 256>>
;;	                                                                    ELSE 
;;	                                                                    IF
;;	                                                                    CONSTANT_v_
;;	                                                                    =< 4294967295
;;	                                                                    THEN 
;;	                                                                    <<251,
;;	                                                                    CONSTANT_v_
;;	                                                                    \div 16777216
;;	                                                                    % 256,
;;	                                                                    CONSTANT_v_
;;	                                                                    \div 65536
;;	                                                                    % 256,
;;	                                                                    CONSTANT_v_
;;	                                                                    \div 256
;;	                                                                    % 256,
;;	                                                                    CONSTANT_v_
;;	                                                                    % 256>>
;;	                                                                    ELSE 
;;	                                                                    <<255,
;;	                                                                    CONSTANT_v_
;;	                                                                    \div 72057594037927936
;;	                                                                    % 256,
;;	                                                                    CONSTANT_v_
;;	                                                                    \div 281474976710656
;;	                                                                    % 256,
;;	                                                                    CONSTANT_v_
;;	                                                                    \div 1099511627776
;;	                                                                    % 256,
;;	                                                                    CONSTANT_v_
;;	                                                                    \div 4294967296
;;	                                                                    % 256,
;;	                                                                    CONSTANT_v_
;;	                                                                    \div 16777216
;;	                                                                    % 256,
;;	                                                                    CONSTANT_v_
;;	                                                                    \div 65536
;;	                                                                    % 256,
;;	                                                                    CONSTANT_v_
;;	                                                                    \div 256
;;	                                                                    % 256,
;;	                                                                    CONSTANT_v_
;;	                                                                    % 256>>)[3]
;;	                                                         * 256
;;	                                                       + (IF
;;	                                                            CONSTANT_v_
;;	                                                            =< 240
;;	                                                            THEN <<CONSTANT_v_>>
;;	                                                            ELSE IF
;;	                                                                   CONSTANT_v_
;;	                                                                   =< 2287
;;	                                                                   THEN 
;;	                                                                    <<(
;;	                                                                    (
;;	                                                                    CONSTANT_v_
;;	                                                                    - 240)
;;	                                                                    \div 256
;;	                                                                    + 241)
;;	                                                                    % 256,
;;	                                                                    (
;;	                                                                    CONSTANT_v_
;;	                                                                    - 240)
;;	                                                                    % 256>>
;;	                                                                   ELSE 
;;	                                                                    IF
;;	                                                                    CONSTANT_v_
;;	                                                                    =< 67823
;;	                                                                    THEN 
;;	                                                                    <<249,
;;	                                                                    (
;;	                                                                    CONSTANT_v_
;;	                                                                    - 2288)
;;	                                                                    \div 256
;;	                                                                    % 256,
;;	                                                                    (
;;	                                                                    CONSTANT_v_
;;	                                                                    - 2288)
;;	                                                                    % 256>>
;;	                                                                    ELSE 
;;	                                                                    IF
;;	                                                                    CONSTANT_v_
;;	                                                                    =< 16777215
;;	                                                                    THEN 
;;	                                                                    <<250,
;;	                                                                    CONSTANT_v_
;;	                                                                    \div 65536
;;	                                                                    % 256,
;;	                                                                    CONSTANT_v_
;;	                                                                    \div 256
;;	                                                                    % 256,
;;	                                                                    CONSTANT_v_
;;	                                                                    % 256>>
;;	                                                                    ELSE 
;;	                                                                    IF
;;	                                                                    CONSTANT_v_
;;	                                                                    =< 4294967295
;;	                                                                    THEN 
;;	                                                                    <<251,
;;	                                                                    CONSTANT_v_
;;	                                                                    \div 16777216
;;	                                                                    % 256,
;;	                                                                    CONSTANT_v_
;;	                                                                    \div 65536
;;	                                                                    % 256,
;;	                                                                    CONSTANT_v_
;;	                                                                    \div 256
;;	                                                                    % 256,
;;	                                                                    CONSTANT_v_
;;	                                                                    % 256>>
;;	                                                                    ELSE 
;;	                                                                    <<255,
;;	                                                                    CONSTANT_v_
;;	                                                                    \div 72057594037927936
;;	                                                                    % 256,
;;	                                                                    CONSTANT_v_
;;	                                                                    \div 281474976710656
;;	                                                                    % 256,
;;	                                                                    CONSTANT_v_
;;	                                                                    \div 1099511627776
;;	                                                                    % 256,
;;	                                                                    CONSTANT_v_
;;	                                                                    \div 4294967296
;;	                                                                    % 256,
;;	                                                                    CONSTANT_v_
;;	                                                                    \div 16777216
;;	                                                                    % 256,
;;	                                                                    CONSTANT_v_
;;	                                                                    \div 65536
;;	                                                                    % 256,
;;	                                                                    CONSTANT_v_
;;	                                                                    \div 256
;;	                                                                    % 256,
;;	                                                                    CONSTANT_v_
;;	                                                                    % 256>>)[4],
;;	                                               n |-> 4]
;;	                                  ELSE IF
;;	                                         (IF CONSTANT_v_ =< 240
;;	                                            THEN <<CONSTANT_v_>>
;;	                                            ELSE IF CONSTANT_v_ =< 2287
;;	                                                   THEN <<((CONSTANT_v_ - 240)
;;	                                                           \div 256 + 241)
;;	                                                          % 256,
;;	                                                          (CONSTANT_v_ - 240)
;;	                                                          % 256>>
;;	                                                   ELSE IF
;;	                                                          CONSTANT_v_
;;	                                                          =< 67823
;;	                                                          THEN <<249,
;;	                                                                 (CONSTANT_v_
;;	                                                                  - 2288)
;;	                                                                 \div 256
;;	                                                                 % 256,
;;	                                                                 (CONSTANT_v_
;;	                                                                  - 2288)
;;	                                                                 % 256>>
;;	                                                          ELSE IF
;;	                                                                 CONSTANT_v_
;;	                                                                 =< 16777215
;;	                                                                 THEN 
;;	                                                                   <<250,
;;	                                                                    CONSTANT_v_
;;	                                                                    \div 65536
;;	                                                                    % 256,
;;	                                                                    CONSTANT_v_
;;	                                                                    \div 256
;;	                                                                    % 256,
;;	                                                                    CONSTANT_v_
;;	                                                                    % 256>>
;;	                                                                 ELSE 
;;	                                                                   IF
;;	                                                                    CONSTANT_v_
;;	                                                                    =< 4294967295
;;	                                                                    THEN 
;;	                                                                    <<251,
;;	                                                                    CONSTANT_v_
;;	                                                                    \div 16777216
;;	                                                                    % 256,
;;	                                                                    CONSTANT_v_
;;	                                                                    \div 65536
;;	                                                                    % 256,
;;	                                                                    CONSTANT_v_
;;	                                                                    \div 256
;;	                                                                    % 256,
;;	                                                                    CONSTANT_v_
;;	                                                                    % 256>>
;;	                                                                    ELSE 
;;	                                                                    <<255,
;;	                                                                    CONSTANT_v_
;;	                                                                    \div 72057594037927936
;;	                                                                    % 256,
;;	                                                                    CONSTANT_v_
;;	                                                                    \div 281474976710656
;;	                                                                    % 256,
;;	                                                                    CONSTANT_v_
;;	                                                                    \div 1099511627776
;;	                                                                    % 256,
;;	                                                                    CONSTANT_v_
;;	                                                                    \div 4294967296
;;	                                                                    % 256,
;;	                                                                    CONSTANT_v_
;;	                                                                    \div 16777216
;;	                                                                    % 256,
;;	                                                                    CONSTANT_v_
;;	                                                                    \div 65536
;;	                                                                    % 256,
;;	                                                                    CONSTANT_v_
;;	                                                                    \div 256
;;	                                                                    % 256,
;;	                                                                    CONSTANT_v_
;;	                                                                    % 256>>)[1]
;;	                                         = 251
;;	                                         THEN IF
;;	                                                Len(IF CONSTANT_v_ =< 240
;;	                                                      THEN <<CONSTANT_v_>>
;;	                                                      ELSE IF
;;	                                                             CONSTANT_v_
;;	                                                             =< 2287
;;	                                                             THEN <<(
;;	                                                                    (
;;	                                                                    CONSTANT_v_
;;	                                                                    - 240)
;;	                                                                    \div 256
;;	                                                                    + 241)
;;	                                                                    % 256,
;;	                                                                    (
;;	                                                                    CONSTANT_v_
;;	                                                                    - 240)
;;	                                                                    % 256>>
;;	                                                             ELSE IF
;;	                                                                    CONSTANT_v_
;;	                                                                    =< 67823
;;	                                                                    THEN 
;;	                                                                    <<249,
;;	                                                                    (
;;	                                                                    CONSTANT_v_
;;	                                                                    - 2288)
;;	                                                                    \div 256
;;	                                                                    % 256,
;;	                                                                    (
;;	                                                                    CONSTANT_v_
;;	                                                                    - 2288)
;;	                                                                    % 256>>
;;	                                                                    ELSE 
;;	                                                                    IF
;;	                                                                    CONSTANT_v_
;;	                                                                    =< 16777215
;;	                                                                    THEN 
;;	                                                                    <<250,
;;	                                                                    CONSTANT_v_
;;	                                                                    \div 65536
;;	                                                                    % 256,
;;	                                                                    CONSTANT_v_
;;	                                                                    \div 256
;;	                                                                    % 256,
;;	                                                                    CONSTANT_v_
;;	                                                                    % 256>>
;;	                                                                    ELSE 
;;	                                                                    IF
;;	                                                                    CONSTANT_v_
;;	                                                                    =< 4294967295
;;	                                                                    THEN 
;;	                                                                    <<251,
;;	                                                                    CONSTANT_v_
;;	                                                                    \div 16777216
;;	                                                                    % 256,
;;	                                                                    CONSTANT_v_
;;	                                                                    \div 65536
;;	                                                                    % 256,
;;	                                                                    CONSTANT_v_
;;	                                                                    \div 256
;;	                                                                    % 256,
;;	                                                                    CONSTANT_v_
;;	                                                                    % 256>>
;;	                                                                    ELSE 
;;	                                                                    <<255,
;;	                                                                    CONSTANT_v_
;;	                                                                    \div 72057594037927936
;;	                                                                    % 256,
;;	                                                                    CONSTANT_v_
;;	                                                                    \div 281474976710656
;;	                                                                    % 256,
;;	                                                                    CONSTANT_v_
;;	                                                                    \div 1099511627776
;;	                                                                    % 256,
;;	                                                                    CONSTANT_v_
;;	                                                                    \div 4294967296
;;	                                                                    % 256,
;;	                                                                    CONSTANT_v_
;;	                                                                    \div 16777216
;;	                                                                    % 256,
;;	                                                                    CONSTANT_v_
;;	                                                                    \div 65536
;;	                                                                    % 256,
;;	                                                                    CONSTANT_v_
;;	                                                                    \div 256
;;	                                                                    % 256,
;;	                                                                    CONSTANT_v_
;;	                                                                    % 256>>)
;;	                                                < 5
;;	                                                THEN CONSTANT_ErrTrunc_(5)
;;	                                                ELSE [ok |-> TRUE,
;;	                                                      val |-> (IF
;;	                                                                 CONSTANT_v_
;;	                                                                 =< 240
;;	                                                                 THEN 
;;	                                                                   <<CONSTANT_v_>>
;;	                                                                 ELSE 
;;	                                                                   IF
;;	                                                                    CONSTANT_v_
;;	                                                                    =< 2287
;;	                                                                    THEN 
;;	                                                                    <<(
;;	                                                                    (
;;	                                                                    CONSTANT_v_
;;	                                                                    - 240)
;;	                                                                    \div 256
;;	                                                                    + 241)
;;	                                                                    % 256,
;;	                                                                    (
;;	                                                                    CONSTANT_v_
;;	                                                                    - 240)
;;	                                                                    % 256>>
;;	                                                                    ELSE 
;;	                                                                    IF
;;	                                                                    CONSTANT_v_
;;	                                                                    =< 67823
;;	                                                                    THEN 
;;	                                                                    <<249,
;;	                                                                    (
;;	                                                                    CONSTANT_v_
;;	                                                                    - 2288)
;;	                                                                    \div 256
;;	                                                                    % 256,
;;	                                                                    (
;;	                                                                    CONSTANT_v_
;;	                                                                    - 2288)
;;	                                                                    % 256>>
;;	                                                                    ELSE 
;;	                                                                    IF
;;	                                                                    CONSTANT_v_
;;	                                                                    =< 16777215
;;	                                                                    THEN 
;;	                                                                    <<250,
;;	                                                                    CONSTANT_v_
;;	                                                                    \div 65536
;;	                                                                    % 256,
;;	                                                                    CONSTANT_v_
;;	                                                                    \div 256
;;	                                                                    % 256,
;;	                                                                    CONSTANT_v_
;;	                                                                    % 256>>
;;	                                                                    ELSE 
;;	                                                                    IF
;;	                                                                    CONSTANT_v_
;;	                                                                    =< 4294967295
;;	                                                                    THEN 
;;	                                                                    <<251,
;;	                                                                    CONSTANT_v_
;;	                                                                    \div 16777216
;;	                                                                    % 256,
;;	                                                                    CONSTANT_v_
;;	                                                                    \div 65536
;;	                                                                    % 256,
;;	                                                                    CONSTANT_v_
;;	                                                                    \div 256
;;	                                                                    % 256,
;;	                                                                    CONSTANT_v_
;;	                                                                    % 256>>
;;	                                                                    ELSE 
;;	                                                                    <<255,
;;	                                                                    CONSTANT_v_
;;	                                                                    \div 72057594037927936
;;	                                                                    % 256,
;;	                                                                    CONSTANT_v_
;;	                                                                    \div 281474976710656
;;	                                                                    % 256,
;;	                                                                    CONSTANT_v_
;;	                                                                    \div 1099511627776
;;	                                                                    % 256,
;;	                                                                    CONSTANT_v_
;;	                                                                    \div 4294967296
;;	                                                                    % 256,
;;	                                                                    CONSTANT_v_
;;	                                                                    \div 16777216
;;	                                                                    % 256,
;;	                                                                    CONSTANT_v_
;;	                                                                    \div 65536
;;	                                                                    % 256,
;;	                                                                    CONSTANT_v_
;;	                                                                    \div 256
;;	                                                                    % 256,
;;	                                                                    CONSTANT_v_
;;	                                                                    % 256>>)[2]
;;	                                                              * 16777216
;;	                                                              + (IF
;;	                                                                   CONSTANT_v_
;;	                                                                   =< 240
;;	                                                                   THEN 
;;	                                                                    <<CONSTANT_v_>>
;;	                                                                   ELSE 
;;	                                                                    IF
;;	                                                                    CONSTANT_v_
;;	                                                                    =< 2287
;;	                                                                    THEN 
;;	                                                                    <<(
;;	                                                                    (
;;	                                                                    CONSTANT_v_
;;	                                                                    - 240)
;;	                                                                    \div 256
;;	                                                                    + 241)
;;	                                                                    % 256,
;;	                                                                    (
;;	                                                                    CONSTANT_v_
;;	                                                                    - 240)
;;	                                                                    % 256>>
;;	                                                                    ELSE 
;;	                                                                    IF
;;	                                                                    CONSTANT_v_
;;	                                                                    =< 67823
;;	                                                                    THEN 
;;	                                                                    <<249,
;;	                                                                    (
;;	                                                                    CONSTANT_v_
;;	                                                                    - 2288)
;;	                                                                    \div 256
;;	                                                                    % 256,
;;	                                                                    (
;;	                                                                    CONSTANT_v_
;;	                                                                    - 2288)
;;	                                                                    % 256>>
;;	                                                                    ELSE 
;;	                                                                    IF
;;	                                                                    CONSTANT_v_
;;	                                                                    =< 16777215
;;	                                                                    THEN 
;;	                                                                    <<250,
;;	                                                                    CONSTANT_v_
;;	                                                                    \div 65536
;;	                                                                    % 256,
;;	                                                                    CONSTANT_v_
;;	                                                                    \div 256
;;	                                                                    % 256,
;;	                                                                    CONSTANT_v_
;;	                                                                    % 256>>
;;	                                                                    ELSE 
;;	                                                                    IF
;;	                                                                    CONSTANT_v_
;;	                                                                    =< 4294967295
;;	                                                                    THEN 
;;	                                                                    <<251,
;;	                                                                    CONSTANT_v_
;;	                                                                    \div 16777216
;;	                                                                    % 256,
;;	                                                                    CONSTANT_v_
;;	                                                                    \div 65536
;;	                                                                    % 256,
;;	                                                                    CONSTANT_v_
;;	                                                                    \div 256
;;	                                                                    % 256,
;;	                                                                    CONSTANT_v_
;;	                                                                    % 256>>
;;	                                                                    ELSE 
;;	                                                                    <<255,
;;	                                                                    CONSTANT_v_
;;	                                                                    \div 72057594037927936
;;	                                                                    % 256,
;;	                                                                    CONSTANT_v_
;;	                                                                    \div 281474976710656
;;	                                                                    % 256,
;;	                                                                    CONSTANT_v_
;;	                                                                    \div 1099511627776
;;	                                                                    % 256,
;;	                                                                    CONSTANT_v_
;;	                                                                    \div 4294967296
;;	                                                                    % 256,
;;	                                                                    CONSTANT_v_
;;	                                                                    \div 16777216
;;	                                                                    % 256,
;;	                                                                    CONSTANT_v_
;;	                                                                    \div 65536
;;	                                                                    % 256,
;;	                                                                    CONSTANT_v_
;;	                                                                    \div 256
;;	                                                                    % 256,
;;	                                                                    CONSTANT_v_
;;	                                                                    % 256>>)[3]
;;	                                                                * 65536
;;	                                                              + (IF
;;	                                                                   CONSTANT_v_
;;	                                                                   =< 240
;;	                                                                   THEN 
;;	                                                                    <<CONSTANT_v_>>
;;	                                                                   ELSE 
;;	                                                                    IF
;;	                                                                    CONSTANT_v_
;;	                                                                    =< 2287
;;	                                                                    THEN 
;;	                                                                    <<(
;;	                                                                    (
;;	                                                                    CONSTANT_v_
;;	                                                                    - 240)
;;	                                                                    \div 256
;;	                                                                    + 241)
;;	                                                                    % 256,
;;	                                                                    (
;;	                                                                    CONSTANT_v_
;;	                                                                    - 240)
;;	                                                                    % 256>>
;;	                                                                    ELSE 
;;	                                                                    IF
;;	                                                                    CONSTANT_v_
;;	                                                                    =< 67823
;;	                                                                    THEN 
;;	                                                                    <<249,
;;	                                                                    (
;;	                                                                    CONSTANT_v_
;;	                                                                    - 2288)
;;	                                                                    \div 256
;;	                                                                    % 256,
;;	                                                                    (
;;	                                                                    CONSTANT_v_
;;	                                                                    - 2288)
;;	                                                                    % 256>>
;;	                                                                    ELSE 
;;	                                                                    IF
;;	                                                                    CONSTANT_v_
;;	                                                                    =< 16777215
;;	                                                                    THEN 
;;	                                                                    <<250,
;;	                                                                    CONSTANT_v_
;;	                                                                    \div 65536
;;	                                                                    % 256,
;;	                                                                    CONSTANT_v_
;;	                                                                    \div 256
;;	                                                                    % 256,
;;	                                                                    CONSTANT_v_
;;	                                                                    % 256>>
;;	                                                                    ELSE 
;;	                                                                    IF
;;	                                                                    CONSTANT_v_
;;	                                                                    =< 4294967295
;;	                                                                    THEN 
;;	                                                                    <<251,
;;	                                                                    CONSTANT_v_
;;	                                                                    \div 16777216
;;	                                                                    % 256,
;;	                                                                    CONSTANT_v_
;;	                                                                    \div 65536
;;	                                                                    % 256,
;;	                                                                    CONSTANT_v_
;;	                                                                    \div 256
;;	                                                                    % 256,
;;	                                                                    CONSTANT_v_
;;	                                                                    % 256>>
;;	                                                                    ELSE 
;;	                                                                    <<255,
;;	                                                                    CONSTANT_v_
;;	                                                                    \div 72057594037927936
;;	                                                                    % 256,
;;	                                                                    CONSTANT_v_
;;	                                                                    \div 281474976710656
;;	                                                                    % 256,
;;	                                                                    CONSTANT_v_
;;	                                                                    \div 1099511627776
;;	                                                                    % 256,
;;	                                                                    CONSTANT_v_
;;	                                                                    \div 4294967296
;;	                                                                    % 256,
;;	                                                                    CONSTANT_v_
;;	                                                                    \div 16777216
;;	                                                                    % 256,
;;	                                                                    CONSTANT_v_
;;	                                                                    \div 65536
;;	                                                                    % 256,
;;	                                                                    CONSTANT_v_
;;	                                                                    \div 256
;;	                                                                    % 256,
;;	                                                                    CONSTANT_v_
;;	                                                                    % 256>>)[4]
;;	                                                                * 256
;;	                                                              + (IF
;;	                                                                   CONSTANT_v_
;;	                                                                   =< 240
;;	                                                                   THEN 
;;	                                                                    <<CONSTANT_v_>>
;;	                                                                   ELSE 
;;	                                                                    IF
;;	                                                                    CONSTANT_v_
;;	                                                                    =< 2287
;;	                                                                    THEN 
;;	                                                                    <<(
;;	                                                                    (
;;	                                                                    CONSTANT_v_
;;	                                                                    - 240)
;;	                                                                    \div 256
;;	                                                                    + 241)
;;	                                                                    % 256,
;;	                                                                    (
;;	                                                                    CONSTANT_v_
;;	                                                                    - 240)
;;	                                                                    % 256>>
;;	                                                                    ELSE 
;;	                                                                    IF
;;	                                                                    CONSTANT_v_
;;	                                                                    =< 67823
;;	                                                                    THEN 
;;	                                                                    <<249,
;;	                                                                    (
;;	                                                                    CONSTANT_v_
;;	                                                                    - 2288)
;;	                                                                    \div 256
;;	                                                                    % 256,
;;	                                                                    (
;;	                                                                    CONSTANT_v_
;;	                                                                    - 2288)
;;	                                                                    % 256>>
;;	                                                                    ELSE 
;;	                                                                    IF
;;	                                                                    CONSTANT_v_
;;	                                                                    =< 16777215
;;	                                                                    THEN 
;;	                                                                    <<250,
;;	                                                                    CONSTANT_v_
;;	                                                                    \div 65536
;;	                                                                    % 256,
;;	                                                                    CONSTANT_v_
;;	                                                                    \div 256
;;	                                                                    % 256,
;;	                                                                    CONSTANT_v_
;;	                                                                    % 256>>
;;	                                                                    ELSE 
;;	                                                                    IF
;;	                                                                    CONSTANT_v_
;;	                                                                    =< 4294967295
;;	                                                                    THEN 
;;	                                                                    <<251,
;;	                                                                    CONSTANT_v_
;;	                                                                    \div 16777216
;;	                                                                    % 256,
;;	                                                                    CONSTANT_v_
;;	                                                                    \div 65536
;;	                                                                    % 256,
;;	                                                                    CONSTANT_v_
;;	                                                                    \div 256
;;	                                                                    % 256,
;;	                                                                    CONSTANT_v_
;;	                                                                    % 256>>
;;	                                                                    ELSE 
;;	                                                                    <<255,
;;	                                                                    CONSTANT_v_
;;	                                                                    \div 72057594037927936
;;	                                                                    % 256,
;;	                                                                    CONSTANT_v_
;;	                                                                    \div 281474976710656
;;	                                                                    % 256,
;;	                                                                    CONSTANT_v_
;;	                                                                    \div 1099511627776
;;	                                                                    % 256,
;;	                                                                    CONSTANT_v_
;;	                                                                    \div 4294967296
;;	                                                                    % 256,
;;	                                                                    CONSTANT_v_
;;	                                                                    \div 16777216
;;	                                                                    % 256,
;;	                                                                    CONSTANT_v_
;;	                                                                    \div 65536
;;	                                                                    % 256,
;;	                                                                    CONSTANT_v_
;;	                                                                    \div 256
;;	                                                                    % 256,
;;	                                                                    CONSTANT_v_
;;	                                                                    % 256>>)[5],
;;	                                                      n |-> 5]
;;	                                         ELSE IF
;;	                                                (IF CONSTANT_v_ =< 240
;;	                                                   THEN <<CONSTANT_v_>>
;;	                                                   ELSE IF
;;	                                                          CONSTANT_v_ =< 2287
;;	                                                          THEN <<((CONSTANT_v_
;;	                                                                   - 240)
;;	                                                                  \div 256
;;	                                                                  + 241)
;;	                                                                 % 256,
;;	                                                                 (CONSTANT_v_
;;	                                                                  - 240)
;;	                                                                 % 256>>
;;	                                                          ELSE IF
;;	                                                                 CONSTANT_v_
;;	                                                                 =< 67823
;;	                                                                 THEN 
;;	                                                                   <<249,
;;	                                                                    (
;;	                                                                    CONSTANT_v_
;;	                                                                    - 2288)
;;	                                                                    \div 256
;;	                                                                    % 256,
;;	                                                                    (
;;	                                                                    CONSTANT_v_
;;	                                                                    - 2288)
;;	                                                                    % 256>>
;;	                                                                 ELSE 
;;	                                                                   IF
;;	                                                                    CONSTANT_v_
;;	                                                                    =< 16777215
;;	                                                                    THEN 
;;	                                                                    <<250,
;;	                                                                    CONSTANT_v_
;;	                                                                    \div 65536
;;	                                                                    % 256,
;;	                                                                    CONSTANT_v_
;;	                                                                    \div 256
;;	                                                                    % 256,
;;	                                                                    CONSTANT_v_
;;	                                                                    % 256>>
;;	                                                                    ELSE 
;;	                                                                    IF
;;	                                                                    CONSTANT_v_
;;	                                                                    =< 4294967295
;;	                                                                    THEN 
;;	                                                                    <<251,
;;	                                                                    CONSTANT_v_
;;	                                                                    \div 16777216
;;	                                                                    % 256,
;;	                                                                    CONSTANT_v_
;;	                                                                    \div 65536
;;	                                                                    % 256,
;;	                                                                    CONSTANT_v_
;;	                                                                    \div 256
;;	                                                                    % 256,
;;	                                                                    CONSTANT_v_
;;	                                                                    % 256>>
;;	                                                                    ELSE 
;;	                                                                    <<255,
;;	                                                                    CONSTANT_v_
;;	                                                                    \div 72057594037927936
;;	                                                                    % 256,
;;	                                                                    CONSTANT_v_
;;	                                                                    \div 281474976710656
;;	                                                                    % 256,
;;	                                                                    CONSTANT_v_
;;	                                                                    \div 1099511627776
;;	                                                                    % 256,
;;	                                                                    CONSTANT_v_
;;	                                                                    \div 4294967296
;;	                                                                    % 256,
;;	                                                                    CONSTANT_v_
;;	                                                                    \div 16777216
;;	                                                                    % 256,
;;	                                                                    CONSTANT_v_
;;	                                                                    \div 65536
;;	                                                                    % 256,
;;	                                                                    CONSTANT_v_
;;	                                                                    \div 256
;;	                                                                    % 256,
;;	                                                                    CONSTANT_v_
;;	                                                                    % 256>>)[1]
;;	                                                = 255
;;	                                                THEN IF
;;	                                                       Len(IF
;;	                                                             CONSTANT_v_
;;	                                                             =< 240
;;	                                                             THEN <<CONSTANT_v_>>
;;	                                                             ELSE IF
;;	                                                                    CONSTANT_v_
;;	                                                                    =< 2287
;;	                                                                    THEN 
;;	                                                                    <<(
;;	                                                                    (
;;	                                                                    CONSTANT_v_
;;	                                                                    - 240)
;;	                                                                    \div 256
;;	                                                                    + 241)
;;	                                                                    % 256,
;;	                                                                    (
;;	                                                                    CONSTANT_v_
;;	                                                                    - 240)
;;	                                                                    % 256>>
;;	                                                                    ELSE 
;;	                                                                    IF
;;	                                                                    CONSTANT_v_
;;	                                                                    =< 67823
;;	                                                                    THEN 
;;	                                                                    <<249,
;;	                                                                    (
;;	                                                                    CONSTANT_v_
;;	                                                                    - 2288)
;;	                                                                    \div 256
;;	                                                                    % 256,
;;	                                                                    (
;;	                                                                    CONSTANT_v_
;;	                                                                    - 2288)
;;	                                                                    % 256>>
;;	                                                                    ELSE 
;;	                                                                    IF
;;	                                                                    CONSTANT_v_
;;	                                                                    =< 16777215
;;	                                                                    THEN 
;;	                                                                    <<250,
;;	                                                                    CONSTANT_v_
;;	                                                                    \div 65536
;;	                                                                    % 256,
;;	                                                                    CONSTANT_v_
;;	                                                                    \div 256
;;	                                                                    % 256,
;;	                                                                    CONSTANT_v_
;;	                                                                    % 256>>
;;	                                                                    ELSE 
;;	                                                                    IF
;;	                                                                    CONSTANT_v_
;;	                                                                    =< 4294967295
;;	                                                                    THEN 
;;	                                                                    <<251,
;;	                                                                    CONSTANT_v_
;;	                                                                    \div 16777216
;;	                                                                    % 256,
;;	                                                                    CONSTANT_v_
;;	                                                                    \div 65536
;;	                                                                    % 256,
;;	                                                                    CONSTANT_v_
;;	                                                                    \div 256
;;	                                                                    % 256,
;;	                                                                    CONSTANT_v_
;;	                                                                    % 256>>
;;	                                                                    ELSE 
;;	                                                                    <<255,
;;	                                                                    CONSTANT_v_
;;	                                                                    \div 72057594037927936
;;	                                                                    % 256,
;;	                                                                    CONSTANT_v_
;;	                                                                    \div 281474976710656
;;	                                                                    % 256,
;;	                                                                    CONSTANT_v_
;;	                                                                    \div 1099511627776
;;	                                                                    % 256,
;;	                                                                    CONSTANT_v_
;;	                                                                    \div 4294967296
;;	                                                                    % 256,
;;	                                                                    CONSTANT_v_
;;	                                                                    \div 16777216
;;	                                                                    % 256,
;;	                                                                    CONSTANT_v_
;;	                                                                    \div 65536
;;	                                                                    % 256,
;;	                                                                    CONSTANT_v_
;;	                                                                    \div 256
;;	                                                                    % 256,
;;	                                                                    CONSTANT_v_
;;	                                                                    % 256>>)
;;	                                                       < 9
;;	                                                       THEN CONSTANT_ErrTrunc_
;;	                                                              (9)
;;	                                                       ELSE [ok |-> TRUE,
;;	                                                             val |-> (IF
;;	                                                                    CONSTANT_v_
;;	                                                                    =< 240
;;	                                                                    THEN 
;;	                                                                    <<CONSTANT_v_>>
;;	                                                                    ELSE 
;;	                                                                    IF
;;	                                                                    CONSTANT_v_
;;	                                                                    =< 2287
;;	                                                                    THEN 
;;	                                                                    <<(
;;	                                                                    (
;;	                                                                    CONSTANT_v_
;;	                                                                    - 240)
;;	                                                                    \div 256
;;	                                                                    + 241)
;;	                                                                    % 256,
;;	                                                                    (
;;	                                                                    CONSTANT_v_
;;	                                                                    - 240)
;;	                                                                    % 256>>
;;	                                                                    ELSE 
;;	                                                                    IF
;;	                                                                    CONSTANT_v_
;;	                                                                    =< 67823
;;	                                                                    THEN 
;;	                                                                    <<249,
;;	                                                                    (
;;	                                                                    CONSTANT_v_
;;	                                                                    - 2288)
;;	                                                                    \div 256
;;	                                                                    % 256,
;;	                                                                    (
;;	                                                                    CONSTANT_v_
;;	                                                                    - 2288)
;;	                                                                    % 256>>
;;	                                                                    ELSE 
;;	                                                                    IF
;;	                                                                    CONSTANT_v_
;;	                                                                    =< 16777215
;;	                                                                    THEN 
;;	                                                                    <<250,
;;	                                                                    CONSTANT_v_
;;	                                                                    \div 65536
;;	                                                                    % 256,
;;	                                                                    CONSTANT_v_
;;	                                                                    \div 256
;;	                                                                    % 256,
;;	                                                                    CONSTANT_v_
;;	                                                                    % 256>>
;;	                                                                    ELSE 
;;	                                                                    IF
;;	                                                                    CONSTANT_v_
;;	                                                                    =< 4294967295
;;	                                                                    THEN 
;;	                                                                    <<251,
;;	                                                                    CONSTANT_v_
;;	                                                                    \div 16777216
;;	                                                                    % 256,
;;	                                                                    CONSTANT_v_
;;	                                                                    \div 65536
;;	                                                                    % 256,
;;	                                                                    CONSTANT_v_
;;	                                                                    \div 256
;;	                                                                    % 256,
;;	                                                                    CONSTANT_v_
;;	                                                                    % 256>>
;;	                                                                    ELSE 
;;	                                                                    <<255,
;;	                                                                    CONSTANT_v_
;;	                                                                    \div 72057594037927936
;;	                                                                    % 256,
;;	                                                                    CONSTANT_v_
;;	                                                                    \div 281474976710656
;;	                                                                    % 256,
;;	                                                                    CONSTANT_v_
;;	                                                                    \div 1099511627776
;;	                                                                    % 256,
;;	                                                                    CONSTANT_v_
;;	                                                                    \div 4294967296
;;	                                                                    % 256,
;;	                                                                    CONSTANT_v_
;;	                                                                    \div 16777216
;;	                                                                    % 256,
;;	                                                                    CONSTANT_v_
;;	                                                                    \div 65536
;;	                                                                    % 256,
;;	                                                                    CONSTANT_v_
;;	                                                                    \div 256
;;	                                                                    % 256,
;;	                                                                    CONSTANT_v_
;;	                                                                    % 256>>)[2]
;;	                                                                    * 72057594037927936
;;	                                                                    + 
;;	                                                                    (IF
;;	                                                                    CONSTANT_v_
;;	                                                                    =< 240
;;	                                                                    THEN 
;;	                                                                    <<CONSTANT_v_>>
;;	                                                                    ELSE 
;;	                                                                    IF
;;	                                                                    CONSTANT_v_
;;	                                                                    =< 2287
;;	                                                                    THEN 
;;	                                                                    <<(
;;	                                                                    (
;;	                                                                    CONSTANT_v_
;;	                                                                    - 240)
;;	                                                                    \div 256
;;	                                                                    + 241)
;;	                                                                    % 256,
;;	                                                                    (
;;	                                                                    CONSTANT_v_
;;	                                                                    - 240)
;;	                                                                    % 256>>
;;	                                                                    ELSE 
;;	                                                                    IF
;;	                                                                    CONSTANT_v_
;;	                                                                    =< 67823
;;	                                                                    THEN 
;;	                                                                    <<249,
;;	                                                                    (
;;	                                                                    CONSTANT_v_
;;	                                                                    - 2288)
;;	                                                                    \div 256
;;	                                                                    % 256,
;;	                                                                    (
;;	                                                                    CONSTANT_v_
;;	                                                                    - 2288)
;;	                                                                    % 256>>
;;	                                                                    ELSE 
;;	                                                                    IF
;;	                                                                    CONSTANT_v_
;;	                                                                    =< 16777215
;;	                                                                    THEN 
;;	                                                                    <<250,
;;	                                                                    CONSTANT_v_
;;	                                                                    \div 65536
;;	                                                                    % 256,
;;	                                                                    CONSTANT_v_
;;	                                                                    \div 256
;;	                                                                    % 256,
;;	                                                                    CONSTANT_v_
;;	                                                                    % 256>>
;;	                                                                    ELSE 
;;	                                                                    IF
;;	                                                                    CONSTANT_v_
;;	                                                                    =< 4294967295
;;	                                                                    THEN 
;;	                                                                    <<251,
;;	                                                                    CONSTANT_v_
;;	                                                                    \div 16777216
;;	                                                                    % 256,
;;	                                                                    CONSTANT_v_
;;	                                                                    \div 65536
;;	                                                                    % 256,
;;	                                                                    CONSTANT_v_
;;	                                                                    \div 256
;;	                                                                    % 256,
;;	                                                                    CONSTANT_v_
;;	                                                                    % 256>>
;;	                                                                    ELSE 
;;	                                                                    <<255,
;;	                                                                    CONSTANT_v_
;;	                                                                    \div 72057594037927936
;;	                                                                    % 256,
;;	                                                                    CONSTANT_v_
;;	                                                                    \div 281474976710656
;;	                                                                    % 256,
;;	                                                                    CONSTANT_v_
;;	                                                                    \div 1099511627776
;;	                                                                    % 256,
;;	                                                                    CONSTANT_v_
;;	                                                                    \div 4294967296
;;	                                                                    % 256,
;;	                                                                    CONSTANT_v_
;;	                                                                    \div 16777216
;;	                                                                    % 256,
;;	                                                                    CONSTANT_v_
;;	                                                                    \div 65536
;;	                                                                    % 256,
;;	                                                                    CONSTANT_v_
;;	                                                                    \div 256
;;	                                                                    % 256,
;;	                                                                    CONSTANT_v_
;;	                                                                    % 256>>)[3]
;;	                                                                    * 281474976710656
;;	                                                                    + 
;;	                                                                    (IF
;;	                                                                    CONSTANT_v_
;;	                                                                    =< 240
;;	                                                                    THEN 
;;	                                                                    <<CONSTANT_v_>>
;;	                                                                    ELSE 
;;	                                                                    IF
;;	                                                                    CONSTANT_v_
;;	                                                                    =< 2287
;;	                                                                    THEN 
;;	                                                                    <<(
;;	                                                                    (
;;	                                                                    CONSTANT_v_
;;	                                                                    - 240)
;;	                                                                    \div 256
;;	                                                                    + 241)
;;	                                                                    % 256,
;;	                                                                    (
;;	                                                                    CONSTANT_v_
;;	                                                                    - 240)
;;	                                                                    % 256>>
;;	                                                                    ELSE 
;;	                                                                    IF
;;	                                                                    CONSTANT_v_
;;	                                                                    =< 67823
;;	                                                                    THEN 
;;	                                                                    <<249,
;;	                                                                    (
;;	                                                                    CONSTANT_v_
;;	                                                                    - 2288)
;;	                                                                    \div 256
;;	                                                                    % 256,
;;	                                                                    (
;;	                                                                    CONSTANT_v_
;;	                                                                    - 2288)
;;	                                                                    % 256>>
;;	                                                                    ELSE 
;;	                                                                    IF
;;	                                                                    CONSTANT_v_
;;	                                                                    =< 16777215
;;	                                                                    THEN 
;;	                                                                    <<250,
;;	                                                                    CONSTANT_v_
;;	                                                                    \div 65536
;;	                                                                    % 256,
;;	                                                                    CONSTANT_v_
;;	                                                                    \div 256
;;	                                                                    % 256,
;;	                                                                    CONSTANT_v_
;;	                                                                    % 256>>
;;	                                                                    ELSE 
;;	                                                                    IF
;;	                                                                    CONSTANT_v_
;;	                                                                    =< 4294967295
;;	                                                                    THEN 
;;	                                                                    <<251,
;;	                                                                    CONSTANT_v_
;;	                                                                    \div 16777216
;;	                                                                    % 256,
;;	                                                                    CONSTANT_v_
;;	                                                                    \div 65536
;;	                                                                    % 256,
;;	                                                                    CONSTANT_v_
;;	                                                                    \div 256
;;	                                                                    % 256,
;;	                                                                    CONSTANT_v_
;;	                                                                    % 256>>
;;	                                                                    ELSE 
;;	                                                                    <<255,
;;	                                                                    CONSTANT_v_
;;	                                                                    \div 72057594037927936
;;	                                                                    % 256,
;;	                                                                    CONSTANT_v_
;;	                                                                    \div 281474976710656
;;	                                                                    % 256,
;;	                                                                    CONSTANT_v_
;;	                                                                    \div 1099511627776
;;	                                                                    % 256,
;;	                                                                    CONSTANT_v_
;;	                                                                    \div 4294967296
;;	                                                                    % 256,
;;	                                                                    CONSTANT_v_
;;	                                                                    \div 16777216
;;	                                                                    % 256,
;;	                                                                    CONSTANT_v_
;;	                                                                    \div 65536
;;	                                                                    % 256,
;;	                                                                    CONSTANT_v_
;;	                                                                    \div 256
;;	                                                                    % 256,
;;	                                                                    CONSTANT_v_
;;	                                                                    % 256>>)[4]
;;	                                                                    * 1099511627776
;;	                                                                    + 
;;	                                                                    (IF
;;	                                                                    CONSTANT_v_
;;	                                                                    =< 240
;;	                                                                    THEN 
;;	                                                                    <<CONSTANT_v_>>
;;	                                                                    ELSE 
;;	                                                                    IF
;;	                                                                    CONSTANT_v_
;;	                                                                    =< 2287
;;	                                                                    THEN 
;;	                                                                    <<(
;;	                                                                    (
;;	                                                                    CONSTANT_v_
;;	                                                                    - 240)
;;	                                                                    \div 256
;;	                                                                    + 241)
;;	                                                                    % 256,
;;	                                                                    (
;;	                                                                    CONSTANT_v_
;;	                                                                    - 240)
;;	                                                                    % 256>>
;;	                                                                    ELSE 
;;	                                                                    IF
;;	                                                                    CONSTANT_v_
;;	                                                                    =< 67823
;;	                                                                    THEN 
;;	                                                                    <<249,
;;	                                                                    (
;;	                                                                    CONSTANT_v_
;;	                                                                    - 2288)
;;	                                                                    \div 256
;;	                                                                    % 256,
;;	                                                                    (
;;	                                                                    CONSTANT_v_
;;	                                                                    - 2288)
;;	                                                                    % 256>>
;;	                                                                    ELSE 
;;	                                                                    IF
;;	                                                                    CONSTANT_v_
;;	                                                                    =< 16777215
;;	                                                                    THEN 
;;	                                                                    <<250,
;;	                                                                    CONSTANT_v_
;;	                                                                    \div 65536
;;	                                                                    % 256,
;;	                                                                    CONSTANT_v_
;;	                                                                    \div 256
;;	                                                                    % 256,
;;	                                                                    CONSTANT_v_
;;	                                                                    % 256>>
;;	                                                                    ELSE 
;;	                                                                    IF
;;	                                                                    CONSTANT_v_
;;	                                                                    =< 4294967295
;;	                                                                    THEN 
;;	                                                                    <<251,
;;	                                                                    CONSTANT_v_
;;	                                                                    \div 16777216
;;	                                                                    % 256,
;;	                                                                    CONSTANT_v_
;;	                                                                    \div 65536
;;	                                                                    % 256,
;;	                                                                    CONSTANT_v_
;;	                                                                    \div 256
;;	                                                                    % 256,
;;	                                                                    CONSTANT_v_
;;	                                                                    % 256>>
;;	                                                                    ELSE 
;;	                                                                    <<255,
;;	                                                                    CONSTANT_v_
;;	                                                                    \div 72057594037927936
;;	                                                                    % 256,
;;	                                                                    CONSTANT_v_
;;	                                                                    \div 281474976710656
;;	                                                                    % 256,
;;	                                                                    CONSTANT_v_
;;	                                                                    \div 1099511627776
;;	                                                                    % 256,
;;	                                                                    CONSTANT_v_
;;	                                                                    \div 4294967296
;;	                                                                    % 256,
;;	                                                                    CONSTANT_v_
;;	                                                                    \div 16777216
;;	                                                                    % 256,
;;	                                                                    CONSTANT_v_
;;	                                                                    \div 65536
;;	                                                                    % 256,
;;	                                                                    CONSTANT_v_
;;	                                                                    \div 256
;;	                                                                    % 256,
;;	                                                                    CONSTANT_v_
;;	                                                                    % 256>>)[5]
;;	                                                                    * 4294967296
;;	                                                                    + 
;;	                                                                    (IF
;;	                                                                    CONSTANT_v_
;;	                                                                    =< 240
;;	                                                                    THEN 
;;	                                                                    <<CONSTANT_v_>>
;;	                                                                    ELSE 
;;	                                                                    IF
;;	                                                                    CONSTANT_v_
;;	                                                                    =< 2287
;;	                                                                    THEN 
;;	                                                                    <<(
;;	                                                                    (
;;	                                                                    CONSTANT_v_
;;	                                                                    - 240)
;;	                                                                    \div 256
;;	                                                                    + 241)
;;	                                                                    % 256,
;;	                                                                    (
;;	                                                                    CONSTANT_v_
;;	                                                                    - 240)
;;	                                                                    % 256>>
;;	                                                                    ELSE 
;;	                                                                    IF
;;	                                                                    CONSTANT_v_
;;	                                                                    =< 67823
;;	                                                                    THEN 
;;	                                                                    <<249,
;;	                                                                    (
;;	                                                                    CONSTANT_v_
;;	                                                                    - 2288)
;;	                                                                    \div 256
;;	                                                                    % 256,
;;	                                                                    (
;;	                                                                    CONSTANT_v_
;;	                                                                    - 2288)
;;	                                                                    % 256>>
;;	                                                                    ELSE 
;;	                                                                    IF
;;	                                                                    CONSTANT_v_
;;	                                                                    =< 16777215
;;	                                                                    THEN 
;;	                                                                    <<250,
;;	                                                                    CONSTANT_v_
;;	                                                                    \div 65536
;;	                                                                    % 256,
;;	                                                                    CONSTANT_v_
;;	                                                                    \div 256
;;	                                                                    % 256,
;;	                                                                    CONSTANT_v_
;;	                                                                    % 256>>
;;	                                                                    ELSE 
;;	                                                                    IF
;;	                                                                    CONSTANT_v_
;;	                                                                    =< 4294967295
;;	                                                                    THEN 
;;	                                                                    <<251,
;;	                                                                    CONSTANT_v_
;;	                                                                    \div 16777216
;;	                                                                    % 256,
;;	                                                                    CONSTANT_v_
;;	                                                                    \div 65536
;;	                                                                    % 256,
;;	                                                                    CONSTANT_v_
;;	                                                                    \div 256
;;	                                                                    % 256,
;;	                                                                    CONSTANT_v_
;;	                                                                    % 256>>
;;	                                                                    ELSE 
;;	                                                                    <<255,
;;	                                                                    CONSTANT_v_
;;	                                                                    \div 72057594037927936
;;	                                                                    % 256,
;;	                                                                    CONSTANT_v_
;;	                                                                    \div 281474976710656
;;	                                                                    % 256,
;;	                                                                    CONSTANT_v_
;;	                                                                    \div 1099511627776
;;	                                                                    % 256,
;;	                                                                    CONSTANT_v_
;;	                                                                    \div 4294967296
;;	                                                                    % 256,
;;	                                                                    CONSTANT_v_
;;	                                                                    \div 16777216
;;	                                                                    % 256,
;;	                                                                    CONSTANT_v_
;;	                                                                    \div 65536
;;	                                                                    % 256,
;;	                                                                    CONSTANT_v_
;;	                                                                    \div 256
;;	                                                                    % 256,
;;	                                                                    CONSTANT_v_
;;	                                                                    % 256>>)[6]
;;	                                                                    * 16777216
;;	                                                                    + 
;;	                                                                    (IF
;;	                                                                    CONSTANT_v_
;;	                                                                    =< 240
;;	                                                                    THEN 
;;	                                                                    <<CONSTANT_v_>>
;;	                                                                    ELSE 
;;	                                                                    IF
;;	                                                                    CONSTANT_v_
;;	                                                                    =< 2287
;;	                                                                    THEN 
;;	                                                                    <<(
;;	                                                                    (
;;	                                                                    CONSTANT_v_
;;	                                                                    - 240)
;;	                                                                    \div 256
;;	                                                                    + 241)
;;	                                                                    % 256,
;;	                                                                    (
;;	                                                                    CONSTANT_v_
;;	                                                                    - 240)
;;	                                                                    % 256>>
;;	                                                                    ELSE 
;;	                                                                    IF
;;	                                                                    CONSTANT_v_
;;	                                                                    =< 67823
;;	                                                                    THEN 
;;	                                                                    <<249,
;;	                                                                    (
;;	                                                                    CONSTANT_v_
;;	                                                                    - 2288)
;;	                                                                    \div 256
;;	                                                                    % 256,
;;	                                                                    (
;;	                                                                    CONSTANT_v_
;;	                                                                    - 2288)
;;	                                                                    % 256>>
;;	                                                                    ELSE 
;;	                                                                    IF
;;	                                                                    CONSTANT_v_
;;	                                                                    =< 16777215
;;	                                                                    THEN 
;;	                                                                    <<250,
;;	                                                                    CONSTANT_v_
;;	                                                                    \div 65536
;;	                                                                    % 256,
;;	                                                                    CONSTANT_v_
;;	                                                                    \div 256
;;	                                                                    % 256,
;;	                                                                    CONSTANT_v_
;;	                                                                    % 256>>
;;	                                                                    ELSE 
;;	                                                                    IF
;;	                                                                    CONSTANT_v_
;;	                                                                    =< 4294967295
;;	                                                                    THEN 
;;	                                                                    <<251,
;;	                                                                    CONSTANT_v_
;;	                                                                    \div 16777216
;;	                                                                    % 256,
;;	                                                                    CONSTANT_v_
;;	                                                                    \div 65536
;;	                                                                    % 256,
;;	                                                                    CONSTANT_v_
;;	                                                                    \div 256
;;	                                                                    % 256,
;;	                                                                    CONSTANT_v_
;;	                                                                    % 256>>
;;	                                                                    ELSE 
;;	                                                                    <<255,
;;	                                                                    CONSTANT_v_
;;	                                                                    \div 72057594037927936
;;	                                                                    % 256,
;;	                                                                    CONSTANT_v_
;;	                                                                    \div 281474976710656
;;	                                                                    % 256,
;;	                                                                    CONSTANT_v_
;;	                                                                    \div 1099511627776
;;	                                                                    % 256,
;;	                                                                    CONSTANT_v_
;;	                                                                    \div 4294967296
;;	                                                                    % 256,
;;	                                                                    CONSTANT_v_
;;	                                                                    \div 16777216
;;	                                                                    % 256,
;;	                                                                    CONSTANT_v_
;;	                                                                    \div 65536
;;	                                                                    % 256,
;;	                                                                    CONSTANT_v_
;;	                                                                    \div 256
;;	                                                                    % 256,
;;	                                                                    CONSTANT_v_
;;	                                                                    % 256>>)[7]
;;	                                                                    * 65536
;;	                                                                    + 
;;	                                                                    (IF
;;	                                                                    CONSTANT_v_
;;	                                                                    =< 240
;;	                                                                    THEN 
;;	                                                                    <<CONSTANT_v_>>
;;	                                                                    ELSE 
;;	                                                                    IF
;;	                                                                    CONSTANT_v_
;;	                                                                    =< 2287
;;	                                                                    THEN 
;;	                                                                    <<(
;;	                                                                    (
;;	                                                                    CONSTANT_v_
;;	                                                                    - 240)
;;	                                                                    \div 256
;;	                                                                    + 241)
;;	                                                                    % 256,
;;	                                                                    (
;;	                                                                    CONSTANT_v_
;;	                                                                    - 240)
;;	                                                                    % 256>>
;;	                                                                    ELSE 
;;	                                                                    IF
;;	                                                                    CONSTANT_v_
;;	                                                                    =< 67823
;;	                                                                    THEN 
;;	                                                                    <<249,
;;	                                                                    (
;;	                                                                    CONSTANT_v_
;;	                                                                    - 2288)
;;	                                                                    \div 256
;;	                                                                    % 256,
;;	                                                                    (
;;	                                                                    CONSTANT_v_
;;	                                                                    - 2288)
;;	                                                                    % 256>>
;;	                                                                    ELSE 
;;	                                                                    IF
;;	                                                                    CONSTANT_v_
;;	                                                                    =< 16777215
;;	                                                                    THEN 
;;	                                                                    <<250,
;;	                                                                    CONSTANT_v_
;;	                                                                    \div 65536
;;	                                                                    % 256,
;;	                                                                    CONSTANT_v_
;;	                                                                    \div 256
;;	                                                                    % 256,
;;	                                                                    CONSTANT_v_
;;	                                                                    % 256>>
;;	                                                                    ELSE 
;;	                                                                    IF
;;	                                                                    CONSTANT_v_
;;	                                                                    =< 4294967295
;;	                                                                    THEN 
;;	                                                                    <<251,
;;	                                                                    CONSTANT_v_
;;	                                                                    \div 16777216
;;	                                                                    % 256,
;;	                                                                    CONSTANT_v_
;;	                                                                    \div 65536
;;	                                                                    % 256,
;;	                                                                    CONSTANT_v_
;;	                                                                    \div 256
;;	                                                                    % 256,
;;	                                                                    CONSTANT_v_
;;	                                                                    % 256>>
;;	                                                                    ELSE 
;;	                                                                    <<255,
;;	                                                                    CONSTANT_v_
;;	                                                                    \div 72057594037927936
;;	                                                                    % 256,
;;	                                                                    CONSTANT_v_
;;	                                                                    \div 281474976710656
;;	                                                                    % 256,
;;	                                                                    CONSTANT_v_
;;	                                                                    \div 1099511627776
;;	                                                                    % 256,
;;	                                                                    CONSTANT_v_
;;	                                                                    \div 4294967296
;;	                                                                    % 256,
;;	                                                                    CONSTANT_v_
;;	                                                                    \div 16777216
;;	                                                                    % 256,
;;	                                                                    CONSTANT_v_
;;	                                                                    \div 65536
;;	                                                                    % 256,
;;	                                                                    CONSTANT_v_
;;	                                                                    \div 256
;;	                                                                    % 256,
;;	                                                                    CONSTANT_v_
;;	                                                                    % 256>>)[8]
;;	                                                                    * 256
;;	                                                                    + 
;;	                                                                    (IF
;;	                                                                    CONSTANT_v_
;;	                                                                    =< 240
;;	                                                                    THEN 
;;	                                                                    <<CONSTANT_v_>>
;;	                                                                    ELSE 
;;	                                                                    IF
;;	                                                                    CONSTANT_v_
;;	                                                                    =< 2287
;;	                                                                    THEN 
;;	                                                                    <<(
;;	                                                                    (
;;	                                                                    CONSTANT_v_
;;	                                                                    - 240)
;;	                                                                    \div 256
;;	                                                                    + 241)
;;	                                                                    % 256,
;;	                                                                    (
;;	                                                                    CONSTANT_v_
;;	                                                                    - 240)
;;	                                                                    % 256>>
;;	                                                                    ELSE 
;;	                                                                    IF
;;	                                                                    CONSTANT_v_
;;	                                                                    =< 67823
;;	                                                                    THEN 
;;	                                                                    <<249,
;;	                                                                    (
;;	                                                                    CONSTANT_v_
;;	                                                                    - 2288)
;;	                                                                    \div 256
;;	                                                                    % 256,
;;	                                                                    (
;;	                                                                    CONSTANT_v_
;;	                                                                    - 2288)
;;	                                                                    % 256>>
;;	                                                                    ELSE 
;;	                                                                    IF
;;	                                                                    CONSTANT_v_
;;	                                                                    =< 16777215
;;	                                                                    THEN 
;;	                                                                    <<250,
;;	                                                                    CONSTANT_v_
;;	                                                                    \div 65536
;;	                                                                    % 256,
;;	                                                                    CONSTANT_v_
;;	                                                                    \div 256
;;	                                                                    % 256,
;;	                                                                    CONSTANT_v_
;;	                                                                    % 256>>
;;	                                                                    ELSE 
;;	                                                                    IF
;;	                                                                    CONSTANT_v_
;;	                                                                    =< 4294967295
;;	                                                                    THEN 
;;	                                                                    <<251,
;;	                                                                    CONSTANT_v_
;;	                                                                    \div 16777216
;;	                                                                    % 256,
;;	                                                                    CONSTANT_v_
;;	                                                                    \div 65536
;;	                                                                    % 256,
;;	                                                                    CONSTANT_v_
;;	                                                                    \div 256
;;	                                                                    % 256,
;;	                                                                    CONSTANT_v_
;;	                                                                    % 256>>
;;	                                                                    ELSE 
;;	                                                                    <<255,
;;	                                                                    CONSTANT_v_
;;	                                                                    \div 72057594037927936
;;	                                                                    % 256,
;;	                                                                    CONSTANT_v_
;;	                                                                    \div 281474976710656
;;	                                                                    % 256,
;;	                                                                    CONSTANT_v_
;;	                                                                    \div 1099511627776
;;	                                                                    % 256,
;;	                                                                    CONSTANT_v_
;;	                                                                    \div 4294967296
;;	                                                                    % 256,
;;	                                                                    CONSTANT_v_
;;	                                                                    \div 16777216
;;	                                                                    % 256,
;;	                                                                    CONSTANT_v_
;;	                                                                    \div 65536
;;	                                                                    % 256,
;;	                                                                    CONSTANT_v_
;;	                                                                    \div 256
;;	                                                                    % 256,
;;	                                                                    CONSTANT_v_
;;	                                                                    % 256>>)[9],
;;	                                                             n |-> 9]
;;	                                                ELSE CONSTANT_ErrMarker_
;;	                                                       ((IF
;;	                                                           CONSTANT_v_ =< 240
;;	                                                           THEN <<CONSTANT_v_>>
;;	                                                           ELSE IF
;;	                                                                  CONSTANT_v_
;;	                                                                  =< 2287
;;	                                                                  THEN 
;;	                                                                    <<(
;;	                                                                    (
;;	                                                                    CONSTANT_v_
;;	                                                                    - 240)
;;	                                                                    \div 256
;;	                                                                    + 241)
;;	                                                                    % 256,
;;	                                                                    (
;;	                                                                    CONSTANT_v_
;;	                                                                    - 240)
;;	                                                                    % 256>>
;;	                                                                  ELSE 
;;	                                                                    IF
;;	                                                                    CONSTANT_v_
;;	                                                                    =< 67823
;;	                                                                    THEN 
;;	                                                                    <<249,
;;	                                                                    (
;;	                                                                    CONSTANT_v_
;;	                                                                    - 2288)
;;	                                                                    \div 256
;;	                                                                    % 256,
;;	                                                                    (
;;	                                                                    CONSTANT_v_
;;	                                                                    - 2288)
;;	                                                                    % 256>>
;;	                                                                    ELSE 
;;	                                                                    IF
;;	                                                                    CONSTANT_v_
;;	                                                                    =< 16777215
;;	                                                                    THEN 
;;	                                                                    <<250,
;;	                                                                    CONSTANT_v_
;;	                                                                    \div 65536
;;	                                                                    % 256,
;;	                                                                    CONSTANT_v_
;;	                                                                    \div 256
;;	                                                                    % 256,
;;	                                                                    CONSTANT_v_
;;	                                                                    % 256>>
;;	                                                                    ELSE 
;;	                                                                    IF
;;	                                                                    CONSTANT_v_
;;	                                                                    =< 4294967295
;;	                                                                    THEN 
;;	                                                                    <<251,
;;	                                                                    CONSTANT_v_
;;	                                                                    \div 16777216
;;	                                                                    % 256,
;;	                                                                    CONSTANT_v_
;;	                                                                    \div 65536
;;	                                                                    % 256,
;;	                                                                    CONSTANT_v_
;;	                                                                    \div 256
;;	                                                                    % 256,
;;	                                                                    CONSTANT_v_
;;	                                                                    % 256>>
;;	                                                                    ELSE 
;;	                                                                    <<255,
;;	                                                                    CONSTANT_v_
;;	                                                                    \div 72057594037927936
;;	                                                                    % 256,
;;	                                                                    CONSTANT_v_
;;	                                                                    \div 281474976710656
;;	                                                                    % 256,
;;	                                                                    CONSTANT_v_
;;	                                                                    \div 1099511627776
;;	                                                                    % 256,
;;	                                                                    CONSTANT_v_
;;	                                                                    \div 4294967296
;;	                                                                    % 256,
;;	                                                                    CONSTANT_v_
;;	                                                                    \div 16777216
;;	                                                                    % 256,
;;	                                                                    CONSTANT_v_
;;	                                                                    \div 65536
;;	                                                                    % 256,
;;	                                                                    CONSTANT_v_
;;	                                                                    \div 256
;;	                                                                    % 256,
;;	                                                                    CONSTANT_v_
;;	                                                                    % 256>>)[1]))
;;	   = [ok |-> TRUE, val |-> CONSTANT_v_, n |-> 4]
;;	   /\ (IF CONSTANT_v_ =< 240
;;	         THEN 1
;;	         ELSE IF CONSTANT_v_ =< 2287
;;	                THEN 2
;;	                ELSE IF CONSTANT_v_ =< 67823
;;	                       THEN 3
;;	                       ELSE IF CONSTANT_v_ =< 16777215
;;	                              THEN 4
;;	                              ELSE IF CONSTANT_v_ =< 4294967295 THEN 5 ELSE 9)
;;	      = 4
;; TLA+ Proof Manager f14d233
;; Proof obligation #4
;; Generated from file "./Varint_proofs.tla", line 90, characters 3-4

(set-logic UFNIA)

;; Sorts

(declare-sort Idv 0)

;; Hypotheses

(declare-fun smt__TLA____BoolSet () Idv)

(declare-fun smt__TLA____Cast__Bool (Bool) Idv)

(declare-fun smt__TLA____Cast__Int (Int) Idv)

(declare-fun smt__TLA____FunApp (Idv Idv) Idv)

(declare-fun smt__TLA____FunDom (Idv) Idv)

; omitted declaration of 'TLA__FunFcn' (second-order)

(declare-fun smt__TLA____FunIsafcn (Idv) Bool)

(declare-fun smt__TLA____IntLteq (Idv Idv) Bool)

(declare-fun smt__TLA____IntMinus (Idv Idv) Idv)

(declare-fun smt__TLA____IntPlus (Idv Idv) Idv)

(declare-fun smt__TLA____IntQuotient (Idv Idv) Idv)

(declare-fun smt__TLA____IntRange (Idv Idv) Idv)

(declare-fun smt__TLA____IntRemainder (Idv Idv) Idv)

(declare-fun smt__TLA____IntSet () Idv)

(declare-fun smt__TLA____IntTimes (Idv Idv) Idv)

(declare-fun smt__TLA____Len (Idv) Idv)

(declare-fun smt__TLA____Mem (Idv Idv) Bool)

(declare-fun smt__TLA____NatSet () Idv)

(declare-fun smt__TLA____Proj__Int (Idv) Int)

(declare-fun smt__TLA____Record__n__ok__val (Idv Idv Idv) Idv)

(declare-fun smt__TLA____Seq (Idv) Idv)

(declare-fun smt__TLA____SetEnum__1 (Idv) Idv)

(declare-fun smt__TLA____SetEnum__2 (Idv Idv) Idv)

(declare-fun smt__TLA____SetEnum__3 (Idv Idv Idv) Idv)

(declare-fun smt__TLA____SetEnum__4 (Idv Idv Idv Idv) Idv)

(declare-fun smt__TLA____SetEnum__5 (Idv Idv Idv Idv Idv) Idv)

(declare-fun smt__TLA____SetEnum__9 (Idv Idv Idv Idv Idv Idv Idv Idv Idv) Idv)

(declare-fun smt__TLA____SetExtTrigger (Idv Idv) Bool)

(declare-fun smt__TLA____StrLit__n () Idv)

(declare-fun smt__TLA____StrLit__ok () Idv)

(declare-fun smt__TLA____StrLit__val () Idv)

(declare-fun smt__TLA____StrSet () Idv)

(declare-fun smt__TLA____Tt__Idv () Idv)

(declare-fun smt__TLA____Tuple__1 (Idv) Idv)

(declare-fun smt__TLA____Tuple__2 (Idv Idv) Idv)

(declare-fun smt__TLA____Tuple__3 (Idv Idv Idv) Idv)

(declare-fun smt__TLA____Tuple__4 (Idv Idv Idv Idv) Idv)

(declare-fun smt__TLA____Tuple__5 (Idv Idv Idv Idv Idv) Idv)

(declare-fun smt__TLA____Tuple__9 (Idv Idv Idv Idv Idv Idv Idv Idv Idv) Idv)

;; Axiom: SetExt
(assert
  (!
    (forall ((smt__x Idv) (smt__y Idv))
      (!
        (=>
          (forall ((smt__z Idv))
            (= (smt__TLA____Mem smt__z smt__x)
              (smt__TLA____Mem smt__z smt__y))) (= smt__x smt__y))
        :pattern ((smt__TLA____SetExtTrigger smt__x smt__y))))
    :named |SetExt|))

;; Axiom: NatSetDef
(assert
  (!
    (forall ((smt__x Idv))
      (!
        (= (smt__TLA____Mem smt__x smt__TLA____NatSet)
          (and (smt__TLA____Mem smt__x smt__TLA____IntSet)
            (smt__TLA____IntLteq (smt__TLA____Cast__Int 0) smt__x)))
        :pattern ((smt__TLA____Mem smt__x smt__TLA____NatSet))))
    :named |NatSetDef|))

;; Axiom: IntRangeDef
(assert
  (!
    (forall ((smt__a Idv) (smt__b Idv) (smt__x Idv))
      (!
        (= (smt__TLA____Mem smt__x (smt__TLA____IntRange smt__a smt__b))
          (and (smt__TLA____Mem smt__x smt__TLA____IntSet)
            (smt__TLA____IntLteq smt__a smt__x)
            (smt__TLA____IntLteq smt__x smt__b)))
        :pattern ((smt__TLA____Mem smt__x
                    (smt__TLA____IntRange smt__a smt__b)))))
    :named |IntRangeDef|))

;; Axiom: FunExt
(assert
  (!
    (forall ((smt__f Idv) (smt__g Idv))
      (!
        (=>
          (and (smt__TLA____FunIsafcn smt__f) (smt__TLA____FunIsafcn smt__g)
            (= (smt__TLA____FunDom smt__f) (smt__TLA____FunDom smt__g))
            (forall ((smt__x Idv))
              (=> (smt__TLA____Mem smt__x (smt__TLA____FunDom smt__f))
                (= (smt__TLA____FunApp smt__f smt__x)
                  (smt__TLA____FunApp smt__g smt__x))))) (= smt__f smt__g))
        :pattern ((smt__TLA____FunIsafcn smt__f)
                   (smt__TLA____FunIsafcn smt__g)))) :named |FunExt|))

; omitted fact (second-order)

; omitted fact (second-order)

; omitted fact (second-order)

;; Axiom: SeqSetIntro
(assert
  (!
    (forall ((smt__a Idv) (smt__s Idv))
      (!
        (=>
          (and (smt__TLA____FunIsafcn smt__s)
            (>= (smt__TLA____Proj__Int (smt__TLA____Len smt__s)) 0)
            (forall ((smt__i Idv))
              (= (smt__TLA____Mem smt__i (smt__TLA____FunDom smt__s))
                (and (smt__TLA____Mem smt__i smt__TLA____IntSet)
                  (<= 1 (smt__TLA____Proj__Int smt__i))
                  (<= (smt__TLA____Proj__Int smt__i)
                    (smt__TLA____Proj__Int (smt__TLA____Len smt__s))))))
            (forall ((smt__i Int))
              (=>
                (and (<= 1 smt__i)
                  (<= smt__i (smt__TLA____Proj__Int (smt__TLA____Len smt__s))))
                (smt__TLA____Mem
                  (smt__TLA____FunApp smt__s (smt__TLA____Cast__Int smt__i))
                  smt__a))))
          (smt__TLA____Mem smt__s (smt__TLA____Seq smt__a)))
        :pattern ((smt__TLA____Mem smt__s (smt__TLA____Seq smt__a)))))
    :named |SeqSetIntro|))

;; Axiom: SetSetElim1
(assert
  (!
    (forall ((smt__a Idv) (smt__s Idv))
      (!
        (=> (smt__TLA____Mem smt__s (smt__TLA____Seq smt__a))
          (and (smt__TLA____FunIsafcn smt__s)
            (smt__TLA____Mem (smt__TLA____Len smt__s) smt__TLA____NatSet)
            (= (smt__TLA____FunDom smt__s)
              (smt__TLA____IntRange (smt__TLA____Cast__Int 1)
                (smt__TLA____Len smt__s)))))
        :pattern ((smt__TLA____Mem smt__s (smt__TLA____Seq smt__a)))))
    :named |SetSetElim1|))

;; Axiom: SetSetElim2
(assert
  (!
    (forall ((smt__a Idv) (smt__s Idv) (smt__i Int))
      (!
        (=>
          (and (smt__TLA____Mem smt__s (smt__TLA____Seq smt__a))
            (<= 1 smt__i)
            (<= smt__i (smt__TLA____Proj__Int (smt__TLA____Len smt__s))))
          (smt__TLA____Mem
            (smt__TLA____FunApp smt__s (smt__TLA____Cast__Int smt__i)) 
            smt__a))
        :pattern ((smt__TLA____Mem smt__s (smt__TLA____Seq smt__a))
                   (smt__TLA____FunApp smt__s (smt__TLA____Cast__Int smt__i)))))
    :named |SetSetElim2|))

;; Axiom: SeqLenDef
(assert
  (!
    (forall ((smt__s Idv) (smt__z Int))
      (=>
        (and (>= smt__z 0)
          (= (smt__TLA____FunDom smt__s)
            (smt__TLA____IntRange (smt__TLA____Cast__Int 1)
              (smt__TLA____Cast__Int smt__z))))
        (= (smt__TLA____Len smt__s) (smt__TLA____Cast__Int smt__z))))
    :named |SeqLenDef|))

;; Axiom: EnumDefIntro 1
(assert
  (!
    (forall ((smt__a1 Idv))
      (! (smt__TLA____Mem smt__a1 (smt__TLA____SetEnum__1 smt__a1))
        :pattern ((smt__TLA____SetEnum__1 smt__a1)))) :named |EnumDefIntro 1|))

;; Axiom: EnumDefIntro 2
(assert
  (!
    (forall ((smt__a1 Idv) (smt__a2 Idv))
      (!
        (and
          (smt__TLA____Mem smt__a1 (smt__TLA____SetEnum__2 smt__a1 smt__a2))
          (smt__TLA____Mem smt__a2 (smt__TLA____SetEnum__2 smt__a1 smt__a2)))
        :pattern ((smt__TLA____SetEnum__2 smt__a1 smt__a2))))
    :named |EnumDefIntro 2|))

;; Axiom: EnumDefIntro 3
(assert
  (!
    (forall ((smt__a1 Idv) (smt__a2 Idv) (smt__a3 Idv))
      (!
        (and
          (smt__TLA____Mem smt__a1
            (smt__TLA____SetEnum__3 smt__a1 smt__a2 smt__a3))
          (smt__TLA____Mem smt__a2
            (smt__TLA____SetEnum__3 smt__a1 smt__a2 smt__a3))
          (smt__TLA____Mem smt__a3
            (smt__TLA____SetEnum__3 smt__a1 smt__a2 smt__a3)))
        :pattern ((smt__TLA____SetEnum__3 smt__a1 smt__a2 smt__a3))))
    :named |EnumDefIntro 3|))

;; Axiom: EnumDefIntro 4
(assert
  (!
    (forall ((smt__a1 Idv) (smt__a2 Idv) (smt__a3 Idv) (smt__a4 Idv))
      (!
        (and
          (smt__TLA____Mem smt__a1
            (smt__TLA____SetEnum__4 smt__a1 smt__a2 smt__a3 smt__a4))
          (smt__TLA____Mem smt__a2
            (smt__TLA____SetEnum__4 smt__a1 smt__a2 smt__a3 smt__a4))
          (smt__TLA____Mem smt__a3
            (smt__TLA____SetEnum__4 smt__a1 smt__a2 smt__a3 smt__a4))
          (smt__TLA____Mem smt__a4
            (smt__TLA____SetEnum__4 smt__a1 smt__a2 smt__a3 smt__a4)))
        :pattern ((smt__TLA____SetEnum__4 smt__a1 smt__a2 smt__a3 smt__a4))))
    :named |EnumDefIntro 4|))

;; Axiom: EnumDefIntro 5
(assert
  (!
    (forall
      ((smt__a1 Idv) (smt__a2 Idv) (smt__a3 Idv) (smt__a4 Idv) (smt__a5 Idv))
      (!
        (and
          (smt__TLA____Mem smt__a1
            (smt__TLA____SetEnum__5 smt__a1 smt__a2 smt__a3 smt__a4 smt__a5))
          (smt__TLA____Mem smt__a2
            (smt__TLA____SetEnum__5 smt__a1 smt__a2 smt__a3 smt__a4 smt__a5))
          (smt__TLA____Mem smt__a3
            (smt__TLA____SetEnum__5 smt__a1 smt__a2 smt__a3 smt__a4 smt__a5))
          (smt__TLA____Mem smt__a4
            (smt__TLA____SetEnum__5 smt__a1 smt__a2 smt__a3 smt__a4 smt__a5))
          (smt__TLA____Mem smt__a5
            (smt__TLA____SetEnum__5 smt__a1 smt__a2 smt__a3 smt__a4 smt__a5)))
        :pattern ((smt__TLA____SetEnum__5 smt__a1 smt__a2 smt__a3 smt__a4
                    smt__a5)))) :named |EnumDefIntro 5|))

;; Axiom: EnumDefIntro 9
(assert
  (!
    (forall
      ((smt__a1 Idv) (smt__a2 Idv) (smt__a3 Idv) (smt__a4 Idv) (smt__a5 Idv)
        (smt__a6 Idv) (smt__a7 Idv) (smt__a8 Idv) (smt__a9 Idv))
      (!
        (and
          (smt__TLA____Mem smt__a1
            (smt__TLA____SetEnum__9 smt__a1 smt__a2 smt__a3 smt__a4 smt__a5
              smt__a6 smt__a7 smt__a8 smt__a9))
          (smt__TLA____Mem smt__a2
            (smt__TLA____SetEnum__9 smt__a1 smt__a2 smt__a3 smt__a4 smt__a5
              smt__a6 smt__a7 smt__a8 smt__a9))
          (smt__TLA____Mem smt__a3
            (smt__TLA____SetEnum__9 smt__a1 smt__a2 smt__a3 smt__a4 smt__a5
              smt__a6 smt__a7 smt__a8 smt__a9))
          (smt__TLA____Mem smt__a4
            (smt__TLA____SetEnum__9 smt__a1 smt__a2 smt__a3 smt__a4 smt__a5
              smt__a6 smt__a7 smt__a8 smt__a9))
          (smt__TLA____Mem smt__a5
            (smt__TLA____SetEnum__9 smt__a1 smt__a2 smt__a3 smt__a4 smt__a5
              smt__a6 smt__a7 smt__a8 smt__a9))
          (smt__TLA____Mem smt__a6
            (smt__TLA____SetEnum__9 smt__a1 smt__a2 smt__a3 smt__a4 smt__a5
              smt__a6 smt__a7 smt__a8 smt__a9))
          (smt__TLA____Mem smt__a7
            (smt__TLA____SetEnum__9 smt__a1 smt__a2 smt__a3 smt__a4 smt__a5
              smt__a6 smt__a7 smt__a8 smt__a9))
          (smt__TLA____Mem smt__a8
            (smt__TLA____SetEnum__9 smt__a1 smt__a2 smt__a3 smt__a4 smt__a5
              smt__a6 smt__a7 smt__a8 smt__a9))
          (smt__TLA____Mem smt__a9
            (smt__TLA____SetEnum__9 smt__a1 smt__a2 smt__a3 smt__a4 smt__a5
              smt__a6 smt__a7 smt__a8 smt__a9)))
        :pattern ((smt__TLA____SetEnum__9 smt__a1 smt__a2 smt__a3 smt__a4
                    smt__a5 smt__a6 smt__a7 smt__a8 smt__a9))))
    :named |EnumDefIntro 9|))

;; Axiom: EnumDefElim 1
(assert
  (!
    (forall ((smt__a1 Idv) (smt__x Idv))
      (!
        (=> (smt__TLA____Mem smt__x (smt__TLA____SetEnum__1 smt__a1))
          (= smt__x smt__a1))
        :pattern ((smt__TLA____Mem smt__x (smt__TLA____SetEnum__1 smt__a1)))))
    :named |EnumDefElim 1|))

;; Axiom: EnumDefElim 2
(assert
  (!
    (forall ((smt__a1 Idv) (smt__a2 Idv) (smt__x Idv))
      (!
        (=> (smt__TLA____Mem smt__x (smt__TLA____SetEnum__2 smt__a1 smt__a2))
          (or (= smt__x smt__a1) (= smt__x smt__a2)))
        :pattern ((smt__TLA____Mem smt__x
                    (smt__TLA____SetEnum__2 smt__a1 smt__a2)))))
    :named |EnumDefElim 2|))

;; Axiom: EnumDefElim 3
(assert
  (!
    (forall ((smt__a1 Idv) (smt__a2 Idv) (smt__a3 Idv) (smt__x Idv))
      (!
        (=>
          (smt__TLA____Mem smt__x
            (smt__TLA____SetEnum__3 smt__a1 smt__a2 smt__a3))
          (or (= smt__x smt__a1) (= smt__x smt__a2) (= smt__x smt__a3)))
        :pattern ((smt__TLA____Mem smt__x
                    (smt__TLA____SetEnum__3 smt__a1 smt__a2 smt__a3)))))
    :named |EnumDefElim 3|))

;; Axiom: EnumDefElim 4
(assert
  (!
    (forall
      ((smt__a1 Idv) (smt__a2 Idv) (smt__a3 Idv) (smt__a4 Idv) (smt__x Idv))
      (!
        (=>
          (smt__TLA____Mem smt__x
            (smt__TLA____SetEnum__4 smt__a1 smt__a2 smt__a3 smt__a4))
          (or (= smt__x smt__a1) (= smt__x smt__a2) (= smt__x smt__a3)
            (= smt__x smt__a4)))
        :pattern ((smt__TLA____Mem smt__x
                    (smt__TLA____SetEnum__4 smt__a1 smt__a2 smt__a3 smt__a4)))))
    :named |EnumDefElim 4|))

;; Axiom: EnumDefElim 5
(assert
  (!
    (forall
      ((smt__a1 Idv) (smt__a2 Idv) (smt__a3 Idv) (smt__a4 Idv) (smt__a5 Idv)
        (smt__x Idv))
      (!
        (=>
          (smt__TLA____Mem smt__x
            (smt__TLA____SetEnum__5 smt__a1 smt__a2 smt__a3 smt__a4 smt__a5))
          (or (= smt__x smt__a1) (= smt__x smt__a2) (= smt__x smt__a3)
            (= smt__x smt__a4) (= smt__x smt__a5)))
        :pattern ((smt__TLA____Mem smt__x
                    (smt__TLA____SetEnum__5 smt__a1 smt__a2 smt__a3 smt__a4
                      smt__a5))))) :named |EnumDefElim 5|))

;; Axiom: EnumDefElim 9
(assert
  (!
    (forall
      ((smt__a1 Idv) (smt__a2 Idv) (smt__a3 Idv) (smt__a4 Idv) (smt__a5 Idv)
        (smt__a6 Idv) (smt__a7 Idv) (smt__a8 Idv) (smt__a9 Idv) (smt__x Idv))
      (!
        (=>
          (smt__TLA____Mem smt__x
            (smt__TLA____SetEnum__9 smt__a1 smt__a2 smt__a3 smt__a4 smt__a5
              smt__a6 smt__a7 smt__a8 smt__a9))
          (or (= smt__x smt__a1) (= smt__x smt__a2) (= smt__x smt__a3)
            (= smt__x smt__a4) (= smt__x smt__a5) (= smt__x smt__a6)
            (= smt__x smt__a7) (= smt__x smt__a8) (= smt__x smt__a9)))
        :pattern ((smt__TLA____Mem smt__x
                    (smt__TLA____SetEnum__9 smt__a1 smt__a2 smt__a3 smt__a4
                      smt__a5 smt__a6 smt__a7 smt__a8 smt__a9)))))
    :named |EnumDefElim 9|))

;; Axiom: StrLitIsstr n
(assert
  (! (smt__TLA____Mem smt__TLA____StrLit__n smt__TLA____StrSet)
    :named |StrLitIsstr n|))

;; Axiom: StrLitIsstr ok
(assert
  (! (smt__TLA____Mem smt__TLA____StrLit__ok smt__TLA____StrSet)
    :named |StrLitIsstr ok|))

;; Axiom: StrLitIsstr val
(assert
  (! (smt__TLA____Mem smt__TLA____StrLit__val smt__TLA____StrSet)
    :named |StrLitIsstr val|))

;; Axiom: StrLitDistinct ok n
(assert
  (! (distinct smt__TLA____StrLit__ok smt__TLA____StrLit__n)
    :named |StrLitDistinct ok n|))

;; Axiom: StrLitDistinct val n
(assert
  (! (distinct smt__TLA____StrLit__val smt__TLA____StrLit__n)
    :named |StrLitDistinct val n|))

;; Axiom: StrLitDistinct val ok
(assert
  (! (distinct smt__TLA____StrLit__val smt__TLA____StrLit__ok)
    :named |StrLitDistinct val ok|))

;; Axiom: TupIsafcn 1
(assert
  (!
    (forall ((smt__x1 Idv))
      (! (smt__TLA____FunIsafcn (smt__TLA____Tuple__1 smt__x1))
        :pattern ((smt__TLA____Tuple__1 smt__x1)))) :named |TupIsafcn 1|))

;; Axiom: TupIsafcn 2
(assert
  (!
    (forall ((smt__x1 Idv) (smt__x2 Idv))
      (! (smt__TLA____FunIsafcn (smt__TLA____Tuple__2 smt__x1 smt__x2))
        :pattern ((smt__TLA____Tuple__2 smt__x1 smt__x2))))
    :named |TupIsafcn 2|))

;; Axiom: TupIsafcn 3
(assert
  (!
    (forall ((smt__x1 Idv) (smt__x2 Idv) (smt__x3 Idv))
      (!
        (smt__TLA____FunIsafcn (smt__TLA____Tuple__3 smt__x1 smt__x2 smt__x3))
        :pattern ((smt__TLA____Tuple__3 smt__x1 smt__x2 smt__x3))))
    :named |TupIsafcn 3|))

;; Axiom: TupIsafcn 4
(assert
  (!
    (forall ((smt__x1 Idv) (smt__x2 Idv) (smt__x3 Idv) (smt__x4 Idv))
      (!
        (smt__TLA____FunIsafcn
          (smt__TLA____Tuple__4 smt__x1 smt__x2 smt__x3 smt__x4))
        :pattern ((smt__TLA____Tuple__4 smt__x1 smt__x2 smt__x3 smt__x4))))
    :named |TupIsafcn 4|))

;; Axiom: TupIsafcn 5
(assert
  (!
    (forall
      ((smt__x1 Idv) (smt__x2 Idv) (smt__x3 Idv) (smt__x4 Idv) (smt__x5 Idv))
      (!
        (smt__TLA____FunIsafcn
          (smt__TLA____Tuple__5 smt__x1 smt__x2 smt__x3 smt__x4 smt__x5))
        :pattern ((smt__TLA____Tuple__5 smt__x1 smt__x2 smt__x3 smt__x4
                    smt__x5)))) :named |TupIsafcn 5|))

;; Axiom: TupIsafcn 9
(assert
  (!
    (forall
      ((smt__x1 Idv) (smt__x2 Idv) (smt__x3 Idv) (smt__x4 Idv) (smt__x5 Idv)
        (smt__x6 Idv) (smt__x7 Idv) (smt__x8 Idv) (smt__x9 Idv))
      (!
        (smt__TLA____FunIsafcn
          (smt__TLA____Tuple__9 smt__x1 smt__x2 smt__x3 smt__x4 smt__x5
            smt__x6 smt__x7 smt__x8 smt__x9))
        :pattern ((smt__TLA____Tuple__9 smt__x1 smt__x2 smt__x3 smt__x4
                    smt__x5 smt__x6 smt__x7 smt__x8 smt__x9))))
    :named |TupIsafcn 9|))

;; Axiom: TupDomDef 1
(assert
  (!
    (forall ((smt__x1 Idv))
      (!
        (= (smt__TLA____FunDom (smt__TLA____Tuple__1 smt__x1))
          (smt__TLA____SetEnum__1 (smt__TLA____Cast__Int 1)))
        :pattern ((smt__TLA____Tuple__1 smt__x1)))) :named |TupDomDef 1|))

;; Axiom: TupDomDef 2
(assert
  (!
    (forall ((smt__x1 Idv) (smt__x2 Idv))
      (!
        (= (smt__TLA____FunDom (smt__TLA____Tuple__2 smt__x1 smt__x2))
          (smt__TLA____SetEnum__2 (smt__TLA____Cast__Int 1)
            (smt__TLA____Cast__Int 2)))
        :pattern ((smt__TLA____Tuple__2 smt__x1 smt__x2))))
    :named |TupDomDef 2|))

;; Axiom: TupDomDef 3
(assert
  (!
    (forall ((smt__x1 Idv) (smt__x2 Idv) (smt__x3 Idv))
      (!
        (=
          (smt__TLA____FunDom (smt__TLA____Tuple__3 smt__x1 smt__x2 smt__x3))
          (smt__TLA____SetEnum__3 (smt__TLA____Cast__Int 1)
            (smt__TLA____Cast__Int 2) (smt__TLA____Cast__Int 3)))
        :pattern ((smt__TLA____Tuple__3 smt__x1 smt__x2 smt__x3))))
    :named |TupDomDef 3|))

;; Axiom: TupDomDef 4
(assert
  (!
    (forall ((smt__x1 Idv) (smt__x2 Idv) (smt__x3 Idv) (smt__x4 Idv))
      (!
        (=
          (smt__TLA____FunDom
            (smt__TLA____Tuple__4 smt__x1 smt__x2 smt__x3 smt__x4))
          (smt__TLA____SetEnum__4 (smt__TLA____Cast__Int 1)
            (smt__TLA____Cast__Int 2) (smt__TLA____Cast__Int 3)
            (smt__TLA____Cast__Int 4)))
        :pattern ((smt__TLA____Tuple__4 smt__x1 smt__x2 smt__x3 smt__x4))))
    :named |TupDomDef 4|))

;; Axiom: TupDomDef 5
(assert
  (!
    (forall
      ((smt__x1 Idv) (smt__x2 Idv) (smt__x3 Idv) (smt__x4 Idv) (smt__x5 Idv))
      (!
        (=
          (smt__TLA____FunDom
            (smt__TLA____Tuple__5 smt__x1 smt__x2 smt__x3 smt__x4 smt__x5))
          (smt__TLA____SetEnum__5 (smt__TLA____Cast__Int 1)
            (smt__TLA____Cast__Int 2) (smt__TLA____Cast__Int 3)
            (smt__TLA____Cast__Int 4) (smt__TLA____Cast__Int 5)))
        :pattern ((smt__TLA____Tuple__5 smt__x1 smt__x2 smt__x3 smt__x4
                    smt__x5)))) :named |TupDomDef 5|))

;; Axiom: TupDomDef 9
(assert
  (!
    (forall
      ((smt__x1 Idv) (smt__x2 Idv) (smt__x3 Idv) (smt__x4 Idv) (smt__x5 Idv)
        (smt__x6 Idv) (smt__x7 Idv) (smt__x8 Idv) (smt__x9 Idv))
      (!
        (=
          (smt__TLA____FunDom
            (smt__TLA____Tuple__9 smt__x1 smt__x2 smt__x3 smt__x4 smt__x5
              smt__x6 smt__x7 smt__x8 smt__x9))
          (smt__TLA____SetEnum__9 (smt__TLA____Cast__Int 1)
            (smt__TLA____Cast__Int 2) (smt__TLA____Cast__Int 3)
            (smt__TLA____Cast__Int 4) (smt__TLA____Cast__Int 5)
            (smt__TLA____Cast__Int 6) (smt__TLA____Cast__Int 7)
            (smt__TLA____Cast__Int 8) (smt__TLA____Cast__Int 9)))
        :pattern ((smt__TLA____Tuple__9 smt__x1 smt__x2 smt__x3 smt__x4
                    smt__x5 smt__x6 smt__x7 smt__x8 smt__x9))))
    :named |TupDomDef 9|))

;; Axiom: TupAppDef 1
(assert
  (!
    (forall ((smt__x1 Idv))
      (!
        (=
          (smt__TLA____FunApp (smt__TLA____Tuple__1 smt__x1)
            (smt__TLA____Cast__Int 1)) smt__x1)
        :pattern ((smt__TLA____Tuple__1 smt__x1)))) :named |TupAppDef 1|))

;; Axiom: TupAppDef 2
(assert
  (!
    (forall ((smt__x1 Idv) (smt__x2 Idv))
      (!
        (and
          (=
            (smt__TLA____FunApp (smt__TLA____Tuple__2 smt__x1 smt__x2)
              (smt__TLA____Cast__Int 1)) smt__x1)
          (=
            (smt__TLA____FunApp (smt__TLA____Tuple__2 smt__x1 smt__x2)
              (smt__TLA____Cast__Int 2)) smt__x2))
        :pattern ((smt__TLA____Tuple__2 smt__x1 smt__x2))))
    :named |TupAppDef 2|))

;; Axiom: TupAppDef 3
(assert
  (!
    (forall ((smt__x1 Idv) (smt__x2 Idv) (smt__x3 Idv))
      (!
        (and
          (=
            (smt__TLA____FunApp
              (smt__TLA____Tuple__3 smt__x1 smt__x2 smt__x3)
              (smt__TLA____Cast__Int 1)) smt__x1)
          (=
            (smt__TLA____FunApp
              (smt__TLA____Tuple__3 smt__x1 smt__x2 smt__x3)
              (smt__TLA____Cast__Int 2)) smt__x2)
          (=
            (smt__TLA____FunApp
              (smt__TLA____Tuple__3 smt__x1 smt__x2 smt__x3)
              (smt__TLA____Cast__Int 3)) smt__x3))
        :pattern ((smt__TLA____Tuple__3 smt__x1 smt__x2 smt__x3))))
    :named |TupAppDef 3|))

;; Axiom: TupAppDef 4
(assert
  (!
    (forall ((smt__x1 Idv) (smt__x2 Idv) (smt__x3 Idv) (smt__x4 Idv))
      (!
        (and
          (=
            (smt__TLA____FunApp
              (smt__TLA____Tuple__4 smt__x1 smt__x2 smt__x3 smt__x4)
              (smt__TLA____Cast__Int 1)) smt__x1)
          (=
            (smt__TLA____FunApp
              (smt__TLA____Tuple__4 smt__x1 smt__x2 smt__x3 smt__x4)
              (smt__TLA____Cast__Int 2)) smt__x2)
          (=
            (smt__TLA____FunApp
              (smt__TLA____Tuple__4 smt__x1 smt__x2 smt__x3 smt__x4)
              (smt__TLA____Cast__Int 3)) smt__x3)
          (=
            (smt__TLA____FunApp
              (smt__TLA____Tuple__4 smt__x1 smt__x2 smt__x3 smt__x4)
              (smt__TLA____Cast__Int 4)) smt__x4))
        :pattern ((smt__TLA____Tuple__4 smt__x1 smt__x2 smt__x3 smt__x4))))
    :named |TupAppDef 4|))

;; Axiom: TupAppDef 5
(assert
  (!
    (forall
      ((smt__x1 Idv) (smt__x2 Idv) (smt__x3 Idv) (smt__x4 Idv) (smt__x5 Idv))
      (!
        (and
          (=
            (smt__TLA____FunApp
              (smt__TLA____Tuple__5 smt__x1 smt__x2 smt__x3 smt__x4 smt__x5)
              (smt__TLA____Cast__Int 1)) smt__x1)
          (=
            (smt__TLA____FunApp
              (smt__TLA____Tuple__5 smt__x1 smt__x2 smt__x3 smt__x4 smt__x5)
              (smt__TLA____Cast__Int 2)) smt__x2)
          (=
            (smt__TLA____FunApp
              (smt__TLA____Tuple__5 smt__x1 smt__x2 smt__x3 smt__x4 smt__x5)
              (smt__TLA____Cast__Int 3)) smt__x3)
          (=
            (smt__TLA____FunApp
              (smt__TLA____Tuple__5 smt__x1 smt__x2 smt__x3 smt__x4 smt__x5)
              (smt__TLA____Cast__Int 4)) smt__x4)
          (=
            (smt__TLA____FunApp
              (smt__TLA____Tuple__5 smt__x1 smt__x2 smt__x3 smt__x4 smt__x5)
              (smt__TLA____Cast__Int 5)) smt__x5))
        :pattern ((smt__TLA____Tuple__5 smt__x1 smt__x2 smt__x3 smt__x4
                    smt__x5)))) :named |TupAppDef 5|))

;; Axiom: TupAppDef 9
(assert
  (!
    (forall
      ((smt__x1 Idv) (smt__x2 Idv) (smt__x3 Idv) (smt__x4 Idv) (smt__x5 Idv)
        (smt__x6 Idv) (smt__x7 Idv) (smt__x8 Idv) (smt__x9 Idv))
      (!
        (and
          (=
            (smt__TLA____FunApp
              (smt__TLA____Tuple__9 smt__x1 smt__x2 smt__x3 smt__x4 smt__x5
                smt__x6 smt__x7 smt__x8 smt__x9) (smt__TLA____Cast__Int 1))
            smt__x1)
          (=
            (smt__TLA____FunApp
              (smt__TLA____Tuple__9 smt__x1 smt__x2 smt__x3 smt__x4 smt__x5
                smt__x6 smt__x7 smt__x8 smt__x9) (smt__TLA____Cast__Int 2))
            smt__x2)
          (=
            (smt__TLA____FunApp
              (smt__TLA____Tuple__9 smt__x1 smt__x2 smt__x3 smt__x4 smt__x5
                smt__x6 smt__x7 smt__x8 smt__x9) (smt__TLA____Cast__Int 3))
            smt__x3)
          (=
            (smt__TLA____FunApp
              (smt__TLA____Tuple__9 smt__x1 smt__x2 smt__x3 smt__x4 smt__x5
                smt__x6 smt__x7 smt__x8 smt__x9) (smt__TLA____Cast__Int 4))
            smt__x4)
          (=
            (smt__TLA____FunApp
              (smt__TLA____Tuple__9 smt__x1 smt__x2 smt__x3 smt__x4 smt__x5
                smt__x6 smt__x7 smt__x8 smt__x9) (smt__TLA____Cast__Int 5))
            smt__x5)
          (=
            (smt__TLA____FunApp
              (smt__TLA____Tuple__9 smt__x1 smt__x2 smt__x3 smt__x4 smt__x5
                smt__x6 smt__x7 smt__x8 smt__x9) (smt__TLA____Cast__Int 6))
            smt__x6)
          (=
            (smt__TLA____FunApp
              (smt__TLA____Tuple__9 smt__x1 smt__x2 smt__x3 smt__x4 smt__x5
                smt__x6 smt__x7 smt__x8 smt__x9) (smt__TLA____Cast__Int 7))
            smt__x7)
          (=
            (smt__TLA____FunApp
              (smt__TLA____Tuple__9 smt__x1 smt__x2 smt__x3 smt__x4 smt__x5
                smt__x6 smt__x7 smt__x8 smt__x9) (smt__TLA____Cast__Int 8))
            smt__x8)
          (=
            (smt__TLA____FunApp
              (smt__TLA____Tuple__9 smt__x1 smt__x2 smt__x3 smt__x4 smt__x5
                smt__x6 smt__x7 smt__x8 smt__x9) (smt__TLA____Cast__Int 9))
            smt__x9))
        :pattern ((smt__TLA____Tuple__9 smt__x1 smt__x2 smt__x3 smt__x4
                    smt__x5 smt__x6 smt__x7 smt__x8 smt__x9))))
    :named |TupAppDef 9|))

;; Axiom: RecIsafcn n ok val
(assert
  (!
    (forall ((smt__x1 Idv) (smt__x2 Idv) (smt__x3 Idv))
      (!
        (smt__TLA____FunIsafcn
          (smt__TLA____Record__n__ok__val smt__x1 smt__x2 smt__x3))
        :pattern ((smt__TLA____Record__n__ok__val smt__x1 smt__x2 smt__x3))))
    :named |RecIsafcn n ok val|))

;; Axiom: RecDomDef n ok val
(assert
  (!
    (forall ((smt__x1 Idv) (smt__x2 Idv) (smt__x3 Idv))
      (!
        (=
          (smt__TLA____FunDom
            (smt__TLA____Record__n__ok__val smt__x1 smt__x2 smt__x3))
          (smt__TLA____SetEnum__3 smt__TLA____StrLit__n
            smt__TLA____StrLit__ok smt__TLA____StrLit__val))
        :pattern ((smt__TLA____Record__n__ok__val smt__x1 smt__x2 smt__x3))))
    :named |RecDomDef n ok val|))

;; Axiom: RecAppDef n ok val
(assert
  (!
    (forall ((smt__x1 Idv) (smt__x2 Idv) (smt__x3 Idv))
      (!
        (and
          (=
            (smt__TLA____FunApp
              (smt__TLA____Record__n__ok__val smt__x1 smt__x2 smt__x3)
              smt__TLA____StrLit__n) smt__x1)
          (=
            (smt__TLA____FunApp
              (smt__TLA____Record__n__ok__val smt__x1 smt__x2 smt__x3)
              smt__TLA____StrLit__ok) smt__x2)
          (=
            (smt__TLA____FunApp
              (smt__TLA____Record__n__ok__val smt__x1 smt__x2 smt__x3)
              smt__TLA____StrLit__val) smt__x3))
        :pattern ((smt__TLA____Record__n__ok__val smt__x1 smt__x2 smt__x3))))
    :named |RecAppDef n ok val|))

;; Axiom: SeqTupTyping 1
(assert
  (!
    (forall ((smt__a Idv) (smt__x1 Idv))
      (!
        (=> (smt__TLA____Mem smt__x1 smt__a)
          (smt__TLA____Mem (smt__TLA____Tuple__1 smt__x1)
            (smt__TLA____Seq smt__a)))
        :pattern ((smt__TLA____Mem smt__x1 smt__a)
                   (smt__TLA____Tuple__1 smt__x1)))) :named |SeqTupTyping 1|))

;; Axiom: SeqTupTyping 2
(assert
  (!
    (forall ((smt__a Idv) (smt__x1 Idv) (smt__x2 Idv))
      (!
        (=>
          (and (smt__TLA____Mem smt__x1 smt__a)
            (smt__TLA____Mem smt__x2 smt__a))
          (smt__TLA____Mem (smt__TLA____Tuple__2 smt__x1 smt__x2)
            (smt__TLA____Seq smt__a)))
        :pattern ((smt__TLA____Mem smt__x1 smt__a)
                   (smt__TLA____Mem smt__x2 smt__a)
                   (smt__TLA____Tuple__2 smt__x1 smt__x2))))
    :named |SeqTupTyping 2|))

;; Axiom: SeqTupTyping 3
(assert
  (!
    (forall ((smt__a Idv) (smt__x1 Idv) (smt__x2 Idv) (smt__x3 Idv))
      (!
        (=>
          (and (smt__TLA____Mem smt__x1 smt__a)
            (smt__TLA____Mem smt__x2 smt__a) (smt__TLA____Mem smt__x3 smt__a))
          (smt__TLA____Mem (smt__TLA____Tuple__3 smt__x1 smt__x2 smt__x3)
            (smt__TLA____Seq smt__a)))
        :pattern ((smt__TLA____Mem smt__x1 smt__a)
                   (smt__TLA____Mem smt__x2 smt__a)
                   (smt__TLA____Mem smt__x3 smt__a)
                   (smt__TLA____Tuple__3 smt__x1 smt__x2 smt__x3))))
    :named |SeqTupTyping 3|))

;; Axiom: SeqTupTyping 4
(assert
  (!
    (forall
      ((smt__a Idv) (smt__x1 Idv) (smt__x2 Idv) (smt__x3 Idv) (smt__x4 Idv))
      (!
        (=>
          (and (smt__TLA____Mem smt__x1 smt__a)
            (smt__TLA____Mem smt__x2 smt__a) (smt__TLA____Mem smt__x3 smt__a)
            (smt__TLA____Mem smt__x4 smt__a))
          (smt__TLA____Mem
            (smt__TLA____Tuple__4 smt__x1 smt__x2 smt__x3 smt__x4)
            (smt__TLA____Seq smt__a)))
        :pattern ((smt__TLA____Mem smt__x1 smt__a)
                   (smt__TLA____Mem smt__x2 smt__a)
                   (smt__TLA____Mem smt__x3 smt__a)
                   (smt__TLA____Mem smt__x4 smt__a)
                   (smt__TLA____Tuple__4 smt__x1 smt__x2 smt__x3 smt__x4))))
    :named |SeqTupTyping 4|))

;; Axiom: SeqTupTyping 5
(assert
  (!
    (forall
      ((smt__a Idv) (smt__x1 Idv) (smt__x2 Idv) (smt__x3 Idv) (smt__x4 Idv)
        (smt__x5 Idv))
      (!
        (=>
          (and (smt__TLA____Mem smt__x1 smt__a)
            (smt__TLA____Mem smt__x2 smt__a) (smt__TLA____Mem smt__x3 smt__a)
            (smt__TLA____Mem smt__x4 smt__a) (smt__TLA____Mem smt__x5 smt__a))
          (smt__TLA____Mem
            (smt__TLA____Tuple__5 smt__x1 smt__x2 smt__x3 smt__x4 smt__x5)
            (smt__TLA____Seq smt__a)))
        :pattern ((smt__TLA____Mem smt__x1 smt__a)
                   (smt__TLA____Mem smt__x2 smt__a)
                   (smt__TLA____Mem smt__x3 smt__a)
                   (smt__TLA____Mem smt__x4 smt__a)
                   (smt__TLA____Mem smt__x5 smt__a)
                   (smt__TLA____Tuple__5 smt__x1 smt__x2 smt__x3 smt__x4
                     smt__x5)))) :named |SeqTupTyping 5|))

;; Axiom: SeqTupTyping 9
(assert
  (!
    (forall
      ((smt__a Idv) (smt__x1 Idv) (smt__x2 Idv) (smt__x3 Idv) (smt__x4 Idv)
        (smt__x5 Idv) (smt__x6 Idv) (smt__x7 Idv) (smt__x8 Idv) (smt__x9 Idv))
      (!
        (=>
          (and (smt__TLA____Mem smt__x1 smt__a)
            (smt__TLA____Mem smt__x2 smt__a) (smt__TLA____Mem smt__x3 smt__a)
            (smt__TLA____Mem smt__x4 smt__a) (smt__TLA____Mem smt__x5 smt__a)
            (smt__TLA____Mem smt__x6 smt__a) (smt__TLA____Mem smt__x7 smt__a)
            (smt__TLA____Mem smt__x8 smt__a) (smt__TLA____Mem smt__x9 smt__a))
          (smt__TLA____Mem
            (smt__TLA____Tuple__9 smt__x1 smt__x2 smt__x3 smt__x4 smt__x5
              smt__x6 smt__x7 smt__x8 smt__x9) (smt__TLA____Seq smt__a)))
        :pattern ((smt__TLA____Mem smt__x1 smt__a)
                   (smt__TLA____Mem smt__x2 smt__a)
                   (smt__TLA____Mem smt__x3 smt__a)
                   (smt__TLA____Mem smt__x4 smt__a)
                   (smt__TLA____Mem smt__x5 smt__a)
                   (smt__TLA____Mem smt__x6 smt__a)
                   (smt__TLA____Mem smt__x7 smt__a)
                   (smt__TLA____Mem smt__x8 smt__a)
                   (smt__TLA____Mem smt__x9 smt__a)
                   (smt__TLA____Tuple__9 smt__x1 smt__x2 smt__x3 smt__x4
                     smt__x5 smt__x6 smt__x7 smt__x8 smt__x9))))
    :named |SeqTupTyping 9|))

;; Axiom: SeqTupLen 1
(assert
  (!
    (forall ((smt__x1 Idv))
      (!
        (= (smt__TLA____Len (smt__TLA____Tuple__1 smt__x1))
          (smt__TLA____Cast__Int 1))
        :pattern ((smt__TLA____Tuple__1 smt__x1)))) :named |SeqTupLen 1|))

;; Axiom: SeqTupLen 2
(assert
  (!
    (forall ((smt__x1 Idv) (smt__x2 Idv))
      (!
        (= (smt__TLA____Len (smt__TLA____Tuple__2 smt__x1 smt__x2))
          (smt__TLA____Cast__Int 2))
        :pattern ((smt__TLA____Tuple__2 smt__x1 smt__x2))))
    :named |SeqTupLen 2|))

;; Axiom: SeqTupLen 3
(assert
  (!
    (forall ((smt__x1 Idv) (smt__x2 Idv) (smt__x3 Idv))
      (!
        (= (smt__TLA____Len (smt__TLA____Tuple__3 smt__x1 smt__x2 smt__x3))
          (smt__TLA____Cast__Int 3))
        :pattern ((smt__TLA____Tuple__3 smt__x1 smt__x2 smt__x3))))
    :named |SeqTupLen 3|))

;; Axiom: SeqTupLen 4
(assert
  (!
    (forall ((smt__x1 Idv) (smt__x2 Idv) (smt__x3 Idv) (smt__x4 Idv))
      (!
        (=
          (smt__TLA____Len
            (smt__TLA____Tuple__4 smt__x1 smt__x2 smt__x3 smt__x4))
          (smt__TLA____Cast__Int 4))
        :pattern ((smt__TLA____Tuple__4 smt__x1 smt__x2 smt__x3 smt__x4))))
    :named |SeqTupLen 4|))

;; Axiom: SeqTupLen 5
(assert
  (!
    (forall
      ((smt__x1 Idv) (smt__x2 Idv) (smt__x3 Idv) (smt__x4 Idv) (smt__x5 Idv))
      (!
        (=
          (smt__TLA____Len
            (smt__TLA____Tuple__5 smt__x1 smt__x2 smt__x3 smt__x4 smt__x5))
          (smt__TLA____Cast__Int 5))
        :pattern ((smt__TLA____Tuple__5 smt__x1 smt__x2 smt__x3 smt__x4
                    smt__x5)))) :named |SeqTupLen 5|))

;; Axiom: SeqTupLen 9
(assert
  (!
    (forall
      ((smt__x1 Idv) (smt__x2 Idv) (smt__x3 Idv) (smt__x4 Idv) (smt__x5 Idv)
        (smt__x6 Idv) (smt__x7 Idv) (smt__x8 Idv) (smt__x9 Idv))
      (!
        (=
          (smt__TLA____Len
            (smt__TLA____Tuple__9 smt__x1 smt__x2 smt__x3 smt__x4 smt__x5
              smt__x6 smt__x7 smt__x8 smt__x9)) (smt__TLA____Cast__Int 9))
        :pattern ((smt__TLA____Tuple__9 smt__x1 smt__x2 smt__x3 smt__x4
                    smt__x5 smt__x6 smt__x7 smt__x8 smt__x9))))
    :named |SeqTupLen 9|))

;; Axiom: CastInjAlt Bool
(assert
  (!
    (and (= (smt__TLA____Cast__Bool true) smt__TLA____Tt__Idv)
      (distinct (smt__TLA____Cast__Bool false) smt__TLA____Tt__Idv))
    :named |CastInjAlt Bool|))

;; Axiom: CastInjAlt Int
(assert
  (!
    (forall ((smt__x Int))
      (! (= smt__x (smt__TLA____Proj__Int (smt__TLA____Cast__Int smt__x)))
        :pattern ((smt__TLA____Cast__Int smt__x)))) :named |CastInjAlt Int|))

;; Axiom: TypeGuardIntro Bool
(assert
  (!
    (forall ((smt__z Bool))
      (!
        (smt__TLA____Mem (smt__TLA____Cast__Bool smt__z) smt__TLA____BoolSet)
        :pattern ((smt__TLA____Cast__Bool smt__z))))
    :named |TypeGuardIntro Bool|))

;; Axiom: TypeGuardIntro Int
(assert
  (!
    (forall ((smt__z Int))
      (! (smt__TLA____Mem (smt__TLA____Cast__Int smt__z) smt__TLA____IntSet)
        :pattern ((smt__TLA____Cast__Int smt__z))))
    :named |TypeGuardIntro Int|))

;; Axiom: TypeGuardElim Bool
(assert
  (!
    (forall ((smt__x Idv))
      (!
        (=> (smt__TLA____Mem smt__x smt__TLA____BoolSet)
          (or (= smt__x (smt__TLA____Cast__Bool true))
            (= smt__x (smt__TLA____Cast__Bool false))))
        :pattern ((smt__TLA____Mem smt__x smt__TLA____BoolSet))))
    :named |TypeGuardElim Bool|))

;; Axiom: TypeGuardElim Int
(assert
  (!
    (forall ((smt__x Idv))
      (!
        (=> (smt__TLA____Mem smt__x smt__TLA____IntSet)
          (= smt__x (smt__TLA____Cast__Int (smt__TLA____Proj__Int smt__x))))
        :pattern ((smt__TLA____Mem smt__x smt__TLA____IntSet))))
    :named |TypeGuardElim Int|))

;; Axiom: Typing TIntPlus
(assert
  (!
    (forall ((smt__x1 Int) (smt__x2 Int))
      (!
        (=
          (smt__TLA____IntPlus (smt__TLA____Cast__Int smt__x1)
            (smt__TLA____Cast__Int smt__x2))
          (smt__TLA____Cast__Int (+ smt__x1 smt__x2)))
        :pattern ((smt__TLA____IntPlus (smt__TLA____Cast__Int smt__x1)
                    (smt__TLA____Cast__Int smt__x2)))))
    :named |Typing TIntPlus|))

;; Axiom: Typing TIntMinus
(assert
  (!
    (forall ((smt__x1 Int) (smt__x2 Int))
      (!
        (=
          (smt__TLA____IntMinus (smt__TLA____Cast__Int smt__x1)
            (smt__TLA____Cast__Int smt__x2))
          (smt__TLA____Cast__Int (- smt__x1 smt__x2)))
        :pattern ((smt__TLA____IntMinus (smt__TLA____Cast__Int smt__x1)
                    (smt__TLA____Cast__Int smt__x2)))))
    :named |Typing TIntMinus|))

;; Axiom: Typing TIntTimes
(assert
  (!
    (forall ((smt__x1 Int) (smt__x2 Int))
      (!
        (=
          (smt__TLA____IntTimes (smt__TLA____Cast__Int smt__x1)
            (smt__TLA____Cast__Int smt__x2))
          (smt__TLA____Cast__Int (* smt__x1 smt__x2)))
        :pattern ((smt__TLA____IntTimes (smt__TLA____Cast__Int smt__x1)
                    (smt__TLA____Cast__Int smt__x2)))))
    :named |Typing TIntTimes|))

;; Axiom: Typing TIntQuotient
(assert
  (!
    (forall ((smt__x Int) (smt__y Int))
      (!
        (=> (> smt__y 0)
          (=
            (smt__TLA____IntQuotient (smt__TLA____Cast__Int smt__x)
              (smt__TLA____Cast__Int smt__y))
            (smt__TLA____Cast__Int (div smt__x smt__y))))
        :pattern ((smt__TLA____IntQuotient (smt__TLA____Cast__Int smt__x)
                    (smt__TLA____Cast__Int smt__y)))))
    :named |Typing TIntQuotient|))

;; Axiom: Typing TIntRemainder
(assert
  (!
    (forall ((smt__x Int) (smt__y Int))
      (!
        (=> (> smt__y 0)
          (=
            (smt__TLA____IntRemainder (smt__TLA____Cast__Int smt__x)
              (smt__TLA____Cast__Int smt__y))
            (smt__TLA____Cast__Int (mod smt__x smt__y))))
        :pattern ((smt__TLA____IntRemainder (smt__TLA____Cast__Int smt__x)
                    (smt__TLA____Cast__Int smt__y)))))
    :named |Typing TIntRemainder|))

;; Axiom: Typing TIntLteq
(assert
  (!
    (forall ((smt__x1 Int) (smt__x2 Int))
      (!
        (=
          (smt__TLA____IntLteq (smt__TLA____Cast__Int smt__x1)
            (smt__TLA____Cast__Int smt__x2)) (<= smt__x1 smt__x2))
        :pattern ((smt__TLA____IntLteq (smt__TLA____Cast__Int smt__x1)
                    (smt__TLA____Cast__Int smt__x2)))))
    :named |Typing TIntLteq|))

(declare-fun smt__CONSTANT__Byte__ () Idv)

(declare-fun smt__CONSTANT__D16__ () Idv)

(declare-fun smt__CONSTANT__U64__ () Idv)

(declare-fun smt__CONSTANT__Fits32__ (Idv) Idv)

(declare-fun smt__CONSTANT__Small__ (Idv) Idv)

(declare-fun smt__CONSTANT__Low__ (Idv) Idv)

(declare-fun smt__CONSTANT__Leq__ (Idv Idv) Idv)

(declare-fun smt__CONSTANT__FromLow__ (Idv) Idv)

(declare-fun smt__CONSTANT__LenOf__ (Idv) Idv)

(declare-fun smt__CONSTANT__Enc__ (Idv) Idv)

(declare-fun smt__CONSTANT__Ok__ (Idv Idv) Idv)

(declare-fun smt__CONSTANT__ErrEmpty__ () Idv)

(declare-fun smt__CONSTANT__ErrTrunc__ (Idv) Idv)

(declare-fun smt__CONSTANT__ErrMarker__ (Idv) Idv)

(declare-fun smt__CONSTANT__Dec__ (Idv) Idv)

(declare-fun smt__CONSTANT__RoundTripAt__ (Idv) Idv)

(declare-fun smt__CONSTANT__CanonicalLenAt__ (Idv) Idv)

(declare-fun smt__CONSTANT__DecTotalAt__ (Idv) Idv)

(declare-fun smt__CONSTANT__DecPrefixAt__ (Idv) Idv)

(declare-fun smt__CONSTANT__EncThenTailAt__ (Idv Idv) Idv)

; hidden fact

; hidden fact

; omitted declaration of 'CONSTANT_EnabledWrapper_' (second-order)

; omitted declaration of 'CONSTANT_CdotWrapper_' (second-order)

(declare-fun smt__CONSTANT__MaxU64__ () Idv)

(declare-fun smt__CONSTANT__NU64__ () Idv)

(declare-fun smt__CONSTANT__Val__ (Idv) Idv)

; hidden fact

; hidden fact

; hidden fact

;; Goal
(assert
  (!
    (not
      (forall ((smt__CONSTANT__v__ Idv))
        (=>
          (smt__TLA____Mem smt__CONSTANT__v__
            (smt__TLA____IntRange (smt__TLA____Cast__Int 67824)
              (smt__TLA____Cast__Int 16777215)))
          (and
            (=
              (ite
                (=
                  (smt__TLA____Len
                    (ite
                      (smt__TLA____IntLteq smt__CONSTANT__v__
                        (smt__TLA____Cast__Int 240))
                      (smt__TLA____Tuple__1 smt__CONSTANT__v__)
                      (ite
                        (smt__TLA____IntLteq smt__CONSTANT__v__
                          (smt__TLA____Cast__Int 2287))
                        (smt__TLA____Tuple__2
                          (smt__TLA____IntRemainder
                            (smt__TLA____IntPlus
                              (smt__TLA____IntQuotient
                                (smt__TLA____IntMinus smt__CONSTANT__v__
                                  (smt__TLA____Cast__Int 240))
                                (smt__TLA____Cast__Int 256))
                              (smt__TLA____Cast__Int 241))
                            (smt__TLA____Cast__Int 256))
                          (smt__TLA____IntRemainder
                            (smt__TLA____IntMinus smt__CONSTANT__v__
                              (smt__TLA____Cast__Int 240))
                            (smt__TLA____Cast__Int 256)))
                        (ite
                          (smt__TLA____IntLteq smt__CONSTANT__v__
                            (smt__TLA____Cast__Int 67823))
                          (smt__TLA____Tuple__3 (smt__TLA____Cast__Int 249)
                            (smt__TLA____IntRemainder
                              (smt__TLA____IntQuotient
                                (smt__TLA____IntMinus smt__CONSTANT__v__
                                  (smt__TLA____Cast__Int 2288))
                                (smt__TLA____Cast__Int 256))
                              (smt__TLA____Cast__Int 256))
                            (smt__TLA____IntRemainder
                              (smt__TLA____IntMinus smt__CONSTANT__v__
                                (smt__TLA____Cast__Int 2288))
                              (smt__TLA____Cast__Int 256)))
                          (ite
                            (smt__TLA____IntLteq smt__CONSTANT__v__
                              (smt__TLA____Cast__Int 16777215))
                            (smt__TLA____Tuple__4 (smt__TLA____Cast__Int 250)
                              (smt__TLA____IntRemainder
                                (smt__TLA____IntQuotient smt__CONSTANT__v__
                                  (smt__TLA____Cast__Int 65536))
                                (smt__TLA____Cast__Int 256))
                              (smt__TLA____IntRemainder
                                (smt__TLA____IntQuotient smt__CONSTANT__v__
                                  (smt__TLA____Cast__Int 256))
                                (smt__TLA____Cast__Int 256))
                              (smt__TLA____IntRemainder smt__CONSTANT__v__
                                (smt__TLA____Cast__Int 256)))
                            (ite
                              (smt__TLA____IntLteq smt__CONSTANT__v__
                                (smt__TLA____Cast__Int 4294967295))
                              (smt__TLA____Tuple__5
                                (smt__TLA____Cast__Int 251)
                                (smt__TLA____IntRemainder
                                  (smt__TLA____IntQuotient smt__CONSTANT__v__
                                    (smt__TLA____Cast__Int 16777216))
                                  (smt__TLA____Cast__Int 256))
                                (smt__TLA____IntRemainder
                                  (smt__TLA____IntQuotient smt__CONSTANT__v__
                                    (smt__TLA____Cast__Int 65536))
                                  (smt__TLA____Cast__Int 256))
                                (smt__TLA____IntRemainder
                                  (smt__TLA____IntQuotient smt__CONSTANT__v__
                                    (smt__TLA____Cast__Int 256))
                                  (smt__TLA____Cast__Int 256))
                                (smt__TLA____IntRemainder smt__CONSTANT__v__
                                  (smt__TLA____Cast__Int 256)))
                              (smt__TLA____Tuple__9
                                (smt__TLA____Cast__Int 255)
                                (smt__TLA____IntRemainder
                                  (smt__TLA____IntQuotient smt__CONSTANT__v__
                                    (smt__TLA____Cast__Int 72057594037927936))
                                  (smt__TLA____Cast__Int 256))
                                (smt__TLA____IntRemainder
                                  (smt__TLA____IntQuotient smt__CONSTANT__v__
                                    (smt__TLA____Cast__Int 281474976710656))
                                  (smt__TLA____Cast__Int 256))
                                (smt__TLA____IntRemainder
                                  (smt__TLA____IntQuotient smt__CONSTANT__v__
                                    (smt__TLA____Cast__Int 1099511627776))
                                  (smt__TLA____Cast__Int 256))
                                (smt__TLA____IntRemainder
                                  (smt__TLA____IntQuotient smt__CONSTANT__v__
                                    (smt__TLA____Cast__Int 4294967296))
                                  (smt__TLA____Cast__Int 256))
                                (smt__TLA____IntRemainder
                                  (smt__TLA____IntQuotient smt__CONSTANT__v__
                                    (smt__TLA____Cast__Int 16777216))
                                  (smt__TLA____Cast__Int 256))
                                (smt__TLA____IntRemainder
                                  (smt__TLA____IntQuotient smt__CONSTANT__v__
                                    (smt__TLA____Cast__Int 65536))
                                  (smt__TLA____Cast__Int 256))
                                (smt__TLA____IntRemainder
                                  (smt__TLA____IntQuotient smt__CONSTANT__v__
                                    (smt__TLA____Cast__Int 256))
                                  (smt__TLA____Cast__Int 256))
                                (smt__TLA____IntRemainder smt__CONSTANT__v__
                                  (smt__TLA____Cast__Int 256)))))))))
                  (smt__TLA____Cast__Int 0)) smt__CONSTANT__ErrEmpty__
                (ite
                  (smt__TLA____IntLteq
                    (smt__TLA____FunApp
                      (ite
                        (smt__TLA____IntLteq smt__CONSTANT__v__
                          (smt__TLA____Cast__Int 240))
                        (smt__TLA____Tuple__1 smt__CONSTANT__v__)
                        (ite
                          (smt__TLA____IntLteq smt__CONSTANT__v__
                            (smt__TLA____Cast__Int 2287))
                          (smt__TLA____Tuple__2
                            (smt__TLA____IntRemainder
                              (smt__TLA____IntPlus
                                (smt__TLA____IntQuotient
                                  (smt__TLA____IntMinus smt__CONSTANT__v__
                                    (smt__TLA____Cast__Int 240))
                                  (smt__TLA____Cast__Int 256))
                                (smt__TLA____Cast__Int 241))
                              (smt__TLA____Cast__Int 256))
                            (smt__TLA____IntRemainder
                              (smt__TLA____IntMinus smt__CONSTANT__v__
                                (smt__TLA____Cast__Int 240))
                              (smt__TLA____Cast__Int 256)))
                          (ite
                            (smt__TLA____IntLteq smt__CONSTANT__v__
                              (smt__TLA____Cast__Int 67823))
                            (smt__TLA____Tuple__3 (smt__TLA____Cast__Int 249)
                              (smt__TLA____IntRemainder
                                (smt__TLA____IntQuotient
                                  (smt__TLA____IntMinus smt__CONSTANT__v__
                                    (smt__TLA____Cast__Int 2288))
                                  (smt__TLA____Cast__Int 256))
                                (smt__TLA____Cast__Int 256))
                              (smt__TLA____IntRemainder
                                (smt__TLA____IntMinus smt__CONSTANT__v__
                                  (smt__TLA____Cast__Int 2288))
                                (smt__TLA____Cast__Int 256)))
                            (ite
                              (smt__TLA____IntLteq smt__CONSTANT__v__
                                (smt__TLA____Cast__Int 16777215))
                              (smt__TLA____Tuple__4
                                (smt__TLA____Cast__Int 250)
                                (smt__TLA____IntRemainder
                                  (smt__TLA____IntQuotient smt__CONSTANT__v__
                                    (smt__TLA____Cast__Int 65536))
                                  (smt__TLA____Cast__Int 256))
                                (smt__TLA____IntRemainder
                                  (smt__TLA____IntQuotient smt__CONSTANT__v__
                                    (smt__TLA____Cast__Int 256))
                                  (smt__TLA____Cast__Int 256))
                                (smt__TLA____IntRemainder smt__CONSTANT__v__
                                  (smt__TLA____Cast__Int 256)))
                              (ite
                                (smt__TLA____IntLteq smt__CONSTANT__v__
                                  (smt__TLA____Cast__Int 4294967295))
                                (smt__TLA____Tuple__5
                                  (smt__TLA____Cast__Int 251)
                                  (smt__TLA____IntRemainder
                                    (smt__TLA____IntQuotient
                                      smt__CONSTANT__v__
                                      (smt__TLA____Cast__Int 16777216))
                                    (smt__TLA____Cast__Int 256))
                                  (smt__TLA____IntRemainder
                                    (smt__TLA____IntQuotient
                                      smt__CONSTANT__v__
                                      (smt__TLA____Cast__Int 65536))
                                    (smt__TLA____Cast__Int 256))
                                  (smt__TLA____IntRemainder
                                    (smt__TLA____IntQuotient
                                      smt__CONSTANT__v__
                                      (smt__TLA____Cast__Int 256))
                                    (smt__TLA____Cast__Int 256))
                                  (smt__TLA____IntRemainder
                                    smt__CONSTANT__v__
                                    (smt__TLA____Cast__Int 256)))
                                (smt__TLA____Tuple__9
                                  (smt__TLA____Cast__Int 255)
                                  (smt__TLA____IntRemainder
                                    (smt__TLA____IntQuotient
                                      smt__CONSTANT__v__
                                      (smt__TLA____Cast__Int
                                        72057594037927936))
                                    (smt__TLA____Cast__Int 256))
                                  (smt__TLA____IntRemainder
                                    (smt__TLA____IntQuotient
                                      smt__CONSTANT__v__
                                      (smt__TLA____Cast__Int 281474976710656))
                                    (smt__TLA____Cast__Int 256))
                                  (smt__TLA____IntRemainder
                                    (smt__TLA____IntQuotient
                                      smt__CONSTANT__v__
                                      (smt__TLA____Cast__Int 1099511627776))
                                    (smt__TLA____Cast__Int 256))
                                  (smt__TLA____IntRemainder
                                    (smt__TLA____IntQuotient
                                      smt__CONSTANT__v__
                                      (smt__TLA____Cast__Int 4294967296))
                                    (smt__TLA____Cast__Int 256))
                                  (smt__TLA____IntRemainder
                                    (smt__TLA____IntQuotient
                                      smt__CONSTANT__v__
                                      (smt__TLA____Cast__Int 16777216))
                                    (smt__TLA____Cast__Int 256))
                                  (smt__TLA____IntRemainder
                                    (smt__TLA____IntQuotient
                                      smt__CONSTANT__v__
                                      (smt__TLA____Cast__Int 65536))
                                    (smt__TLA____Cast__Int 256))
                                  (smt__TLA____IntRemainder
                                    (smt__TLA____IntQuotient
                                      smt__CONSTANT__v__
                                      (smt__TLA____Cast__Int 256))
                                    (smt__TLA____Cast__Int 256))
                                  (smt__TLA____IntRemainder
                                    smt__CONSTANT__v__
                                    (smt__TLA____Cast__Int 256))))))))
                      (smt__TLA____Cast__Int 1)) (smt__TLA____Cast__Int 240))
                  (smt__TLA____Record__n__ok__val (smt__TLA____Cast__Int 1)
                    (smt__TLA____Cast__Bool true)
                    (smt__TLA____FunApp
                      (ite
                        (smt__TLA____IntLteq smt__CONSTANT__v__
                          (smt__TLA____Cast__Int 240))
                        (smt__TLA____Tuple__1 smt__CONSTANT__v__)
                        (ite
                          (smt__TLA____IntLteq smt__CONSTANT__v__
                            (smt__TLA____Cast__Int 2287))
                          (smt__TLA____Tuple__2
                            (smt__TLA____IntRemainder
                              (smt__TLA____IntPlus
                                (smt__TLA____IntQuotient
                                  (smt__TLA____IntMinus smt__CONSTANT__v__
                                    (smt__TLA____Cast__Int 240))
                                  (smt__TLA____Cast__Int 256))
                                (smt__TLA____Cast__Int 241))
                              (smt__TLA____Cast__Int 256))
                            (smt__TLA____IntRemainder
                              (smt__TLA____IntMinus smt__CONSTANT__v__
                                (smt__TLA____Cast__Int 240))
                              (smt__TLA____Cast__Int 256)))
                          (ite
                            (smt__TLA____IntLteq smt__CONSTANT__v__
                              (smt__TLA____Cast__Int 67823))
                            (smt__TLA____Tuple__3 (smt__TLA____Cast__Int 249)
                              (smt__TLA____IntRemainder
                                (smt__TLA____IntQuotient
                                  (smt__TLA____IntMinus smt__CONSTANT__v__
                                    (smt__TLA____Cast__Int 2288))
                                  (smt__TLA____Cast__Int 256))
                                (smt__TLA____Cast__Int 256))
                              (smt__TLA____IntRemainder
                                (smt__TLA____IntMinus smt__CONSTANT__v__
                                  (smt__TLA____Cast__Int 2288))
                                (smt__TLA____Cast__Int 256)))
                            (ite
                              (smt__TLA____IntLteq smt__CONSTANT__v__
                                (smt__TLA____Cast__Int 16777215))
                              (smt__TLA____Tuple__4
                                (smt__TLA____Cast__Int 250)
                                (smt__TLA____IntRemainder
                                  (smt__TLA____IntQuotient smt__CONSTANT__v__
                                    (smt__TLA____Cast__Int 65536))
                                  (smt__TLA____Cast__Int 256))
                                (smt__TLA____IntRemainder
                                  (smt__TLA____IntQuotient smt__CONSTANT__v__
                                    (smt__TLA____Cast__Int 256))
                                  (smt__TLA____Cast__Int 256))
                                (smt__TLA____IntRemainder smt__CONSTANT__v__
                                  (smt__TLA____Cast__Int 256)))
                              (ite
                                (smt__TLA____IntLteq smt__CONSTANT__v__
                                  (smt__TLA____Cast__Int 4294967295))
                                (smt__TLA____Tuple__5
                                  (smt__TLA____Cast__Int 251)
                                  (smt__TLA____IntRemainder
                                    (smt__TLA____IntQuotient
                                      smt__CONSTANT__v__
                                      (smt__TLA____Cast__Int 16777216))
                                    (smt__TLA____Cast__Int 256))
                                  (smt__TLA____IntRemainder
                                    (smt__TLA____IntQuotient
                                      smt__CONSTANT__v__
                                      (smt__TLA____Cast__Int 65536))
                                    (smt__TLA____Cast__Int 256))
                                  (smt__TLA____IntRemainder
                                    (smt__TLA____IntQuotient
                                      smt__CONSTANT__v__
                                      (smt__TLA____Cast__Int 256))
                                    (smt__TLA____Cast__Int 256))
                                  (smt__TLA____IntRemainder
                                    smt__CONSTANT__v__
                                    (smt__TLA____Cast__Int 256)))
                                (smt__TLA____Tuple__9
                                  (smt__TLA____Cast__Int 255)
                                  (smt__TLA____IntRemainder
                                    (smt__TLA____IntQuotient
                                      smt__CONSTANT__v__
                                      (smt__TLA____Cast__Int
                                        72057594037927936))
                                    (smt__TLA____Cast__Int 256))
                                  (smt__TLA____IntRemainder
                                    (smt__TLA____IntQuotient
                                      smt__CONSTANT__v__
                                      (smt__TLA____Cast__Int 281474976710656))
                                    (smt__TLA____Cast__Int 256))
                                  (smt__TLA____IntRemainder
                                    (smt__TLA____IntQuotient
                                      smt__CONSTANT__v__
                                      (smt__TLA____Cast__Int 1099511627776))
                                    (smt__TLA____Cast__Int 256))
                                  (smt__TLA____IntRemainder
                                    (smt__TLA____IntQuotient
                                      smt__CONSTANT__v__
                                      (smt__TLA____Cast__Int 4294967296))
                                    (smt__TLA____Cast__Int 256))
                                  (smt__TLA____IntRemainder
                                    (smt__TLA____IntQuotient
                                      smt__CONSTANT__v__
                                      (smt__TLA____Cast__Int 16777216))
                                    (smt__TLA____Cast__Int 256))
                                  (smt__TLA____IntRemainder
                                    (smt__TLA____IntQuotient
                                      smt__CONSTANT__v__
                                      (smt__TLA____Cast__Int 65536))
                                    (smt__TLA____Cast__Int 256))
                                  (smt__TLA____IntRemainder
                                    (smt__TLA____IntQuotient
                                      smt__CONSTANT__v__
                                      (smt__TLA____Cast__Int 256))
                                    (smt__TLA____Cast__Int 256))
                                  (smt__TLA____IntRemainder
                                    smt__CONSTANT__v__
                                    (smt__TLA____Cast__Int 256))))))))
                      (smt__TLA____Cast__Int 1)))
                  (ite
                    (smt__TLA____IntLteq
                      (smt__TLA____FunApp
                        (ite
                          (smt__TLA____IntLteq smt__CONSTANT__v__
                            (smt__TLA____Cast__Int 240))
                          (smt__TLA____Tuple__1 smt__CONSTANT__v__)
                          (ite
                            (smt__TLA____IntLteq smt__CONSTANT__v__
                              (smt__TLA____Cast__Int 2287))
                            (smt__TLA____Tuple__2
                              (smt__TLA____IntRemainder
                                (smt__TLA____IntPlus
                                  (smt__TLA____IntQuotient
                                    (smt__TLA____IntMinus smt__CONSTANT__v__
                                      (smt__TLA____Cast__Int 240))
                                    (smt__TLA____Cast__Int 256))
                                  (smt__TLA____Cast__Int 241))
                                (smt__TLA____Cast__Int 256))
                              (smt__TLA____IntRemainder
                                (smt__TLA____IntMinus smt__CONSTANT__v__
                                  (smt__TLA____Cast__Int 240))
                                (smt__TLA____Cast__Int 256)))
                            (ite
                              (smt__TLA____IntLteq smt__CONSTANT__v__
                                (smt__TLA____Cast__Int 67823))
                              (smt__TLA____Tuple__3
                                (smt__TLA____Cast__Int 249)
                                (smt__TLA____IntRemainder
                                  (smt__TLA____IntQuotient
                                    (smt__TLA____IntMinus smt__CONSTANT__v__
                                      (smt__TLA____Cast__Int 2288))
                                    (smt__TLA____Cast__Int 256))
                                  (smt__TLA____Cast__Int 256))
                                (smt__TLA____IntRemainder
                                  (smt__TLA____IntMinus smt__CONSTANT__v__
                                    (smt__TLA____Cast__Int 2288))
                                  (smt__TLA____Cast__Int 256)))
                              (ite
                                (smt__TLA____IntLteq smt__CONSTANT__v__
                                  (smt__TLA____Cast__Int 16777215))
                                (smt__TLA____Tuple__4
                                  (smt__TLA____Cast__Int 250)
                                  (smt__TLA____IntRemainder
                                    (smt__TLA____IntQuotient
                                      smt__CONSTANT__v__
                                      (smt__TLA____Cast__Int 65536))
                                    (smt__TLA____Cast__Int 256))
                                  (smt__TLA____IntRemainder
                                    (smt__TLA____IntQuotient
                                      smt__CONSTANT__v__
                                      (smt__TLA____Cast__Int 256))
                                    (smt__TLA____Cast__Int 256))
                                  (smt__TLA____IntRemainder
                                    smt__CONSTANT__v__
                                    (smt__TLA____Cast__Int 256)))
                                (ite
                                  (smt__TLA____IntLteq smt__CONSTANT__v__
                                    (smt__TLA____Cast__Int 4294967295))
                                  (smt__TLA____Tuple__5
                                    (smt__TLA____Cast__Int 251)
                                    (smt__TLA____IntRemainder
                                      (smt__TLA____IntQuotient
                                        smt__CONSTANT__v__
                                        (smt__TLA____Cast__Int 16777216))
                                      (smt__TLA____Cast__Int 256))
                                    (smt__TLA____IntRemainder
                                      (smt__TLA____IntQuotient
                                        smt__CONSTANT__v__
                                        (smt__TLA____Cast__Int 65536))
                                      (smt__TLA____Cast__Int 256))
                                    (smt__TLA____IntRemainder
                                      (smt__TLA____IntQuotient
                                        smt__CONSTANT__v__
                                        (smt__TLA____Cast__Int 256))
                                      (smt__TLA____Cast__Int 256))
                                    (smt__TLA____IntRemainder
                                      smt__CONSTANT__v__
                                      (smt__TLA____Cast__Int 256)))
                                  (smt__TLA____Tuple__9
                                    (smt__TLA____Cast__Int 255)
                                    (smt__TLA____IntRemainder
                                      (smt__TLA____IntQuotient
                                        smt__CONSTANT__v__
                                        (smt__TLA____Cast__Int
                                          72057594037927936))
                                      (smt__TLA____Cast__Int 256))
                                    (smt__TLA____IntRemainder
                                      (smt__TLA____IntQuotient
                                        smt__CONSTANT__v__
                                        (smt__TLA____Cast__Int
                                          281474976710656))
                                      (smt__TLA____Cast__Int 256))
                                    (smt__TLA____IntRemainder
                                      (smt__TLA____IntQuotient
                                        smt__CONSTANT__v__
                                        (smt__TLA____Cast__Int 1099511627776))
                                      (smt__TLA____Cast__Int 256))
                                    (smt__TLA____IntRemainder
                                      (smt__TLA____IntQuotient
                                        smt__CONSTANT__v__
                                        (smt__TLA____Cast__Int 4294967296))
                                      (smt__TLA____Cast__Int 256))
                                    (smt__TLA____IntRemainder
                                      (smt__TLA____IntQuotient
                                        smt__CONSTANT__v__
                                        (smt__TLA____Cast__Int 16777216))
                                      (smt__TLA____Cast__Int 256))
                                    (smt__TLA____IntRemainder
                                      (smt__TLA____IntQuotient
                                        smt__CONSTANT__v__
                                        (smt__TLA____Cast__Int 65536))
                                      (smt__TLA____Cast__Int 256))
                                    (smt__TLA____IntRemainder
                                      (smt__TLA____IntQuotient
                                        smt__CONSTANT__v__
                                        (smt__TLA____Cast__Int 256))
                                      (smt__TLA____Cast__Int 256))
                                    (smt__TLA____IntRemainder
                                      smt__CONSTANT__v__
                                      (smt__TLA____Cast__Int 256))))))))
                        (smt__TLA____Cast__Int 1))
                      (smt__TLA____Cast__Int 248))
                    (ite
                      (and
                        (smt__TLA____IntLteq
                          (smt__TLA____Len
                            (ite
                              (smt__TLA____IntLteq smt__CONSTANT__v__
                                (smt__TLA____Cast__Int 240))
                              (smt__TLA____Tuple__1 smt__CONSTANT__v__)
                              (ite
                                (smt__TLA____IntLteq smt__CONSTANT__v__
                                  (smt__TLA____Cast__Int 2287))
                                (smt__TLA____Tuple__2
                                  (smt__TLA____IntRemainder
                                    (smt__TLA____IntPlus
                                      (smt__TLA____IntQuotient
                                        (smt__TLA____IntMinus
                                          smt__CONSTANT__v__
                                          (smt__TLA____Cast__Int 240))
                                        (smt__TLA____Cast__Int 256))
                                      (smt__TLA____Cast__Int 241))
                                    (smt__TLA____Cast__Int 256))
                                  (smt__TLA____IntRemainder
                                    (smt__TLA____IntMinus smt__CONSTANT__v__
                                      (smt__TLA____Cast__Int 240))
                                    (smt__TLA____Cast__Int 256)))
                                (ite
                                  (smt__TLA____IntLteq smt__CONSTANT__v__
                                    (smt__TLA____Cast__Int 67823))
                                  (smt__TLA____Tuple__3
                                    (smt__TLA____Cast__Int 249)
                                    (smt__TLA____IntRemainder
                                      (smt__TLA____IntQuotient
                                        (smt__TLA____IntMinus
                                          smt__CONSTANT__v__
                                          (smt__TLA____Cast__Int 2288))
                                        (smt__TLA____Cast__Int 256))
                                      (smt__TLA____Cast__Int 256))
                                    (smt__TLA____IntRemainder
                                      (smt__TLA____IntMinus
                                        smt__CONSTANT__v__
                                        (smt__TLA____Cast__Int 2288))
                                      (smt__TLA____Cast__Int 256)))
                                  (ite
                                    (smt__TLA____IntLteq smt__CONSTANT__v__
                                      (smt__TLA____Cast__Int 16777215))
                                    (smt__TLA____Tuple__4
                                      (smt__TLA____Cast__Int 250)
                                      (smt__TLA____IntRemainder
                                        (smt__TLA____IntQuotient
                                          smt__CONSTANT__v__
                                          (smt__TLA____Cast__Int 65536))
                                        (smt__TLA____Cast__Int 256))
                                      (smt__TLA____IntRemainder
                                        (smt__TLA____IntQuotient
                                          smt__CONSTANT__v__
                                          (smt__TLA____Cast__Int 256))
                                        (smt__TLA____Cast__Int 256))
                                      (smt__TLA____IntRemainder
                                        smt__CONSTANT__v__
                                        (smt__TLA____Cast__Int 256)))
                                    (ite
                                      (smt__TLA____IntLteq smt__CONSTANT__v__
                                        (smt__TLA____Cast__Int 4294967295))
                                      (smt__TLA____Tuple__5
                                        (smt__TLA____Cast__Int 251)
                                        (smt__TLA____IntRemainder
                                          (smt__TLA____IntQuotient
                                            smt__CONSTANT__v__
                                            (smt__TLA____Cast__Int 16777216))
                                          (smt__TLA____Cast__Int 256))
                                        (smt__TLA____IntRemainder
                                          (smt__TLA____IntQuotient
                                            smt__CONSTANT__v__
                                            (smt__TLA____Cast__Int 65536))
                                          (smt__TLA____Cast__Int 256))
                                        (smt__TLA____IntRemainder
                                          (smt__TLA____IntQuotient
                                            smt__CONSTANT__v__
                                            (smt__TLA____Cast__Int 256))
                                          (smt__TLA____Cast__Int 256))
                                        (smt__TLA____IntRemainder
                                          smt__CONSTANT__v__
                                          (smt__TLA____Cast__Int 256)))
                                      (smt__TLA____Tuple__9
                                        (smt__TLA____Cast__Int 255)
                                        (smt__TLA____IntRemainder
                                          (smt__TLA____IntQuotient
                                            smt__CONSTANT__v__
                                            (smt__TLA____Cast__Int
                                              72057594037927936))
                                          (smt__TLA____Cast__Int 256))
                                        (smt__TLA____IntRemainder
                                          (smt__TLA____IntQuotient
                                            smt__CONSTANT__v__
                                            (smt__TLA____Cast__Int
                                              281474976710656))
                                          (smt__TLA____Cast__Int 256))
                                        (smt__TLA____IntRemainder
                                          (smt__TLA____IntQuotient
                                            smt__CONSTANT__v__
                                            (smt__TLA____Cast__Int
                                              1099511627776))
                                          (smt__TLA____Cast__Int 256))
                                        (smt__TLA____IntRemainder
                                          (smt__TLA____IntQuotient
                                            smt__CONSTANT__v__
                                            (smt__TLA____Cast__Int 4294967296))
                                          (smt__TLA____Cast__Int 256))
                                        (smt__TLA____IntRemainder
                                          (smt__TLA____IntQuotient
                                            smt__CONSTANT__v__
                                            (smt__TLA____Cast__Int 16777216))
                                          (smt__TLA____Cast__Int 256))
                                        (smt__TLA____IntRemainder
                                          (smt__TLA____IntQuotient
                                            smt__CONSTANT__v__
                                            (smt__TLA____Cast__Int 65536))
                                          (smt__TLA____Cast__Int 256))
                                        (smt__TLA____IntRemainder
                                          (smt__TLA____IntQuotient
                                            smt__CONSTANT__v__
                                            (smt__TLA____Cast__Int 256))
                                          (smt__TLA____Cast__Int 256))
                                        (smt__TLA____IntRemainder
                                          smt__CONSTANT__v__
                                          (smt__TLA____Cast__Int 256)))))))))
                          (smt__TLA____Cast__Int 2))
                        (distinct
                          (smt__TLA____Len
                            (ite
                              (smt__TLA____IntLteq smt__CONSTANT__v__
                                (smt__TLA____Cast__Int 240))
                              (smt__TLA____Tuple__1 smt__CONSTANT__v__)
                              (ite
                                (smt__TLA____IntLteq smt__CONSTANT__v__
                                  (smt__TLA____Cast__Int 2287))
                                (smt__TLA____Tuple__2
                                  (smt__TLA____IntRemainder
                                    (smt__TLA____IntPlus
                                      (smt__TLA____IntQuotient
                                        (smt__TLA____IntMinus
                                          smt__CONSTANT__v__
                                          (smt__TLA____Cast__Int 240))
                                        (smt__TLA____Cast__Int 256))
                                      (smt__TLA____Cast__Int 241))
                                    (smt__TLA____Cast__Int 256))
                                  (smt__TLA____IntRemainder
                                    (smt__TLA____IntMinus smt__CONSTANT__v__
                                      (smt__TLA____Cast__Int 240))
                                    (smt__TLA____Cast__Int 256)))
                                (ite
                                  (smt__TLA____IntLteq smt__CONSTANT__v__
                                    (smt__TLA____Cast__Int 67823))
                                  (smt__TLA____Tuple__3
                                    (smt__TLA____Cast__Int 249)
                                    (smt__TLA____IntRemainder
                                      (smt__TLA____IntQuotient
                                        (smt__TLA____IntMinus
                                          smt__CONSTANT__v__
                                          (smt__TLA____Cast__Int 2288))
                                        (smt__TLA____Cast__Int 256))
                                      (smt__TLA____Cast__Int 256))
                                    (smt__TLA____IntRemainder
                                      (smt__TLA____IntMinus
                                        smt__CONSTANT__v__
                                        (smt__TLA____Cast__Int 2288))
                                      (smt__TLA____Cast__Int 256)))
                                  (ite
                                    (smt__TLA____IntLteq smt__CONSTANT__v__
                                      (smt__TLA____Cast__Int 16777215))
                                    (smt__TLA____Tuple__4
                                      (smt__TLA____Cast__Int 250)
                                      (smt__TLA____IntRemainder
                                        (smt__TLA____IntQuotient
                                          smt__CONSTANT__v__
                                          (smt__TLA____Cast__Int 65536))
                                        (smt__TLA____Cast__Int 256))
                                      (smt__TLA____IntRemainder
                                        (smt__TLA____IntQuotient
                                          smt__CONSTANT__v__
                                          (smt__TLA____Cast__Int 256))
                                        (smt__TLA____Cast__Int 256))
                                      (smt__TLA____IntRemainder
                                        smt__CONSTANT__v__
                                        (smt__TLA____Cast__Int 256)))
                                    (ite
                                      (smt__TLA____IntLteq smt__CONSTANT__v__
                                        (smt__TLA____Cast__Int 4294967295))
                                      (smt__TLA____Tuple__5
                                        (smt__TLA____Cast__Int 251)
                                        (smt__TLA____IntRemainder
                                          (smt__TLA____IntQuotient
                                            smt__CONSTANT__v__
                                            (smt__TLA____Cast__Int 16777216))
                                          (smt__TLA____Cast__Int 256))
                                        (smt__TLA____IntRemainder
                                          (smt__TLA____IntQuotient
                                            smt__CONSTANT__v__
                                            (smt__TLA____Cast__Int 65536))
                                          (smt__TLA____Cast__Int 256))
                                        (smt__TLA____IntRemainder
                                          (smt__TLA____IntQuotient
                                            smt__CONSTANT__v__
                                            (smt__TLA____Cast__Int 256))
                                          (smt__TLA____Cast__Int 256))
                                        (smt__TLA____IntRemainder
                                          smt__CONSTANT__v__
                                          (smt__TLA____Cast__Int 256)))
                                      (smt__TLA____Tuple__9
                                        (smt__TLA____Cast__Int 255)
                                        (smt__TLA____IntRemainder
                                          (smt__TLA____IntQuotient
                                            smt__CONSTANT__v__
                                            (smt__TLA____Cast__Int
                                              72057594037927936))
                                          (smt__TLA____Cast__Int 256))
                                        (smt__TLA____IntRemainder
                                          (smt__TLA____IntQuotient
                                            smt__CONSTANT__v__
                                            (smt__TLA____Cast__Int
                                              281474976710656))
                                          (smt__TLA____Cast__Int 256))
                                        (smt__TLA____IntRemainder
                                          (smt__TLA____IntQuotient
                                            smt__CONSTANT__v__
                                            (smt__TLA____Cast__Int
                                              1099511627776))
                                          (smt__TLA____Cast__Int 256))
                                        (smt__TLA____IntRemainder
                                          (smt__TLA____IntQuotient
                                            smt__CONSTANT__v__
                                            (smt__TLA____Cast__Int 4294967296))
                                          (smt__TLA____Cast__Int 256))
                                        (smt__TLA____IntRemainder
                                          (smt__TLA____IntQuotient
                                            smt__CONSTANT__v__
                                            (smt__TLA____Cast__Int 16777216))
                                          (smt__TLA____Cast__Int 256))
                                        (smt__TLA____IntRemainder
                                          (smt__TLA____IntQuotient
                                            smt__CONSTANT__v__
                                            (smt__TLA____Cast__Int 65536))
                                          (smt__TLA____Cast__Int 256))
                                        (smt__TLA____IntRemainder
                                          (smt__TLA____IntQuotient
                                            smt__CONSTANT__v__
                                            (smt__TLA____Cast__Int 256))
                                          (smt__TLA____Cast__Int 256))
                                        (smt__TLA____IntRemainder
                                          smt__CONSTANT__v__
                                          (smt__TLA____Cast__Int 256)))))))))
                          (smt__TLA____Cast__Int 2)))
                      (smt__CONSTANT__ErrTrunc__ (smt__TLA____Cast__Int 2))
                      (smt__TLA____Record__n__ok__val
                        (smt__TLA____Cast__Int 2)
                        (smt__TLA____Cast__Bool true)
                        (smt__TLA____IntPlus
                          (smt__TLA____IntPlus (smt__TLA____Cast__Int 240)
                            (smt__TLA____IntTimes
                              (smt__TLA____IntMinus
                                (smt__TLA____FunApp
                                  (ite
                                    (smt__TLA____IntLteq smt__CONSTANT__v__
                                      (smt__TLA____Cast__Int 240))
                                    (smt__TLA____Tuple__1 smt__CONSTANT__v__)
                                    (ite
                                      (smt__TLA____IntLteq smt__CONSTANT__v__
                                        (smt__TLA____Cast__Int 2287))
                                      (smt__TLA____Tuple__2
                                        (smt__TLA____IntRemainder
                                          (smt__TLA____IntPlus
                                            (smt__TLA____IntQuotient
                                              (smt__TLA____IntMinus
                                                smt__CONSTANT__v__
                                                (smt__TLA____Cast__Int 240))
                                              (smt__TLA____Cast__Int 256))
                                            (smt__TLA____Cast__Int 241))
                                          (smt__TLA____Cast__Int 256))
                                        (smt__TLA____IntRemainder
                                          (smt__TLA____IntMinus
                                            smt__CONSTANT__v__
                                            (smt__TLA____Cast__Int 240))
                                          (smt__TLA____Cast__Int 256)))
                                      (ite
                                        (smt__TLA____IntLteq
                                          smt__CONSTANT__v__
                                          (smt__TLA____Cast__Int 67823))
                                        (smt__TLA____Tuple__3
                                          (smt__TLA____Cast__Int 249)
                                          (smt__TLA____IntRemainder
                                            (smt__TLA____IntQuotient
                                              (smt__TLA____IntMinus
                                                smt__CONSTANT__v__
                                                (smt__TLA____Cast__Int 2288))
                                              (smt__TLA____Cast__Int 256))
                                            (smt__TLA____Cast__Int 256))
                                          (smt__TLA____IntRemainder
                                            (smt__TLA____IntMinus
                                              smt__CONSTANT__v__
                                              (smt__TLA____Cast__Int 2288))
                                            (smt__TLA____Cast__Int 256)))
                                        (ite
                                          (smt__TLA____IntLteq
                                            smt__CONSTANT__v__
                                            (smt__TLA____Cast__Int 16777215))
                                          (smt__TLA____Tuple__4
                                            (smt__TLA____Cast__Int 250)
                                            (smt__TLA____IntRemainder
                                              (smt__TLA____IntQuotient
                                                smt__CONSTANT__v__
                                                (smt__TLA____Cast__Int 65536))
                                              (smt__TLA____Cast__Int 256))
                                            (smt__TLA____IntRemainder
                                              (smt__TLA____IntQuotient
                                                smt__CONSTANT__v__
                                                (smt__TLA____Cast__Int 256))
                                              (smt__TLA____Cast__Int 256))
                                            (smt__TLA____IntRemainder
                                              smt__CONSTANT__v__
                                              (smt__TLA____Cast__Int 256)))
                                          (ite
                                            (smt__TLA____IntLteq
                                              smt__CONSTANT__v__
                                              (smt__TLA____Cast__Int
                                                4294967295))
                                            (smt__TLA____Tuple__5
                                              (smt__TLA____Cast__Int 251)
                                              (smt__TLA____IntRemainder
                                                (smt__TLA____IntQuotient
                                                  smt__CONSTANT__v__
                                                  (smt__TLA____Cast__Int
                                                    16777216))
                                                (smt__TLA____Cast__Int 256))
                                              (smt__TLA____IntRemainder
                                                (smt__TLA____IntQuotient
                                                  smt__CONSTANT__v__
                                                  (smt__TLA____Cast__Int
                                                    65536))
                                                (smt__TLA____Cast__Int 256))
                                              (smt__TLA____IntRemainder
                                                (smt__TLA____IntQuotient
                                                  smt__CONSTANT__v__
                                                  (smt__TLA____Cast__Int 256))
                                                (smt__TLA____Cast__Int 256))
                                              (smt__TLA____IntRemainder
                                                smt__CONSTANT__v__
                                                (smt__TLA____Cast__Int 256)))
                                            (smt__TLA____Tuple__9
                                              (smt__TLA____Cast__Int 255)
                                              (smt__TLA____IntRemainder
                                                (smt__TLA____IntQuotient
                                                  smt__CONSTANT__v__
                                                  (smt__TLA____Cast__Int
                                                    72057594037927936))
                                                (smt__TLA____Cast__Int 256))
                                              (smt__TLA____IntRemainder
                                                (smt__TLA____IntQuotient
                                                  smt__CONSTANT__v__
                                                  (smt__TLA____Cast__Int
                                                    281474976710656))
                                                (smt__TLA____Cast__Int 256))
                                              (smt__TLA____IntRemainder
                                                (smt__TLA____IntQuotient
                                                  smt__CONSTANT__v__
                                                  (smt__TLA____Cast__Int
                                                    1099511627776))
                                                (smt__TLA____Cast__Int 256))
                                              (smt__TLA____IntRemainder
                                                (smt__TLA____IntQuotient
                                                  smt__CONSTANT__v__
                                                  (smt__TLA____Cast__Int
                                                    4294967296))
                                                (smt__TLA____Cast__Int 256))
                                              (smt__TLA____IntRemainder
                                                (smt__TLA____IntQuotient
                                                  smt__CONSTANT__v__
                                                  (smt__TLA____Cast__Int
                                                    16777216))
                                                (smt__TLA____Cast__Int 256))
                                              (smt__TLA____IntRemainder
                                                (smt__TLA____IntQuotient
                                                  smt__CONSTANT__v__
                                                  (smt__TLA____Cast__Int
                                                    65536))
                                                (smt__TLA____Cast__Int 256))
                                              (smt__TLA____IntRemainder
                                                (smt__TLA____IntQuotient
                                                  smt__CONSTANT__v__
                                                  (smt__TLA____Cast__Int 256))
                                                (smt__TLA____Cast__Int 256))
                                              (smt__TLA____IntRemainder
                                                smt__CONSTANT__v__
                                                (smt__TLA____Cast__Int 256))))))))
                                  (smt__TLA____Cast__Int 1))
                                (smt__TLA____Cast__Int 241))
                              (smt__TLA____Cast__Int 256)))
                          (smt__TLA____FunApp
                            (ite
                              (smt__TLA____IntLteq smt__CONSTANT__v__
                                (smt__TLA____Cast__Int 240))
                              (smt__TLA____Tuple__1 smt__CONSTANT__v__)
                              (ite
                                (smt__TLA____IntLteq smt__CONSTANT__v__
                                  (smt__TLA____Cast__Int 2287))
                                (smt__TLA____Tuple__2
                                  (smt__TLA____IntRemainder
                                    (smt__TLA____IntPlus
                                      (smt__TLA____IntQuotient
                                        (smt__TLA____IntMinus
                                          smt__CONSTANT__v__
                                          (smt__TLA____Cast__Int 240))
                                        (smt__TLA____Cast__Int 256))
                                      (smt__TLA____Cast__Int 241))
                                    (smt__TLA____Cast__Int 256))
                                  (smt__TLA____IntRemainder
                                    (smt__TLA____IntMinus smt__CONSTANT__v__
                                      (smt__TLA____Cast__Int 240))
                                    (smt__TLA____Cast__Int 256)))
                                (ite
                                  (smt__TLA____IntLteq smt__CONSTANT__v__
                                    (smt__TLA____Cast__Int 67823))
                                  (smt__TLA____Tuple__3
                                    (smt__TLA____Cast__Int 249)
                                    (smt__TLA____IntRemainder
                                      (smt__TLA____IntQuotient
                                        (smt__TLA____IntMinus
                                          smt__CONSTANT__v__
                                          (smt__TLA____Cast__Int 2288))
                                        (smt__TLA____Cast__Int 256))
                                      (smt__TLA____Cast__Int 256))
                                    (smt__TLA____IntRemainder
                                      (smt__TLA____IntMinus
                                        smt__CONSTANT__v__
                                        (smt__TLA____Cast__Int 2288))
                                      (smt__TLA____Cast__Int 256)))
                                  (ite
                                    (smt__TLA____IntLteq smt__CONSTANT__v__
                                      (smt__TLA____Cast__Int 16777215))
                                    (smt__TLA____Tuple__4
                                      (smt__TLA____Cast__Int 250)
                                      (smt__TLA____IntRemainder
                                        (smt__TLA____IntQuotient
                                          smt__CONSTANT__v__
                                          (smt__TLA____Cast__Int 65536))
                                        (smt__TLA____Cast__Int 256))
                                      (smt__TLA____IntRemainder
                                        (smt__TLA____IntQuotient
                                          smt__CONSTANT__v__
                                          (smt__TLA____Cast__Int 256))
                                        (smt__TLA____Cast__Int 256))
                                      (smt__TLA____IntRemainder
                                        smt__CONSTANT__v__
                                        (smt__TLA____Cast__Int 256)))
                                    (ite
                                      (smt__TLA____IntLteq smt__CONSTANT__v__
                                        (smt__TLA____Cast__Int 4294967295))
                                      (smt__TLA____Tuple__5
                                        (smt__TLA____Cast__Int 251)
                                        (smt__TLA____IntRemainder
                                          (smt__TLA____IntQuotient
                                            smt__CONSTANT__v__
                                            (smt__TLA____Cast__Int 16777216))
                                          (smt__TLA____Cast__Int 256))
                                        (smt__TLA____IntRemainder
                                          (smt__TLA____IntQuotient
                                            smt__CONSTANT__v__
                                            (smt__TLA____Cast__Int 65536))
                                          (smt__TLA____Cast__Int 256))
                                        (smt__TLA____IntRemainder
                                          (smt__TLA____IntQuotient
                                            smt__CONSTANT__v__
                                            (smt__TLA____Cast__Int 256))
                                          (smt__TLA____Cast__Int 256))
                                        (smt__TLA____IntRemainder
                                          smt__CONSTANT__v__
                                          (smt__TLA____Cast__Int 256)))
                                      (smt__TLA____Tuple__9
                                        (smt__TLA____Cast__Int 255)
                                        (smt__TLA____IntRemainder
                                          (smt__TLA____IntQuotient
                                            smt__CONSTANT__v__
                                            (smt__TLA____Cast__Int
                                              72057594037927936))
                                          (smt__TLA____Cast__Int 256))
                                        (smt__TLA____IntRemainder
                                          (smt__TLA____IntQuotient
                                            smt__CONSTANT__v__
                                            (smt__TLA____Cast__Int
                                              281474976710656))
                                          (smt__TLA____Cast__Int 256))
                                        (smt__TLA____IntRemainder
                                          (smt__TLA____IntQuotient
                                            smt__CONSTANT__v__
                                            (smt__TLA____Cast__Int
                                              1099511627776))
                                          (smt__TLA____Cast__Int 256))
                                        (smt__TLA____IntRemainder
                                          (smt__TLA____IntQuotient
                                            smt__CONSTANT__v__
                                            (smt__TLA____Cast__Int 4294967296))
                                          (smt__TLA____Cast__Int 256))
                                        (smt__TLA____IntRemainder
                                          (smt__TLA____IntQuotient
                                            smt__CONSTANT__v__
                                            (smt__TLA____Cast__Int 16777216))
                                          (smt__TLA____Cast__Int 256))
                                        (smt__TLA____IntRemainder
                                          (smt__TLA____IntQuotient
                                            smt__CONSTANT__v__
                                            (smt__TLA____Cast__Int 65536))
                                          (smt__TLA____Cast__Int 256))
                                        (smt__TLA____IntRemainder
                                          (smt__TLA____IntQuotient
                                            smt__CONSTANT__v__
                                            (smt__TLA____Cast__Int 256))
                                          (smt__TLA____Cast__Int 256))
                                        (smt__TLA____IntRemainder
                                          smt__CONSTANT__v__
                                          (smt__TLA____Cast__Int 256))))))))
                            (smt__TLA____Cast__Int 2)))))
                    (ite
                      (=
                        (smt__TLA____FunApp
                          (ite
                            (smt__TLA____IntLteq smt__CONSTANT__v__
                              (smt__TLA____Cast__Int 240))
                            (smt__TLA____Tuple__1 smt__CONSTANT__v__)
                            (ite
                              (smt__TLA____IntLteq smt__CONSTANT__v__
                                (smt__TLA____Cast__Int 2287))
                              (smt__TLA____Tuple__2
                                (smt__TLA____IntRemainder
                                  (smt__TLA____IntPlus
                                    (smt__TLA____IntQuotient
                                      (smt__TLA____IntMinus
                                        smt__CONSTANT__v__
                                        (smt__TLA____Cast__Int 240))
                                      (smt__TLA____Cast__Int 256))
                                    (smt__TLA____Cast__Int 241))
                                  (smt__TLA____Cast__Int 256))
                                (smt__TLA____IntRemainder
                                  (smt__TLA____IntMinus smt__CONSTANT__v__
                                    (smt__TLA____Cast__Int 240))
                                  (smt__TLA____Cast__Int 256)))
                              (ite
                                (smt__TLA____IntLteq smt__CONSTANT__v__
                                  (smt__TLA____Cast__Int 67823))
                                (smt__TLA____Tuple__3
                                  (smt__TLA____Cast__Int 249)
                                  (smt__TLA____IntRemainder
                                    (smt__TLA____IntQuotient
                                      (smt__TLA____IntMinus
                                        smt__CONSTANT__v__
                                        (smt__TLA____Cast__Int 2288))
                                      (smt__TLA____Cast__Int 256))
                                    (smt__TLA____Cast__Int 256))
                                  (smt__TLA____IntRemainder
                                    (smt__TLA____IntMinus smt__CONSTANT__v__
                                      (smt__TLA____Cast__Int 2288))
                                    (smt__TLA____Cast__Int 256)))
                                (ite
                                  (smt__TLA____IntLteq smt__CONSTANT__v__
                                    (smt__TLA____Cast__Int 16777215))
                                  (smt__TLA____Tuple__4
                                    (smt__TLA____Cast__Int 250)
                                    (smt__TLA____IntRemainder
                                      (smt__TLA____IntQuotient
                                        smt__CONSTANT__v__
                                        (smt__TLA____Cast__Int 65536))
                                      (smt__TLA____Cast__Int 256))
                                    (smt__TLA____IntRemainder
                                      (smt__TLA____IntQuotient
                                        smt__CONSTANT__v__
                                        (smt__TLA____Cast__Int 256))
                                      (smt__TLA____Cast__Int 256))
                                    (smt__TLA____IntRemainder
                                      smt__CONSTANT__v__
                                      (smt__TLA____Cast__Int 256)))
                                  (ite
                                    (smt__TLA____IntLteq smt__CONSTANT__v__
                                      (smt__TLA____Cast__Int 4294967295))
                                    (smt__TLA____Tuple__5
                                      (smt__TLA____Cast__Int 251)
                                      (smt__TLA____IntRemainder
                                        (smt__TLA____IntQuotient
                                          smt__CONSTANT__v__
                                          (smt__TLA____Cast__Int 16777216))
                                        (smt__TLA____Cast__Int 256))
                                      (smt__TLA____IntRemainder
                                        (smt__TLA____IntQuotient
                                          smt__CONSTANT__v__
                                          (smt__TLA____Cast__Int 65536))
                                        (smt__TLA____Cast__Int 256))
                                      (smt__TLA____IntRemainder
                                        (smt__TLA____IntQuotient
                                          smt__CONSTANT__v__
                                          (smt__TLA____Cast__Int 256))
                                        (smt__TLA____Cast__Int 256))
                                      (smt__TLA____IntRemainder
                                        smt__CONSTANT__v__
                                        (smt__TLA____Cast__Int 256)))
                                    (smt__TLA____Tuple__9
                                      (smt__TLA____Cast__Int 255)
                                      (smt__TLA____IntRemainder
                                        (smt__TLA____IntQuotient
                                          smt__CONSTANT__v__
                                          (smt__TLA____Cast__Int
                                            72057594037927936))
                                        (smt__TLA____Cast__Int 256))
                                      (smt__TLA____IntRemainder
                                        (smt__TLA____IntQuotient
                                          smt__CONSTANT__v__
                                          (smt__TLA____Cast__Int
                                            281474976710656))
                                        (smt__TLA____Cast__Int 256))
                                      (smt__TLA____IntRemainder
                                        (smt__TLA____IntQuotient
                                          smt__CONSTANT__v__
                                          (smt__TLA____Cast__Int
                                            1099511627776))
                                        (smt__TLA____Cast__Int 256))
                                      (smt__TLA____IntRemainder
                                        (smt__TLA____IntQuotient
                                          smt__CONSTANT__v__
                                          (smt__TLA____Cast__Int 4294967296))
                                        (smt__TLA____Cast__Int 256))
                                      (smt__TLA____IntRemainder
                                        (smt__TLA____IntQuotient
                                          smt__CONSTANT__v__
                                          (smt__TLA____Cast__Int 16777216))
                                        (smt__TLA____Cast__Int 256))
                                      (smt__TLA____IntRemainder
                                        (smt__TLA____IntQuotient
                                          smt__CONSTANT__v__
                                          (smt__TLA____Cast__Int 65536))
                                        (smt__TLA____Cast__Int 256))
                                      (smt__TLA____IntRemainder
                                        (smt__TLA____IntQuotient
                                          smt__CONSTANT__v__
                                          (smt__TLA____Cast__Int 256))
                                        (smt__TLA____Cast__Int 256))
                                      (smt__TLA____IntRemainder
                                        smt__CONSTANT__v__
                                        (smt__TLA____Cast__Int 256))))))))
                          (smt__TLA____Cast__Int 1))
                        (smt__TLA____Cast__Int 249))
                      (ite
                        (and
                          (smt__TLA____IntLteq
                            (smt__TLA____Len
                              (ite
                                (smt__TLA____IntLteq smt__CONSTANT__v__
                                  (smt__TLA____Cast__Int 240))
                                (smt__TLA____Tuple__1 smt__CONSTANT__v__)
                                (ite
                                  (smt__TLA____IntLteq smt__CONSTANT__v__
                                    (smt__TLA____Cast__Int 2287))
                                  (smt__TLA____Tuple__2
                                    (smt__TLA____IntRemainder
                                      (smt__TLA____IntPlus
                                        (smt__TLA____IntQuotient
                                          (smt__TLA____IntMinus
                                            smt__CONSTANT__v__
                                            (smt__TLA____Cast__Int 240))
                                          (smt__TLA____Cast__Int 256))
                                        (smt__TLA____Cast__Int 241))
                                      (smt__TLA____Cast__Int 256))
                                    (smt__TLA____IntRemainder
                                      (smt__TLA____IntMinus
                                        smt__CONSTANT__v__
                                        (smt__TLA____Cast__Int 240))
                                      (smt__TLA____Cast__Int 256)))
                                  (ite
                                    (smt__TLA____IntLteq smt__CONSTANT__v__
                                      (smt__TLA____Cast__Int 67823))
                                    (smt__TLA____Tuple__3
                                      (smt__TLA____Cast__Int 249)
                                      (smt__TLA____IntRemainder
                                        (smt__TLA____IntQuotient
                                          (smt__TLA____IntMinus
                                            smt__CONSTANT__v__
                                            (smt__TLA____Cast__Int 2288))
                                          (smt__TLA____Cast__Int 256))
                                        (smt__TLA____Cast__Int 256))
                                      (smt__TLA____IntRemainder
                                        (smt__TLA____IntMinus
                                          smt__CONSTANT__v__
                                          (smt__TLA____Cast__Int 2288))
                                        (smt__TLA____Cast__Int 256)))
                                    (ite
                                      (smt__TLA____IntLteq smt__CONSTANT__v__
                                        (smt__TLA____Cast__Int 16777215))
                                      (smt__TLA____Tuple__4
                                        (smt__TLA____Cast__Int 250)
                                        (smt__TLA____IntRemainder
                                          (smt__TLA____IntQuotient
                                            smt__CONSTANT__v__
                                            (smt__TLA____Cast__Int 65536))
                                          (smt__TLA____Cast__Int 256))
                                        (smt__TLA____IntRemainder
                                          (smt__TLA____IntQuotient
                                            smt__CONSTANT__v__
                                            (smt__TLA____Cast__Int 256))
                                          (smt__TLA____Cast__Int 256))
                                        (smt__TLA____IntRemainder
                                          smt__CONSTANT__v__
                                          (smt__TLA____Cast__Int 256)))
                                      (ite
                                        (smt__TLA____IntLteq
                                          smt__CONSTANT__v__
                                          (smt__TLA____Cast__Int 4294967295))
                                        (smt__TLA____Tuple__5
                                          (smt__TLA____Cast__Int 251)
                                          (smt__TLA____IntRemainder
                                            (smt__TLA____IntQuotient
                                              smt__CONSTANT__v__
                                              (smt__TLA____Cast__Int 16777216))
                                            (smt__TLA____Cast__Int 256))
                                          (smt__TLA____IntRemainder
                                            (smt__TLA____IntQuotient
                                              smt__CONSTANT__v__
                                              (smt__TLA____Cast__Int 65536))
                                            (smt__TLA____Cast__Int 256))
                                          (smt__TLA____IntRemainder
                                            (smt__TLA____IntQuotient
                                              smt__CONSTANT__v__
                                              (smt__TLA____Cast__Int 256))
                                            (smt__TLA____Cast__Int 256))
                                          (smt__TLA____IntRemainder
                                            smt__CONSTANT__v__
                                            (smt__TLA____Cast__Int 256)))
                                        (smt__TLA____Tuple__9
                                          (smt__TLA____Cast__Int 255)
                                          (smt__TLA____IntRemainder
                                            (smt__TLA____IntQuotient
                                              smt__CONSTANT__v__
                                              (smt__TLA____Cast__Int
                                                72057594037927936))
                                            (smt__TLA____Cast__Int 256))
                                          (smt__TLA____IntRemainder
                                            (smt__TLA____IntQuotient
                                              smt__CONSTANT__v__
                                              (smt__TLA____Cast__Int
                                                281474976710656))
                                            (smt__TLA____Cast__Int 256))
                                          (smt__TLA____IntRemainder
                                            (smt__TLA____IntQuotient
                                              smt__CONSTANT__v__
                                              (smt__TLA____Cast__Int
                                                1099511627776))
                                            (smt__TLA____Cast__Int 256))
                                          (smt__TLA____IntRemainder
                                            (smt__TLA____IntQuotient
                                              smt__CONSTANT__v__
                                              (smt__TLA____Cast__Int
                                                4294967296))
                                            (smt__TLA____Cast__Int 256))
                                          (smt__TLA____IntRemainder
                                            (smt__TLA____IntQuotient
                                              smt__CONSTANT__v__
                                              (smt__TLA____Cast__Int 16777216))
                                            (smt__TLA____Cast__Int 256))
                                          (smt__TLA____IntRemainder
                                            (smt__TLA____IntQuotient
                                              smt__CONSTANT__v__
                                              (smt__TLA____Cast__Int 65536))
                                            (smt__TLA____Cast__Int 256))
                                          (smt__TLA____IntRemainder
                                            (smt__TLA____IntQuotient
                                              smt__CONSTANT__v__
                                              (smt__TLA____Cast__Int 256))
                                            (smt__TLA____Cast__Int 256))
                                          (smt__TLA____IntRemainder
                                            smt__CONSTANT__v__
                                            (smt__TLA____Cast__Int 256)))))))))
                            (smt__TLA____Cast__Int 3))
                          (distinct
                            (smt__TLA____Len
                              (ite
                                (smt__TLA____IntLteq smt__CONSTANT__v__
                                  (smt__TLA____Cast__Int 240))
                                (smt__TLA____Tuple__1 smt__CONSTANT__v__)
                                (ite
                                  (smt__TLA____IntLteq smt__CONSTANT__v__
                                    (smt__TLA____Cast__Int 2287))
                                  (smt__TLA____Tuple__2
                                    (smt__TLA____IntRemainder
                                      (smt__TLA____IntPlus
                                        (smt__TLA____IntQuotient
                                          (smt__TLA____IntMinus
                                            smt__CONSTANT__v__
                                            (smt__TLA____Cast__Int 240))
                                          (smt__TLA____Cast__Int 256))
                                        (smt__TLA____Cast__Int 241))
                                      (smt__TLA____Cast__Int 256))
                                    (smt__TLA____IntRemainder
                                      (smt__TLA____IntMinus
                                        smt__CONSTANT__v__
                                        (smt__TLA____Cast__Int 240))
                                      (smt__TLA____Cast__Int 256)))
                                  (ite
                                    (smt__TLA____IntLteq smt__CONSTANT__v__
                                      (smt__TLA____Cast__Int 67823))
                                    (smt__TLA____Tuple__3
                                      (smt__TLA____Cast__Int 249)
                                      (smt__TLA____IntRemainder
                                        (smt__TLA____IntQuotient
                                          (smt__TLA____IntMinus
                                            smt__CONSTANT__v__
                                            (smt__TLA____Cast__Int 2288))
                                          (smt__TLA____Cast__Int 256))
                                        (smt__TLA____Cast__Int 256))
                                      (smt__TLA____IntRemainder
                                        (smt__TLA____IntMinus
                                          smt__CONSTANT__v__
                                          (smt__TLA____Cast__Int 2288))
                                        (smt__TLA____Cast__Int 256)))
                                    (ite
                                      (smt__TLA____IntLteq smt__CONSTANT__v__
                                        (smt__TLA____Cast__Int 16777215))
                                      (smt__TLA____Tuple__4
                                        (smt__TLA____Cast__Int 250)
                                        (smt__TLA____IntRemainder
                                          (smt__TLA____IntQuotient
                                            smt__CONSTANT__v__
                                            (smt__TLA____Cast__Int 65536))
                                          (smt__TLA____Cast__Int 256))
                                        (smt__TLA____IntRemainder
                                          (smt__TLA____IntQuotient
                                            smt__CONSTANT__v__
                                            (smt__TLA____Cast__Int 256))
                                          (smt__TLA____Cast__Int 256))
                                        (smt__TLA____IntRemainder
                                          smt__CONSTANT__v__
                                          (smt__TLA____Cast__Int 256)))
                                      (ite
                                        (smt__TLA____IntLteq
                                          smt__CONSTANT__v__
                                          (smt__TLA____Cast__Int 4294967295))
                                        (smt__TLA____Tuple__5
                                          (smt__TLA____Cast__Int 251)
                                          (smt__TLA____IntRemainder
                                            (smt__TLA____IntQuotient
                                              smt__CONSTANT__v__
                                              (smt__TLA____Cast__Int 16777216))
                                            (smt__TLA____Cast__Int 256))
                                          (smt__TLA____IntRemainder
                                            (smt__TLA____IntQuotient
                                              smt__CONSTANT__v__
                                              (smt__TLA____Cast__Int 65536))
                                            (smt__TLA____Cast__Int 256))
                                          (smt__TLA____IntRemainder
                                            (smt__TLA____IntQuotient
                                              smt__CONSTANT__v__
                                              (smt__TLA____Cast__Int 256))
                                            (smt__TLA____Cast__Int 256))
                                          (smt__TLA____IntRemainder
                                            smt__CONSTANT__v__
                                            (smt__TLA____Cast__Int 256)))
                                        (smt__TLA____Tuple__9
                                          (smt__TLA____Cast__Int 255)
                                          (smt__TLA____IntRemainder
                                            (smt__TLA____IntQuotient
                                              smt__CONSTANT__v__
                                              (smt__TLA____Cast__Int
                                                72057594037927936))
                                            (smt__TLA____Cast__Int 256))
                                          (smt__TLA____IntRemainder
                                            (smt__TLA____IntQuotient
                                              smt__CONSTANT__v__
                                              (smt__TLA____Cast__Int
                                                281474976710656))
                                            (smt__TLA____Cast__Int 256))
                                          (smt__TLA____IntRemainder
                                            (smt__TLA____IntQuotient
                                              smt__CONSTANT__v__
                                              (smt__TLA____Cast__Int
                                                1099511627776))
                                            (smt__TLA____Cast__Int 256))
                                          (smt__TLA____IntRemainder
                                            (smt__TLA____IntQuotient
                                              smt__CONSTANT__v__
                                              (smt__TLA____Cast__Int
                                                4294967296))
                                            (smt__TLA____Cast__Int 256))
                                          (smt__TLA____IntRemainder
                                            (smt__TLA____IntQuotient
                                              smt__CONSTANT__v__
                                              (smt__TLA____Cast__Int 16777216))
                                            (smt__TLA____Cast__Int 256))
                                          (smt__TLA____IntRemainder
                                            (smt__TLA____IntQuotient
                                              smt__CONSTANT__v__
                                              (smt__TLA____Cast__Int 65536))
                                            (smt__TLA____Cast__Int 256))
                                          (smt__TLA____IntRemainder
                                            (smt__TLA____IntQuotient
                                              smt__CONSTANT__v__
                                              (smt__TLA____Cast__Int 256))
                                            (smt__TLA____Cast__Int 256))
                                          (smt__TLA____IntRemainder
                                            smt__CONSTANT__v__
                                            (smt__TLA____Cast__Int 256)))))))))
                            (smt__TLA____Cast__Int 3)))
                        (smt__CONSTANT__ErrTrunc__ (smt__TLA____Cast__Int 3))
                        (smt__TLA____Record__n__ok__val
                          (smt__TLA____Cast__Int 3)
                          (smt__TLA____Cast__Bool true)
                          (smt__TLA____IntPlus
                            (smt__TLA____IntPlus (smt__TLA____Cast__Int 2288)
                              (smt__TLA____IntTimes
                                (smt__TLA____FunApp
                                  (ite
                                    (smt__TLA____IntLteq smt__CONSTANT__v__
                                      (smt__TLA____Cast__Int 240))
                                    (smt__TLA____Tuple__1 smt__CONSTANT__v__)
                                    (ite
                                      (smt__TLA____IntLteq smt__CONSTANT__v__
                                        (smt__TLA____Cast__Int 2287))
                                      (smt__TLA____Tuple__2
                                        (smt__TLA____IntRemainder
                                          (smt__TLA____IntPlus
                                            (smt__TLA____IntQuotient
                                              (smt__TLA____IntMinus
                                                smt__CONSTANT__v__
                                                (smt__TLA____Cast__Int 240))
                                              (smt__TLA____Cast__Int 256))
                                            (smt__TLA____Cast__Int 241))
                                          (smt__TLA____Cast__Int 256))
                                        (smt__TLA____IntRemainder
                                          (smt__TLA____IntMinus
                                            smt__CONSTANT__v__
                                            (smt__TLA____Cast__Int 240))
                                          (smt__TLA____Cast__Int 256)))
                                      (ite
                                        (smt__TLA____IntLteq
                                          smt__CONSTANT__v__
                                          (smt__TLA____Cast__Int 67823))
                                        (smt__TLA____Tuple__3
                                          (smt__TLA____Cast__Int 249)
                                          (smt__TLA____IntRemainder
                                            (smt__TLA____IntQuotient
                                              (smt__TLA____IntMinus
                                                smt__CONSTANT__v__
                                                (smt__TLA____Cast__Int 2288))
                                              (smt__TLA____Cast__Int 256))
                                            (smt__TLA____Cast__Int 256))
                                          (smt__TLA____IntRemainder
                                            (smt__TLA____IntMinus
                                              smt__CONSTANT__v__
                                              (smt__TLA____Cast__Int 2288))
                                            (smt__TLA____Cast__Int 256)))
                                        (ite
                                          (smt__TLA____IntLteq
                                            smt__CONSTANT__v__
                                            (smt__TLA____Cast__Int 16777215))
                                          (smt__TLA____Tuple__4
                                            (smt__TLA____Cast__Int 250)
                                            (smt__TLA____IntRemainder
                                              (smt__TLA____IntQuotient
                                                smt__CONSTANT__v__
                                                (smt__TLA____Cast__Int 65536))
                                              (smt__TLA____Cast__Int 256))
                                            (smt__TLA____IntRemainder
                                              (smt__TLA____IntQuotient
                                                smt__CONSTANT__v__
                                                (smt__TLA____Cast__Int 256))
                                              (smt__TLA____Cast__Int 256))
                                            (smt__TLA____IntRemainder
                                              smt__CONSTANT__v__
                                              (smt__TLA____Cast__Int 256)))
                                          (ite
                                            (smt__TLA____IntLteq
                                              smt__CONSTANT__v__
                                              (smt__TLA____Cast__Int
                                                4294967295))
                                            (smt__TLA____Tuple__5
                                              (smt__TLA____Cast__Int 251)
                                              (smt__TLA____IntRemainder
                                                (smt__TLA____IntQuotient
                                                  smt__CONSTANT__v__
                                                  (smt__TLA____Cast__Int
                                                    16777216))
                                                (smt__TLA____Cast__Int 256))
                                              (smt__TLA____IntRemainder
                                                (smt__TLA____IntQuotient
                                                  smt__CONSTANT__v__
                                                  (smt__TLA____Cast__Int
                                                    65536))
                                                (smt__TLA____Cast__Int 256))
                                              (smt__TLA____IntRemainder
                                                (smt__TLA____IntQuotient
                                                  smt__CONSTANT__v__
                                                  (smt__TLA____Cast__Int 256))
                                                (smt__TLA____Cast__Int 256))
                                              (smt__TLA____IntRemainder
                                                smt__CONSTANT__v__
                                                (smt__TLA____Cast__Int 256)))
                                            (smt__TLA____Tuple__9
                                              (smt__TLA____Cast__Int 255)
                                              (smt__TLA____IntRemainder
                                                (smt__TLA____IntQuotient
                                                  smt__CONSTANT__v__
                                                  (smt__TLA____Cast__Int
                                                    72057594037927936))
                                                (smt__TLA____Cast__Int 256))
                                              (smt__TLA____IntRemainder
                                                (smt__TLA____IntQuotient
                                                  smt__CONSTANT__v__
                                                  (smt__TLA____Cast__Int
                                                    281474976710656))
                                                (smt__TLA____Cast__Int 256))
                                              (smt__TLA____IntRemainder
                                                (smt__TLA____IntQuotient
                                                  smt__CONSTANT__v__
                                                  (smt__TLA____Cast__Int
                                                    1099511627776))
                                                (smt__TLA____Cast__Int 256))
                                              (smt__TLA____IntRemainder
                                                (smt__TLA____IntQuotient
                                                  smt__CONSTANT__v__
                                                  (smt__TLA____Cast__Int
                                                    4294967296))
                                                (smt__TLA____Cast__Int 256))
                                              (smt__TLA____IntRemainder
                                                (smt__TLA____IntQuotient
                                                  smt__CONSTANT__v__
                                                  (smt__TLA____Cast__Int
                                                    16777216))
                                                (smt__TLA____Cast__Int 256))
                                              (smt__TLA____IntRemainder
                                                (smt__TLA____IntQuotient
                                                  smt__CONSTANT__v__
                                                  (smt__TLA____Cast__Int
                                                    65536))
                                                (smt__TLA____Cast__Int 256))
                                              (smt__TLA____IntRemainder
                                                (smt__TLA____IntQuotient
                                                  smt__CONSTANT__v__
                                                  (smt__TLA____Cast__Int 256))
                                                (smt__TLA____Cast__Int 256))
                                              (smt__TLA____IntRemainder
                                                smt__CONSTANT__v__
                                                (smt__TLA____Cast__Int 256))))))))
                                  (smt__TLA____Cast__Int 2))
                                (smt__TLA____Cast__Int 256)))
                            (smt__TLA____FunApp
                              (ite
                                (smt__TLA____IntLteq smt__CONSTANT__v__
                                  (smt__TLA____Cast__Int 240))
                                (smt__TLA____Tuple__1 smt__CONSTANT__v__)
                                (ite
                                  (smt__TLA____IntLteq smt__CONSTANT__v__
                                    (smt__TLA____Cast__Int 2287))
                                  (smt__TLA____Tuple__2
                                    (smt__TLA____IntRemainder
                                      (smt__TLA____IntPlus
                                        (smt__TLA____IntQuotient
                                          (smt__TLA____IntMinus
                                            smt__CONSTANT__v__
                                            (smt__TLA____Cast__Int 240))
                                          (smt__TLA____Cast__Int 256))
                                        (smt__TLA____Cast__Int 241))
                                      (smt__TLA____Cast__Int 256))
                                    (smt__TLA____IntRemainder
                                      (smt__TLA____IntMinus
                                        smt__CONSTANT__v__
                                        (smt__TLA____Cast__Int 240))
                                      (smt__TLA____Cast__Int 256)))
                                  (ite
                                    (smt__TLA____IntLteq smt__CONSTANT__v__
                                      (smt__TLA____Cast__Int 67823))
                                    (smt__TLA____Tuple__3
                                      (smt__TLA____Cast__Int 249)
                                      (smt__TLA____IntRemainder
                                        (smt__TLA____IntQuotient
                                          (smt__TLA____IntMinus
                                            smt__CONSTANT__v__
                                            (smt__TLA____Cast__Int 2288))
                                          (smt__TLA____Cast__Int 256))
                                        (smt__TLA____Cast__Int 256))
                                      (smt__TLA____IntRemainder
                                        (smt__TLA____IntMinus
                                          smt__CONSTANT__v__
                                          (smt__TLA____Cast__Int 2288))
                                        (smt__TLA____Cast__Int 256)))
                                    (ite
                                      (smt__TLA____IntLteq smt__CONSTANT__v__
                                        (smt__TLA____Cast__Int 16777215))
                                      (smt__TLA____Tuple__4
                                        (smt__TLA____Cast__Int 250)
                                        (smt__TLA____IntRemainder
                                          (smt__TLA____IntQuotient
                                            smt__CONSTANT__v__
                                            (smt__TLA____Cast__Int 65536))
                                          (smt__TLA____Cast__Int 256))
                                        (smt__TLA____IntRemainder
                                          (smt__TLA____IntQuotient
                                            smt__CONSTANT__v__
                                            (smt__TLA____Cast__Int 256))
                                          (smt__TLA____Cast__Int 256))
                                        (smt__TLA____IntRemainder
                                          smt__CONSTANT__v__
                                          (smt__TLA____Cast__Int 256)))
                                      (ite
                                        (smt__TLA____IntLteq
                                          smt__CONSTANT__v__
                                          (smt__TLA____Cast__Int 4294967295))
                                        (smt__TLA____Tuple__5
                                          (smt__TLA____Cast__Int 251)
                                          (smt__TLA____IntRemainder
                                            (smt__TLA____IntQuotient
                                              smt__CONSTANT__v__
                                              (smt__TLA____Cast__Int 16777216))
                                            (smt__TLA____Cast__Int 256))
                                          (smt__TLA____IntRemainder
                                            (smt__TLA____IntQuotient
                                              smt__CONSTANT__v__
                                              (smt__TLA____Cast__Int 65536))
                                            (smt__TLA____Cast__Int 256))
                                          (smt__TLA____IntRemainder
                                            (smt__TLA____IntQuotient
                                              smt__CONSTANT__v__
                                              (smt__TLA____Cast__Int 256))
                                            (smt__TLA____Cast__Int 256))
                                          (smt__TLA____IntRemainder
                                            smt__CONSTANT__v__
                                            (smt__TLA____Cast__Int 256)))
                                        (smt__TLA____Tuple__9
                                          (smt__TLA____Cast__Int 255)
                                          (smt__TLA____IntRemainder
                                            (smt__TLA____IntQuotient
                                              smt__CONSTANT__v__
                                              (smt__TLA____Cast__Int
                                                72057594037927936))
                                            (smt__TLA____Cast__Int 256))
                                          (smt__TLA____IntRemainder
                                            (smt__TLA____IntQuotient
                                              smt__CONSTANT__v__
                                              (smt__TLA____Cast__Int
                                                281474976710656))
                                            (smt__TLA____Cast__Int 256))
                                          (smt__TLA____IntRemainder
                                            (smt__TLA____IntQuotient
                                              smt__CONSTANT__v__
                                              (smt__TLA____Cast__Int
                                                1099511627776))
                                            (smt__TLA____Cast__Int 256))
                                          (smt__TLA____IntRemainder
                                            (smt__TLA____IntQuotient
                                              smt__CONSTANT__v__
                                              (smt__TLA____Cast__Int
                                                4294967296))
                                            (smt__TLA____Cast__Int 256))
                                          (smt__TLA____IntRemainder
                                            (smt__TLA____IntQuotient
                                              smt__CONSTANT__v__
                                              (smt__TLA____Cast__Int 16777216))
                                            (smt__TLA____Cast__Int 256))
                                          (smt__TLA____IntRemainder
                                            (smt__TLA____IntQuotient
                                              smt__CONSTANT__v__
                                              (smt__TLA____Cast__Int 65536))
                                            (smt__TLA____Cast__Int 256))
                                          (smt__TLA____IntRemainder
                                            (smt__TLA____IntQuotient
                                              smt__CONSTANT__v__
                                              (smt__TLA____Cast__Int 256))
                                            (smt__TLA____Cast__Int 256))
                                          (smt__TLA____IntRemainder
                                            smt__CONSTANT__v__
                                            (smt__TLA____Cast__Int 256))))))))
                              (smt__TLA____Cast__Int 3)))))
                      (ite
                        (=
                          (smt__TLA____FunApp
                            (ite
                              (smt__TLA____IntLteq smt__CONSTANT__v__
                                (smt__TLA____Cast__Int 240))
                              (smt__TLA____Tuple__1 smt__CONSTANT__v__)
                              (ite
                                (smt__TLA____IntLteq smt__CONSTANT__v__
                                  (smt__TLA____Cast__Int 2287))
                                (smt__TLA____Tuple__2
                                  (smt__TLA____IntRemainder
                                    (smt__TLA____IntPlus
                                      (smt__TLA____IntQuotient
                                        (smt__TLA____IntMinus
                                          smt__CONSTANT__v__
                                          (smt__TLA____Cast__Int 240))
                                        (smt__TLA____Cast__Int 256))
                                      (smt__TLA____Cast__Int 241))
                                    (smt__TLA____Cast__Int 256))
                                  (smt__TLA____IntRemainder
                                    (smt__TLA____IntMinus smt__CONSTANT__v__
                                      (smt__TLA____Cast__Int 240))
                                    (smt__TLA____Cast__Int 256)))
                                (ite
                                  (smt__TLA____IntLteq smt__CONSTANT__v__
                                    (smt__TLA____Cast__Int 67823))
                                  (smt__TLA____Tuple__3
                                    (smt__TLA____Cast__Int 249)
                                    (smt__TLA____IntRemainder
                                      (smt__TLA____IntQuotient
                                        (smt__TLA____IntMinus
                                          smt__CONSTANT__v__
                                          (smt__TLA____Cast__Int 2288))
                                        (smt__TLA____Cast__Int 256))
                                      (smt__TLA____Cast__Int 256))
                                    (smt__TLA____IntRemainder
                                      (smt__TLA____IntMinus
                                        smt__CONSTANT__v__
                                        (smt__TLA____Cast__Int 2288))
                                      (smt__TLA____Cast__Int 256)))
                                  (ite
                                    (smt__TLA____IntLteq smt__CONSTANT__v__
                                      (smt__TLA____Cast__Int 16777215))
                                    (smt__TLA____Tuple__4
                                      (smt__TLA____Cast__Int 250)
                                      (smt__TLA____IntRemainder
                                        (smt__TLA____IntQuotient
                                          smt__CONSTANT__v__
                                          (smt__TLA____Cast__Int 65536))
                                        (smt__TLA____Cast__Int 256))
                                      (smt__TLA____IntRemainder
                                        (smt__TLA____IntQuotient
                                          smt__CONSTANT__v__
                                          (smt__TLA____Cast__Int 256))
                                        (smt__TLA____Cast__Int 256))
                                      (smt__TLA____IntRemainder
                                        smt__CONSTANT__v__
                                        (smt__TLA____Cast__Int 256)))
                                    (ite
                                      (smt__TLA____IntLteq smt__CONSTANT__v__
                                        (smt__TLA____Cast__Int 4294967295))
                                      (smt__TLA____Tuple__5
                                        (smt__TLA____Cast__Int 251)
                                        (smt__TLA____IntRemainder
                                          (smt__TLA____IntQuotient
                                            smt__CONSTANT__v__
                                            (smt__TLA____Cast__Int 16777216))
                                          (smt__TLA____Cast__Int 256))
                                        (smt__TLA____IntRemainder
                                          (smt__TLA____IntQuotient
                                            smt__CONSTANT__v__
                                            (smt__TLA____Cast__Int 65536))
                                          (smt__TLA____Cast__Int 256))
                                        (smt__TLA____IntRemainder
                                          (smt__TLA____IntQuotient
                                            smt__CONSTANT__v__
                                            (smt__TLA____Cast__Int 256))
                                          (smt__TLA____Cast__Int 256))
                                        (smt__TLA____IntRemainder
                                          smt__CONSTANT__v__
                                          (smt__TLA____Cast__Int 256)))
                                      (smt__TLA____Tuple__9
                                        (smt__TLA____Cast__Int 255)
                                        (smt__TLA____IntRemainder
                                          (smt__TLA____IntQuotient
                                            smt__CONSTANT__v__
                                            (smt__TLA____Cast__Int
                                              72057594037927936))
                                          (smt__TLA____Cast__Int 256))
                                        (smt__TLA____IntRemainder
                                          (smt__TLA____IntQuotient
                                            smt__CONSTANT__v__
                                            (smt__TLA____Cast__Int
                                              281474976710656))
                                          (smt__TLA____Cast__Int 256))
                                        (smt__TLA____IntRemainder
                                          (smt__TLA____IntQuotient
                                            smt__CONSTANT__v__
                                            (smt__TLA____Cast__Int
                                              1099511627776))
                                          (smt__TLA____Cast__Int 256))
                                        (smt__TLA____IntRemainder
                                          (smt__TLA____IntQuotient
                                            smt__CONSTANT__v__
                                            (smt__TLA____Cast__Int 4294967296))
                                          (smt__TLA____Cast__Int 256))
                                        (smt__TLA____IntRemainder
                                          (smt__TLA____IntQuotient
                                            smt__CONSTANT__v__
                                            (smt__TLA____Cast__Int 16777216))
                                          (smt__TLA____Cast__Int 256))
                                        (smt__TLA____IntRemainder
                                          (smt__TLA____IntQuotient
                                            smt__CONSTANT__v__
                                            (smt__TLA____Cast__Int 65536))
                                          (smt__TLA____Cast__Int 256))
                                        (smt__TLA____IntRemainder
                                          (smt__TLA____IntQuotient
                                            smt__CONSTANT__v__
                                            (smt__TLA____Cast__Int 256))
                                          (smt__TLA____Cast__Int 256))
                                        (smt__TLA____IntRemainder
                                          smt__CONSTANT__v__
                                          (smt__TLA____Cast__Int 256))))))))
                            (smt__TLA____Cast__Int 1))
                          (smt__TLA____Cast__Int 250))
                        (ite
                          (and
                            (smt__TLA____IntLteq
                              (smt__TLA____Len
                                (ite
                                  (smt__TLA____IntLteq smt__CONSTANT__v__
                                    (smt__TLA____Cast__Int 240))
                                  (smt__TLA____Tuple__1 smt__CONSTANT__v__)
                                  (ite
                                    (smt__TLA____IntLteq smt__CONSTANT__v__
                                      (smt__TLA____Cast__Int 2287))
                                    (smt__TLA____Tuple__2
                                      (smt__TLA____IntRemainder
                                        (smt__TLA____IntPlus
                                          (smt__TLA____IntQuotient
                                            (smt__TLA____IntMinus
                                              smt__CONSTANT__v__
                                              (smt__TLA____Cast__Int 240))
                                            (smt__TLA____Cast__Int 256))
                                          (smt__TLA____Cast__Int 241))
                                        (smt__TLA____Cast__Int 256))
                                      (smt__TLA____IntRemainder
                                        (smt__TLA____IntMinus
                                          smt__CONSTANT__v__
                                          (smt__TLA____Cast__Int 240))
                                        (smt__TLA____Cast__Int 256)))
                                    (ite
                                      (smt__TLA____IntLteq smt__CONSTANT__v__
                                        (smt__TLA____Cast__Int 67823))
                                      (smt__TLA____Tuple__3
                                        (smt__TLA____Cast__Int 249)
                                        (smt__TLA____IntRemainder
                                          (smt__TLA____IntQuotient
                                            (smt__TLA____IntMinus
                                              smt__CONSTANT__v__
                                              (smt__TLA____Cast__Int 2288))
                                            (smt__TLA____Cast__Int 256))
                                          (smt__TLA____Cast__Int 256))
                                        (smt__TLA____IntRemainder
                                          (smt__TLA____IntMinus
                                            smt__CONSTANT__v__
                                            (smt__TLA____Cast__Int 2288))
                                          (smt__TLA____Cast__Int 256)))
                                      (ite
                                        (smt__TLA____IntLteq
                                          smt__CONSTANT__v__
                                          (smt__TLA____Cast__Int 16777215))
                                        (smt__TLA____Tuple__4
                                          (smt__TLA____Cast__Int 250)
                                          (smt__TLA____IntRemainder
                                            (smt__TLA____IntQuotient
                                              smt__CONSTANT__v__
                                              (smt__TLA____Cast__Int 65536))
                                            (smt__TLA____Cast__Int 256))
                                          (smt__TLA____IntRemainder
                                            (smt__TLA____IntQuotient
                                              smt__CONSTANT__v__
                                              (smt__TLA____Cast__Int 256))
                                            (smt__TLA____Cast__Int 256))
                                          (smt__TLA____IntRemainder
                                            smt__CONSTANT__v__
                                            (smt__TLA____Cast__Int 256)))
                                        (ite
                                          (smt__TLA____IntLteq
                                            smt__CONSTANT__v__
                                            (smt__TLA____Cast__Int 4294967295))
                                          (smt__TLA____Tuple__5
                                            (smt__TLA____Cast__Int 251)
                                            (smt__TLA____IntRemainder
                                              (smt__TLA____IntQuotient
                                                smt__CONSTANT__v__
                                                (smt__TLA____Cast__Int
                                                  16777216))
                                              (smt__TLA____Cast__Int 256))
                                            (smt__TLA____IntRemainder
                                              (smt__TLA____IntQuotient
                                                smt__CONSTANT__v__
                                                (smt__TLA____Cast__Int 65536))
                                              (smt__TLA____Cast__Int 256))
                                            (smt__TLA____IntRemainder
                                              (smt__TLA____IntQuotient
                                                smt__CONSTANT__v__
                                                (smt__TLA____Cast__Int 256))
                                              (smt__TLA____Cast__Int 256))
                                            (smt__TLA____IntRemainder
                                              smt__CONSTANT__v__
                                              (smt__TLA____Cast__Int 256)))
                                          (smt__TLA____Tuple__9
                                            (smt__TLA____Cast__Int 255)
                                            (smt__TLA____IntRemainder
                                              (smt__TLA____IntQuotient
                                                smt__CONSTANT__v__
                                                (smt__TLA____Cast__Int
                                                  72057594037927936))
                                              (smt__TLA____Cast__Int 256))
                                            (smt__TLA____IntRemainder
                                              (smt__TLA____IntQuotient
                                                smt__CONSTANT__v__
                                                (smt__TLA____Cast__Int
                                                  281474976710656))
                                              (smt__TLA____Cast__Int 256))
                                            (smt__TLA____IntRemainder
                                              (smt__TLA____IntQuotient
                                                smt__CONSTANT__v__
                                                (smt__TLA____Cast__Int
                                                  1099511627776))
                                              (smt__TLA____Cast__Int 256))
                                            (smt__TLA____IntRemainder
                                              (smt__TLA____IntQuotient
                                                smt__CONSTANT__v__
                                                (smt__TLA____Cast__Int
                                                  4294967296))
                                              (smt__TLA____Cast__Int 256))
                                            (smt__TLA____IntRemainder
                                              (smt__TLA____IntQuotient
                                                smt__CONSTANT__v__
                                                (smt__TLA____Cast__Int
                                                  16777216))
                                              (smt__TLA____Cast__Int 256))
                                            (smt__TLA____IntRemainder
                                              (smt__TLA____IntQuotient
                                                smt__CONSTANT__v__
                                                (smt__TLA____Cast__Int 65536))
                                              (smt__TLA____Cast__Int 256))
                                            (smt__TLA____IntRemainder
                                              (smt__TLA____IntQuotient
                                                smt__CONSTANT__v__
                                                (smt__TLA____Cast__Int 256))
                                              (smt__TLA____Cast__Int 256))
                                            (smt__TLA____IntRemainder
                                              smt__CONSTANT__v__
                                              (smt__TLA____Cast__Int 256)))))))))
                              (smt__TLA____Cast__Int 4))
                            (distinct
                              (smt__TLA____Len
                                (ite
                                  (smt__TLA____IntLteq smt__CONSTANT__v__
                                    (smt__TLA____Cast__Int 240))
                                  (smt__TLA____Tuple__1 smt__CONSTANT__v__)
                                  (ite
                                    (smt__TLA____IntLteq smt__CONSTANT__v__
                                      (smt__TLA____Cast__Int 2287))
                                    (smt__TLA____Tuple__2
                                      (smt__TLA____IntRemainder
                                        (smt__TLA____IntPlus
                                          (smt__TLA____IntQuotient
                                            (smt__TLA____IntMinus
                                              smt__CONSTANT__v__
                                              (smt__TLA____Cast__Int 240))
                                            (smt__TLA____Cast__Int 256))
                                          (smt__TLA____Cast__Int 241))
                                        (smt__TLA____Cast__Int 256))
                                      (smt__TLA____IntRemainder
                                        (smt__TLA____IntMinus
                                          smt__CONSTANT__v__
                                          (smt__TLA____Cast__Int 240))
                                        (smt__TLA____Cast__Int 256)))
                                    (ite
                                      (smt__TLA____IntLteq smt__CONSTANT__v__
                                        (smt__TLA____Cast__Int 67823))
                                      (smt__TLA____Tuple__3
                                        (smt__TLA____Cast__Int 249)
                                        (smt__TLA____IntRemainder
                                          (smt__TLA____IntQuotient
                                            (smt__TLA____IntMinus
                                              smt__CONSTANT__v__
                                              (smt__TLA____Cast__Int 2288))
                                            (smt__TLA____Cast__Int 256))
                                          (smt__TLA____Cast__Int 256))
                                        (smt__TLA____IntRemainder
                                          (smt__TLA____IntMinus
                                            smt__CONSTANT__v__
                                            (smt__TLA____Cast__Int 2288))
                                          (smt__TLA____Cast__Int 256)))
                                      (ite
                                        (smt__TLA____IntLteq
                                          smt__CONSTANT__v__
                                          (smt__TLA____Cast__Int 16777215))
                                        (smt__TLA____Tuple__4
                                          (smt__TLA____Cast__Int 250)
                                          (smt__TLA____IntRemainder
                                            (smt__TLA____IntQuotient
                                              smt__CONSTANT__v__
                                              (smt__TLA____Cast__Int 65536))
                                            (smt__TLA____Cast__Int 256))
                                          (smt__TLA____IntRemainder
                                            (smt__TLA____IntQuotient
                                              smt__CONSTANT__v__
                                              (smt__TLA____Cast__Int 256))
                                            (smt__TLA____Cast__Int 256))
                                          (smt__TLA____IntRemainder
                                            smt__CONSTANT__v__
                                            (smt__TLA____Cast__Int 256)))
                                        (ite
                                          (smt__TLA____IntLteq
                                            smt__CONSTANT__v__
                                            (smt__TLA____Cast__Int 4294967295))
                                          (smt__TLA____Tuple__5
                                            (smt__TLA____Cast__Int 251)
                                            (smt__TLA____IntRemainder
                                              (smt__TLA____IntQuotient
                                                smt__CONSTANT__v__
                                                (smt__TLA____Cast__Int
                                                  16777216))
                                              (smt__TLA____Cast__Int 256))
                                            (smt__TLA____IntRemainder
                                              (smt__TLA____IntQuotient
                                                smt__CONSTANT__v__
                                                (smt__TLA____Cast__Int 65536))
                                              (smt__TLA____Cast__Int 256))
                                            (smt__TLA____IntRemainder
                                              (smt__TLA____IntQuotient
                                                smt__CONSTANT__v__
                                                (smt__TLA____Cast__Int 256))
                                              (smt__TLA____Cast__Int 256))
                                            (smt__TLA____IntRemainder
                                              smt__CONSTANT__v__
                                              (smt__TLA____Cast__Int 256)))
                                          (smt__TLA____Tuple__9
                                            (smt__TLA____Cast__Int 255)
                                            (smt__TLA____IntRemainder
                                              (smt__TLA____IntQuotient
                                                smt__CONSTANT__v__
                                                (smt__TLA____Cast__Int
                                                  72057594037927936))
                                              (smt__TLA____Cast__Int 256))
                                            (smt__TLA____IntRemainder
                                              (smt__TLA____IntQuotient
                                                smt__CONSTANT__v__
                                                (smt__TLA____Cast__Int
                                                  281474976710656))
                                              (smt__TLA____Cast__Int 256))
                                            (smt__TLA____IntRemainder
                                              (smt__TLA____IntQuotient
                                                smt__CONSTANT__v__
                                                (smt__TLA____Cast__Int
                                                  1099511627776))
                                              (smt__TLA____Cast__Int 256))
                                            (smt__TLA____IntRemainder
                                              (smt__TLA____IntQuotient
                                                smt__CONSTANT__v__
                                                (smt__TLA____Cast__Int
                                                  4294967296))
                                              (smt__TLA____Cast__Int 256))
                                            (smt__TLA____IntRemainder
                                              (smt__TLA____IntQuotient
                                                smt__CONSTANT__v__
                                                (smt__TLA____Cast__Int
                                                  16777216))
                                              (smt__TLA____Cast__Int 256))
                                            (smt__TLA____IntRemainder
                                              (smt__TLA____IntQuotient
                                                smt__CONSTANT__v__
                                                (smt__TLA____Cast__Int 65536))
                                              (smt__TLA____Cast__Int 256))
                                            (smt__TLA____IntRemainder
                                              (smt__TLA____IntQuotient
                                                smt__CONSTANT__v__
                                                (smt__TLA____Cast__Int 256))
                                              (smt__TLA____Cast__Int 256))
                                            (smt__TLA____IntRemainder
                                              smt__CONSTANT__v__
                                              (smt__TLA____Cast__Int 256)))))))))
                              (smt__TLA____Cast__Int 4)))
                          (smt__CONSTANT__ErrTrunc__
                            (smt__TLA____Cast__Int 4))
                          (smt__TLA____Record__n__ok__val
                            (smt__TLA____Cast__Int 4)
                            (smt__TLA____Cast__Bool true)
                            (smt__TLA____IntPlus
                              (smt__TLA____IntPlus
                                (smt__TLA____IntTimes
                                  (smt__TLA____FunApp
                                    (ite
                                      (smt__TLA____IntLteq smt__CONSTANT__v__
                                        (smt__TLA____Cast__Int 240))
                                      (smt__TLA____Tuple__1
                                        smt__CONSTANT__v__)
                                      (ite
                                        (smt__TLA____IntLteq
                                          smt__CONSTANT__v__
                                          (smt__TLA____Cast__Int 2287))
                                        (smt__TLA____Tuple__2
                                          (smt__TLA____IntRemainder
                                            (smt__TLA____IntPlus
                                              (smt__TLA____IntQuotient
                                                (smt__TLA____IntMinus
                                                  smt__CONSTANT__v__
                                                  (smt__TLA____Cast__Int 240))
                                                (smt__TLA____Cast__Int 256))
                                              (smt__TLA____Cast__Int 241))
                                            (smt__TLA____Cast__Int 256))
                                          (smt__TLA____IntRemainder
                                            (smt__TLA____IntMinus
                                              smt__CONSTANT__v__
                                              (smt__TLA____Cast__Int 240))
                                            (smt__TLA____Cast__Int 256)))
                                        (ite
                                          (smt__TLA____IntLteq
                                            smt__CONSTANT__v__
                                            (smt__TLA____Cast__Int 67823))
                                          (smt__TLA____Tuple__3
                                            (smt__TLA____Cast__Int 249)
                                            (smt__TLA____IntRemainder
                                              (smt__TLA____IntQuotient
                                                (smt__TLA____IntMinus
                                                  smt__CONSTANT__v__
                                                  (smt__TLA____Cast__Int 2288))
                                                (smt__TLA____Cast__Int 256))
                                              (smt__TLA____Cast__Int 256))
                                            (smt__TLA____IntRemainder
                                              (smt__TLA____IntMinus
                                                smt__CONSTANT__v__
                                                (smt__TLA____Cast__Int 2288))
                                              (smt__TLA____Cast__Int 256)))
                                          (ite
                                            (smt__TLA____IntLteq
                                              smt__CONSTANT__v__
                                              (smt__TLA____Cast__Int 16777215))
                                            (smt__TLA____Tuple__4
                                              (smt__TLA____Cast__Int 250)
                                              (smt__TLA____IntRemainder
                                                (smt__TLA____IntQuotient
                                                  smt__CONSTANT__v__
                                                  (smt__TLA____Cast__Int
                                                    65536))
                                                (smt__TLA____Cast__Int 256))
                                              (smt__TLA____IntRemainder
                                                (smt__TLA____IntQuotient
                                                  smt__CONSTANT__v__
                                                  (smt__TLA____Cast__Int 256))
                                                (smt__TLA____Cast__Int 256))
                                              (smt__TLA____IntRemainder
                                                smt__CONSTANT__v__
                                                (smt__TLA____Cast__Int 256)))
                                            (ite
                                              (smt__TLA____IntLteq
                                                smt__CONSTANT__v__
                                                (smt__TLA____Cast__Int
                                                  4294967295))
                                              (smt__TLA____Tuple__5
                                                (smt__TLA____Cast__Int 251)
                                                (smt__TLA____IntRemainder
                                                  (smt__TLA____IntQuotient
                                                    smt__CONSTANT__v__
                                                    (smt__TLA____Cast__Int
                                                      16777216))
                                                  (smt__TLA____Cast__Int 256))
                                                (smt__TLA____IntRemainder
                                                  (smt__TLA____IntQuotient
                                                    smt__CONSTANT__v__
                                                    (smt__TLA____Cast__Int
                                                      65536))
                                                  (smt__TLA____Cast__Int 256))
                                                (smt__TLA____IntRemainder
                                                  (smt__TLA____IntQuotient
                                                    smt__CONSTANT__v__
                                                    (smt__TLA____Cast__Int
                                                      256))
                                                  (smt__TLA____Cast__Int 256))
                                                (smt__TLA____IntRemainder
                                                  smt__CONSTANT__v__
                                                  (smt__TLA____Cast__Int 256)))
                                              (smt__TLA____Tuple__9
                                                (smt__TLA____Cast__Int 255)
                                                (smt__TLA____IntRemainder
                                                  (smt__TLA____IntQuotient
                                                    smt__CONSTANT__v__
                                                    (smt__TLA____Cast__Int
                                                      72057594037927936))
                                                  (smt__TLA____Cast__Int 256))
                                                (smt__TLA____IntRemainder
                                                  (smt__TLA____IntQuotient
                                                    smt__CONSTANT__v__
                                                    (smt__TLA____Cast__Int
                                                      281474976710656))
                                                  (smt__TLA____Cast__Int 256))
                                                (smt__TLA____IntRemainder
                                                  (smt__TLA____IntQuotient
                                                    smt__CONSTANT__v__
                                                    (smt__TLA____Cast__Int
                                                      1099511627776))
                                                  (smt__TLA____Cast__Int 256))
                                                (smt__TLA____IntRemainder
                                                  (smt__TLA____IntQuotient
                                                    smt__CONSTANT__v__
                                                    (smt__TLA____Cast__Int
                                                      4294967296))
                                                  (smt__TLA____Cast__Int 256))
                                                (smt__TLA____IntRemainder
                                                  (smt__TLA____IntQuotient
                                                    smt__CONSTANT__v__
                                                    (smt__TLA____Cast__Int
                                                      16777216))
                                                  (smt__TLA____Cast__Int 256))
                                                (smt__TLA____IntRemainder
                                                  (smt__TLA____IntQuotient
                                                    smt__CONSTANT__v__
                                                    (smt__TLA____Cast__Int
                                                      65536))
                                                  (smt__TLA____Cast__Int 256))
                                                (smt__TLA____IntRemainder
                                                  (smt__TLA____IntQuotient
                                                    smt__CONSTANT__v__
                                                    (smt__TLA____Cast__Int
                                                      256))
                                                  (smt__TLA____Cast__Int 256))
                                                (smt__TLA____IntRemainder
                                                  smt__CONSTANT__v__
                                                  (smt__TLA____Cast__Int 256))))))))
                                    (smt__TLA____Cast__Int 2))
                                  (smt__TLA____Cast__Int 65536))
                                (smt__TLA____IntTimes
                                  (smt__TLA____FunApp
                                    (ite
                                      (smt__TLA____IntLteq smt__CONSTANT__v__
                                        (smt__TLA____Cast__Int 240))
                                      (smt__TLA____Tuple__1
                                        smt__CONSTANT__v__)
                                      (ite
                                        (smt__TLA____IntLteq
                                          smt__CONSTANT__v__
                                          (smt__TLA____Cast__Int 2287))
                                        (smt__TLA____Tuple__2
                                          (smt__TLA____IntRemainder
                                            (smt__TLA____IntPlus
                                              (smt__TLA____IntQuotient
                                                (smt__TLA____IntMinus
                                                  smt__CONSTANT__v__
                                                  (smt__TLA____Cast__Int 240))
                                                (smt__TLA____Cast__Int 256))
                                              (smt__TLA____Cast__Int 241))
                                            (smt__TLA____Cast__Int 256))
                                          (smt__TLA____IntRemainder
                                            (smt__TLA____IntMinus
                                              smt__CONSTANT__v__
                                              (smt__TLA____Cast__Int 240))
                                            (smt__TLA____Cast__Int 256)))
                                        (ite
                                          (smt__TLA____IntLteq
                                            smt__CONSTANT__v__
                                            (smt__TLA____Cast__Int 67823))
                                          (smt__TLA____Tuple__3
                                            (smt__TLA____Cast__Int 249)
                                            (smt__TLA____IntRemainder
                                              (smt__TLA____IntQuotient
                                                (smt__TLA____IntMinus
                                                  smt__CONSTANT__v__
                                                  (smt__TLA____Cast__Int 2288))
                                                (smt__TLA____Cast__Int 256))
                                              (smt__TLA____Cast__Int 256))
                                            (smt__TLA____IntRemainder
                                              (smt__TLA____IntMinus
                                                smt__CONSTANT__v__
                                                (smt__TLA____Cast__Int 2288))
                                              (smt__TLA____Cast__Int 256)))
                                          (ite
                                            (smt__TLA____IntLteq
                                              smt__CONSTANT__v__
                                              (smt__TLA____Cast__Int 16777215))
                                            (smt__TLA____Tuple__4
                                              (smt__TLA____Cast__Int 250)
                                              (smt__TLA____IntRemainder
                                                (smt__TLA____IntQuotient
                                                  smt__CONSTANT__v__
                                                  (smt__TLA____Cast__Int
                                                    65536))
                                                (smt__TLA____Cast__Int 256))
                                              (smt__TLA____IntRemainder
                                                (smt__TLA____IntQuotient
                                                  smt__CONSTANT__v__
                                                  (smt__TLA____Cast__Int 256))
                                                (smt__TLA____Cast__Int 256))
                                              (smt__TLA____IntRemainder
                                                smt__CONSTANT__v__
                                                (smt__TLA____Cast__Int 256)))
                                            (ite
                                              (smt__TLA____IntLteq
                                                smt__CONSTANT__v__
                                                (smt__TLA____Cast__Int
                                                  4294967295))
                                              (smt__TLA____Tuple__5
                                                (smt__TLA____Cast__Int 251)
                                                (smt__TLA____IntRemainder
                                                  (smt__TLA____IntQuotient
                                                    smt__CONSTANT__v__
                                                    (smt__TLA____Cast__Int
                                                      16777216))
                                                  (smt__TLA____Cast__Int 256))
                                                (smt__TLA____IntRemainder
                                                  (smt__TLA____IntQuotient
                                                    smt__CONSTANT__v__
                                                    (smt__TLA____Cast__Int
                                                      65536))
                                                  (smt__TLA____Cast__Int 256))
                                                (smt__TLA____IntRemainder
                                                  (smt__TLA____IntQuotient
                                                    smt__CONSTANT__v__
                                                    (smt__TLA____Cast__Int
                                                      256))
                                                  (smt__TLA____Cast__Int 256))
                                                (smt__TLA____IntRemainder
                                                  smt__CONSTANT__v__
                                                  (smt__TLA____Cast__Int 256)))
                                              (smt__TLA____Tuple__9
                                                (smt__TLA____Cast__Int 255)
                                                (smt__TLA____IntRemainder
                                                  (smt__TLA____IntQuotient
                                                    smt__CONSTANT__v__
                                                    (smt__TLA____Cast__Int
                                                      72057594037927936))
                                                  (smt__TLA____Cast__Int 256))
                                                (smt__TLA____IntRemainder
                                                  (smt__TLA____IntQuotient
                                                    smt__CONSTANT__v__
                                                    (smt__TLA____Cast__Int
                                                      281474976710656))
                                                  (smt__TLA____Cast__Int 256))
                                                (smt__TLA____IntRemainder
                                                  (smt__TLA____IntQuotient
                                                    smt__CONSTANT__v__
                                                    (smt__TLA____Cast__Int
                                                      1099511627776))
                                                  (smt__TLA____Cast__Int 256))
                                                (smt__TLA____IntRemainder
                                                  (smt__TLA____IntQuotient
                                                    smt__CONSTANT__v__
                                                    (smt__TLA____Cast__Int
                                                      4294967296))
                                                  (smt__TLA____Cast__Int 256))
                                                (smt__TLA____IntRemainder
                                                  (smt__TLA____IntQuotient
                                                    smt__CONSTANT__v__
                                                    (smt__TLA____Cast__Int
                                                      16777216))
                                                  (smt__TLA____Cast__Int 256))
                                                (smt__TLA____IntRemainder
                                                  (smt__TLA____IntQuotient
                                                    smt__CONSTANT__v__
                                                    (smt__TLA____Cast__Int
                                                      65536))
                                                  (smt__TLA____Cast__Int 256))
                                                (smt__TLA____IntRemainder
                                                  (smt__TLA____IntQuotient
                                                    smt__CONSTANT__v__
                                                    (smt__TLA____Cast__Int
                                                      256))
                                                  (smt__TLA____Cast__Int 256))
                                                (smt__TLA____IntRemainder
                                                  smt__CONSTANT__v__
                                                  (smt__TLA____Cast__Int 256))))))))
                                    (smt__TLA____Cast__Int 3))
                                  (smt__TLA____Cast__Int 256)))
                              (smt__TLA____FunApp
                                (ite
                                  (smt__TLA____IntLteq smt__CONSTANT__v__
                                    (smt__TLA____Cast__Int 240))
                                  (smt__TLA____Tuple__1 smt__CONSTANT__v__)
                                  (ite
                                    (smt__TLA____IntLteq smt__CONSTANT__v__
                                      (smt__TLA____Cast__Int 2287))
                                    (smt__TLA____Tuple__2
                                      (smt__TLA____IntRemainder
                                        (smt__TLA____IntPlus
                                          (smt__TLA____IntQuotient
                                            (smt__TLA____IntMinus
                                              smt__CONSTANT__v__
                                              (smt__TLA____Cast__Int 240))
                                            (smt__TLA____Cast__Int 256))
                                          (smt__TLA____Cast__Int 241))
                                        (smt__TLA____Cast__Int 256))
                                      (smt__TLA____IntRemainder
                                        (smt__TLA____IntMinus
                                          smt__CONSTANT__v__
                                          (smt__TLA____Cast__Int 240))
                                        (smt__TLA____Cast__Int 256)))
                                    (ite
                                      (smt__TLA____IntLteq smt__CONSTANT__v__
                                        (smt__TLA____Cast__Int 67823))
                                      (smt__TLA____Tuple__3
                                        (smt__TLA____Cast__Int 249)
                                        (smt__TLA____IntRemainder
                                          (smt__TLA____IntQuotient
                                            (smt__TLA____IntMinus
                                              smt__CONSTANT__v__
                                              (smt__TLA____Cast__Int 2288))
                                            (smt__TLA____Cast__Int 256))
                                          (smt__TLA____Cast__Int 256))
                                        (smt__TLA____IntRemainder
                                          (smt__TLA____IntMinus
                                            smt__CONSTANT__v__
                                            (smt__TLA____Cast__Int 2288))
                                          (smt__TLA____Cast__Int 256)))
                                      (ite
                                        (smt__TLA____IntLteq
                                          smt__CONSTANT__v__
                                          (smt__TLA____Cast__Int 16777215))
                                        (smt__TLA____Tuple__4
                                          (smt__TLA____Cast__Int 250)
                                          (smt__TLA____IntRemainder
                                            (smt__TLA____IntQuotient
                                              smt__CONSTANT__v__
                                              (smt__TLA____Cast__Int 65536))
                                            (smt__TLA____Cast__Int 256))
                                          (smt__TLA____IntRemainder
                                            (smt__TLA____IntQuotient
                                              smt__CONSTANT__v__
                                              (smt__TLA____Cast__Int 256))
                                            (smt__TLA____Cast__Int 256))
                                          (smt__TLA____IntRemainder
                                            smt__CONSTANT__v__
                                            (smt__TLA____Cast__Int 256)))
                                        (ite
                                          (smt__TLA____IntLteq
                                            smt__CONSTANT__v__
                                            (smt__TLA____Cast__Int 4294967295))
                                          (smt__TLA____Tuple__5
                                            (smt__TLA____Cast__Int 251)
                                            (smt__TLA____IntRemainder
                                              (smt__TLA____IntQuotient
                                                smt__CONSTANT__v__
                                                (smt__TLA____Cast__Int
                                                  16777216))
                                              (smt__TLA____Cast__Int 256))
                                            (smt__TLA____IntRemainder
                                              (smt__TLA____IntQuotient
                                                smt__CONSTANT__v__
                                                (smt__TLA____Cast__Int 65536))
                                              (smt__TLA____Cast__Int 256))
                                            (smt__TLA____IntRemainder
                                              (smt__TLA____IntQuotient
                                                smt__CONSTANT__v__
                                                (smt__TLA____Cast__Int 256))
                                              (smt__TLA____Cast__Int 256))
                                            (smt__TLA____IntRemainder
                                              smt__CONSTANT__v__
                                              (smt__TLA____Cast__Int 256)))
                                          (smt__TLA____Tuple__9
                                            (smt__TLA____Cast__Int 255)
                                            (smt__TLA____IntRemainder
                                              (smt__TLA____IntQuotient
                                                smt__CONSTANT__v__
                                                (smt__TLA____Cast__Int
                                                  72057594037927936))
                                              (smt__TLA____Cast__Int 256))
                                            (smt__TLA____IntRemainder
                                              (smt__TLA____IntQuotient
                                                smt__CONSTANT__v__
                                                (smt__TLA____Cast__Int
                                                  281474976710656))
                                              (smt__TLA____Cast__Int 256))
                                            (smt__TLA____IntRemainder
                                              (smt__TLA____IntQuotient
                                                smt__CONSTANT__v__
                                                (smt__TLA____Cast__Int
                                                  1099511627776))
                                              (smt__TLA____Cast__Int 256))
                                            (smt__TLA____IntRemainder
                                              (smt__TLA____IntQuotient
                                                smt__CONSTANT__v__
                                                (smt__TLA____Cast__Int
                                                  4294967296))
                                              (smt__TLA____Cast__Int 256))
                                            (smt__TLA____IntRemainder
                                              (smt__TLA____IntQuotient
                                                smt__CONSTANT__v__
                                                (smt__TLA____Cast__Int
                                                  16777216))
                                              (smt__TLA____Cast__Int 256))
                                            (smt__TLA____IntRemainder
                                              (smt__TLA____IntQuotient
                                                smt__CONSTANT__v__
                                                (smt__TLA____Cast__Int 65536))
                                              (smt__TLA____Cast__Int 256))
                                            (smt__TLA____IntRemainder
                                              (smt__TLA____IntQuotient
                                                smt__CONSTANT__v__
                                                (smt__TLA____Cast__Int 256))
                                              (smt__TLA____Cast__Int 256))
                                            (smt__TLA____IntRemainder
                                              smt__CONSTANT__v__
                                              (smt__TLA____Cast__Int 256))))))))
                                (smt__TLA____Cast__Int 4)))))
                        (ite
                          (=
                            (smt__TLA____FunApp
                              (ite
                                (smt__TLA____IntLteq smt__CONSTANT__v__
                                  (smt__TLA____Cast__Int 240))
                                (smt__TLA____Tuple__1 smt__CONSTANT__v__)
                                (ite
                                  (smt__TLA____IntLteq smt__CONSTANT__v__
                                    (smt__TLA____Cast__Int 2287))
                                  (smt__TLA____Tuple__2
                                    (smt__TLA____IntRemainder
                                      (smt__TLA____IntPlus
                                        (smt__TLA____IntQuotient
                                          (smt__TLA____IntMinus
                                            smt__CONSTANT__v__
                                            (smt__TLA____Cast__Int 240))
                                          (smt__TLA____Cast__Int 256))
                                        (smt__TLA____Cast__Int 241))
                                      (smt__TLA____Cast__Int 256))
                                    (smt__TLA____IntRemainder
                                      (smt__TLA____IntMinus
                                        smt__CONSTANT__v__
                                        (smt__TLA____Cast__Int 240))
                                      (smt__TLA____Cast__Int 256)))
                                  (ite
                                    (smt__TLA____IntLteq smt__CONSTANT__v__
                                      (smt__TLA____Cast__Int 67823))
                                    (smt__TLA____Tuple__3
                                      (smt__TLA____Cast__Int 249)
                                      (smt__TLA____IntRemainder
                                        (smt__TLA____IntQuotient
                                          (smt__TLA____IntMinus
                                            smt__CONSTANT__v__
                                            (smt__TLA____Cast__Int 2288))
                                          (smt__TLA____Cast__Int 256))
                                        (smt__TLA____Cast__Int 256))
                                      (smt__TLA____IntRemainder
                                        (smt__TLA____IntMinus
                                          smt__CONSTANT__v__
                                          (smt__TLA____Cast__Int 2288))
                                        (smt__TLA____Cast__Int 256)))
                                    (ite
                                      (smt__TLA____IntLteq smt__CONSTANT__v__
                                        (smt__TLA____Cast__Int 16777215))
                                      (smt__TLA____Tuple__4
                                        (smt__TLA____Cast__Int 250)
                                        (smt__TLA____IntRemainder
                                          (smt__TLA____IntQuotient
                                            smt__CONSTANT__v__
                                            (smt__TLA____Cast__Int 65536))
                                          (smt__TLA____Cast__Int 256))
                                        (smt__TLA____IntRemainder
                                          (smt__TLA____IntQuotient
                                            smt__CONSTANT__v__
                                            (smt__TLA____Cast__Int 256))
                                          (smt__TLA____Cast__Int 256))
                                        (smt__TLA____IntRemainder
                                          smt__CONSTANT__v__
                                          (smt__TLA____Cast__Int 256)))
                                      (ite
                                        (smt__TLA____IntLteq
                                          smt__CONSTANT__v__
                                          (smt__TLA____Cast__Int 4294967295))
                                        (smt__TLA____Tuple__5
                                          (smt__TLA____Cast__Int 251)
                                          (smt__TLA____IntRemainder
                                            (smt__TLA____IntQuotient
                                              smt__CONSTANT__v__
                                              (smt__TLA____Cast__Int 16777216))
                                            (smt__TLA____Cast__Int 256))
                                          (smt__TLA____IntRemainder
                                            (smt__TLA____IntQuotient
                                              smt__CONSTANT__v__
                                              (smt__TLA____Cast__Int 65536))
                                            (smt__TLA____Cast__Int 256))
                                          (smt__TLA____IntRemainder
                                            (smt__TLA____IntQuotient
                                              smt__CONSTANT__v__
                                              (smt__TLA____Cast__Int 256))
                                            (smt__TLA____Cast__Int 256))
                                          (smt__TLA____IntRemainder
                                            smt__CONSTANT__v__
                                            (smt__TLA____Cast__Int 256)))
                                        (smt__TLA____Tuple__9
                                          (smt__TLA____Cast__Int 255)
                                          (smt__TLA____IntRemainder
                                            (smt__TLA____IntQuotient
                                              smt__CONSTANT__v__
                                              (smt__TLA____Cast__Int
                                                72057594037927936))
                                            (smt__TLA____Cast__Int 256))
                                          (smt__TLA____IntRemainder
                                            (smt__TLA____IntQuotient
                                              smt__CONSTANT__v__
                                              (smt__TLA____Cast__Int
                                                281474976710656))
                                            (smt__TLA____Cast__Int 256))
                                          (smt__TLA____IntRemainder
                                            (smt__TLA____IntQuotient
                                              smt__CONSTANT__v__
                                              (smt__TLA____Cast__Int
                                                1099511627776))
                                            (smt__TLA____Cast__Int 256))
                                          (smt__TLA____IntRemainder
                                            (smt__TLA____IntQuotient
                                              smt__CONSTANT__v__
                                              (smt__TLA____Cast__Int
                                                4294967296))
                                            (smt__TLA____Cast__Int 256))
                                          (smt__TLA____IntRemainder
                                            (smt__TLA____IntQuotient
                                              smt__CONSTANT__v__
                                              (smt__TLA____Cast__Int 16777216))
                                            (smt__TLA____Cast__Int 256))
                                          (smt__TLA____IntRemainder
                                            (smt__TLA____IntQuotient
                                              smt__CONSTANT__v__
                                              (smt__TLA____Cast__Int 65536))
                                            (smt__TLA____Cast__Int 256))
                                          (smt__TLA____IntRemainder
                                            (smt__TLA____IntQuotient
                                              smt__CONSTANT__v__
                                              (smt__TLA____Cast__Int 256))
                                            (smt__TLA____Cast__Int 256))
                                          (smt__TLA____IntRemainder
                                            smt__CONSTANT__v__
                                            (smt__TLA____Cast__Int 256))))))))
                              (smt__TLA____Cast__Int 1))
                            (smt__TLA____Cast__Int 251))
                          (ite
                            (and
                              (smt__TLA____IntLteq
                                (smt__TLA____Len
                                  (ite
                                    (smt__TLA____IntLteq smt__CONSTANT__v__
                                      (smt__TLA____Cast__Int 240))
                                    (smt__TLA____Tuple__1 smt__CONSTANT__v__)
                                    (ite
                                      (smt__TLA____IntLteq smt__CONSTANT__v__
                                        (smt__TLA____Cast__Int 2287))
                                      (smt__TLA____Tuple__2
                                        (smt__TLA____IntRemainder
                                          (smt__TLA____IntPlus
                                            (smt__TLA____IntQuotient
                                              (smt__TLA____IntMinus
                                                smt__CONSTANT__v__
                                                (smt__TLA____Cast__Int 240))
                                              (smt__TLA____Cast__Int 256))
                                            (smt__TLA____Cast__Int 241))
                                          (smt__TLA____Cast__Int 256))
                                        (smt__TLA____IntRemainder
                                          (smt__TLA____IntMinus
                                            smt__CONSTANT__v__
                                            (smt__TLA____Cast__Int 240))
                                          (smt__TLA____Cast__Int 256)))
                                      (ite
                                        (smt__TLA____IntLteq
                                          smt__CONSTANT__v__
                                          (smt__TLA____Cast__Int 67823))
                                        (smt__TLA____Tuple__3
                                          (smt__TLA____Cast__Int 249)
                                          (smt__TLA____IntRemainder
                                            (smt__TLA____IntQuotient
                                              (smt__TLA____IntMinus
                                                smt__CONSTANT__v__
                                                (smt__TLA____Cast__Int 2288))
                                              (smt__TLA____Cast__Int 256))
                                            (smt__TLA____Cast__Int 256))
                                          (smt__TLA____IntRemainder
                                            (smt__TLA____IntMinus
                                              smt__CONSTANT__v__
                                              (smt__TLA____Cast__Int 2288))
                                            (smt__TLA____Cast__Int 256)))
                                        (ite
                                          (smt__TLA____IntLteq
                                            smt__CONSTANT__v__
                                            (smt__TLA____Cast__Int 16777215))
                                          (smt__TLA____Tuple__4
                                            (smt__TLA____Cast__Int 250)
                                            (smt__TLA____IntRemainder
                                              (smt__TLA____IntQuotient
                                                smt__CONSTANT__v__
                                                (smt__TLA____Cast__Int 65536))
                                              (smt__TLA____Cast__Int 256))
                                            (smt__TLA____IntRemainder
                                              (smt__TLA____IntQuotient
                                                smt__CONSTANT__v__
                                                (smt__TLA____Cast__Int 256))
                                              (smt__TLA____Cast__Int 256))
                                            (smt__TLA____IntRemainder
                                              smt__CONSTANT__v__
                                              (smt__TLA____Cast__Int 256)))
                                          (ite
                                            (smt__TLA____IntLteq
                                              smt__CONSTANT__v__
                                              (smt__TLA____Cast__Int
                                                4294967295))
                                            (smt__TLA____Tuple__5
                                              (smt__TLA____Cast__Int 251)
                                              (smt__TLA____IntRemainder
                                                (smt__TLA____IntQuotient
                                                  smt__CONSTANT__v__
                                                  (smt__TLA____Cast__Int
                                                    16777216))
                                                (smt__TLA____Cast__Int 256))
                                              (smt__TLA____IntRemainder
                                                (smt__TLA____IntQuotient
                                                  smt__CONSTANT__v__
                                                  (smt__TLA____Cast__Int
                                                    65536))
                                                (smt__TLA____Cast__Int 256))
                                              (smt__TLA____IntRemainder
                                                (smt__TLA____IntQuotient
                                                  smt__CONSTANT__v__
                                                  (smt__TLA____Cast__Int 256))
                                                (smt__TLA____Cast__Int 256))
                                              (smt__TLA____IntRemainder
                                                smt__CONSTANT__v__
                                                (smt__TLA____Cast__Int 256)))
                                            (smt__TLA____Tuple__9
                                              (smt__TLA____Cast__Int 255)
                                              (smt__TLA____IntRemainder
                                                (smt__TLA____IntQuotient
                                                  smt__CONSTANT__v__
                                                  (smt__TLA____Cast__Int
                                                    72057594037927936))
                                                (smt__TLA____Cast__Int 256))
                                              (smt__TLA____IntRemainder
                                                (smt__TLA____IntQuotient
                                                  smt__CONSTANT__v__
                                                  (smt__TLA____Cast__Int
                                                    281474976710656))
                                                (smt__TLA____Cast__Int 256))
                                              (smt__TLA____IntRemainder
                                                (smt__TLA____IntQuotient
                                                  smt__CONSTANT__v__
                                                  (smt__TLA____Cast__Int
                                                    1099511627776))
                                                (smt__TLA____Cast__Int 256))
                                              (smt__TLA____IntRemainder
                                                (smt__TLA____IntQuotient
                                                  smt__CONSTANT__v__
                                                  (smt__TLA____Cast__Int
                                                    4294967296))
                                                (smt__TLA____Cast__Int 256))
                                              (smt__TLA____IntRemainder
                                                (smt__TLA____IntQuotient
                                                  smt__CONSTANT__v__
                                                  (smt__TLA____Cast__Int
                                                    16777216))
                                                (smt__TLA____Cast__Int 256))
                                              (smt__TLA____IntRemainder
                                                (smt__TLA____IntQuotient
                                                  smt__CONSTANT__v__
                                                  (smt__TLA____Cast__Int
                                                    65536))
                                                (smt__TLA____Cast__Int 256))
                                              (smt__TLA____IntRemainder
                                                (smt__TLA____IntQuotient
                                                  smt__CONSTANT__v__
                                                  (smt__TLA____Cast__Int 256))
                                                (smt__TLA____Cast__Int 256))
                                              (smt__TLA____IntRemainder
                                                smt__CONSTANT__v__
                                                (smt__TLA____Cast__Int 256)))))))))
                                (smt__TLA____Cast__Int 5))
                              (distinct
                                (smt__TLA____Len
                                  (ite
                                    (smt__TLA____IntLteq smt__CONSTANT__v__
                                      (smt__TLA____Cast__Int 240))
                                    (smt__TLA____Tuple__1 smt__CONSTANT__v__)
                                    (ite
                                      (smt__TLA____IntLteq smt__CONSTANT__v__
                                        (smt__TLA____Cast__Int 2287))
                                      (smt__TLA____Tuple__2
                                        (smt__TLA____IntRemainder
                                          (smt__TLA____IntPlus
                                            (smt__TLA____IntQuotient
                                              (smt__TLA____IntMinus
                                                smt__CONSTANT__v__
                                                (smt__TLA____Cast__Int 240))
                                              (smt__TLA____Cast__Int 256))
                                            (smt__TLA____Cast__Int 241))
                                          (smt__TLA____Cast__Int 256))
                                        (smt__TLA____IntRemainder
                                          (smt__TLA____IntMinus
                                            smt__CONSTANT__v__
                                            (smt__TLA____Cast__Int 240))
                                          (smt__TLA____Cast__Int 256)))
                                      (ite
                                        (smt__TLA____IntLteq
                                          smt__CONSTANT__v__
                                          (smt__TLA____Cast__Int 67823))
                                        (smt__TLA____Tuple__3
                                          (smt__TLA____Cast__Int 249)
                                          (smt__TLA____IntRemainder
                                            (smt__TLA____IntQuotient
                                              (smt__TLA____IntMinus
                                                smt__CONSTANT__v__
                                                (smt__TLA____Cast__Int 2288))
                                              (smt__TLA____Cast__Int 256))
                                            (smt__TLA____Cast__Int 256))
                                          (smt__TLA____IntRemainder
                                            (smt__TLA____IntMinus
                                              smt__CONSTANT__v__
                                              (smt__TLA____Cast__Int 2288))
                                            (smt__TLA____Cast__Int 256)))
                                        (ite
                                          (smt__TLA____IntLteq
                                            smt__CONSTANT__v__
                                            (smt__TLA____Cast__Int 16777215))
                                          (smt__TLA____Tuple__4
                                            (smt__TLA____Cast__Int 250)
                                            (smt__TLA____IntRemainder
                                              (smt__TLA____IntQuotient
                                                smt__CONSTANT__v__
                                                (smt__TLA____Cast__Int 65536))
                                              (smt__TLA____Cast__Int 256))
                                            (smt__TLA____IntRemainder
                                              (smt__TLA____IntQuotient
                                                smt__CONSTANT__v__
                                                (smt__TLA____Cast__Int 256))
                                              (smt__TLA____Cast__Int 256))
                                            (smt__TLA____IntRemainder
                                              smt__CONSTANT__v__
                                              (smt__TLA____Cast__Int 256)))
                                          (ite
                                            (smt__TLA____IntLteq
                                              smt__CONSTANT__v__
                                              (smt__TLA____Cast__Int
                                                4294967295))
                                            (smt__TLA____Tuple__5
                                              (smt__TLA____Cast__Int 251)
                                              (smt__TLA____IntRemainder
                                                (smt__TLA____IntQuotient
                                                  smt__CONSTANT__v__
                                                  (smt__TLA____Cast__Int
                                                    16777216))
                                                (smt__TLA____Cast__Int 256))
                                              (smt__TLA____IntRemainder
                                                (smt__TLA____IntQuotient
                                                  smt__CONSTANT__v__
                                                  (smt__TLA____Cast__Int
                                                    65536))
                                                (smt__TLA____Cast__Int 256))
                                              (smt__TLA____IntRemainder
                                                (smt__TLA____IntQuotient
                                                  smt__CONSTANT__v__
                                                  (smt__TLA____Cast__Int 256))
                                                (smt__TLA____Cast__Int 256))
                                              (smt__TLA____IntRemainder
                                                smt__CONSTANT__v__
                                                (smt__TLA____Cast__Int 256)))
                                            (smt__TLA____Tuple__9
                                              (smt__TLA____Cast__Int 255)
                                              (smt__TLA____IntRemainder
                                                (smt__TLA____IntQuotient
                                                  smt__CONSTANT__v__
                                                  (smt__TLA____Cast__Int
                                                    72057594037927936))
                                                (smt__TLA____Cast__Int 256))
                                              (smt__TLA____IntRemainder
                                                (smt__TLA____IntQuotient
                                                  smt__CONSTANT__v__
                                                  (smt__TLA____Cast__Int
                                                    281474976710656))
                                                (smt__TLA____Cast__Int 256))
                                              (smt__TLA____IntRemainder
                                                (smt__TLA____IntQuotient
                                                  smt__CONSTANT__v__
                                                  (smt__TLA____Cast__Int
                                                    1099511627776))
                                                (smt__TLA____Cast__Int 256))
                                              (smt__TLA____IntRemainder
                                                (smt__TLA____IntQuotient
                                                  smt__CONSTANT__v__
                                                  (smt__TLA____Cast__Int
                                                    4294967296))
                                                (smt__TLA____Cast__Int 256))
                                              (smt__TLA____IntRemainder
                                                (smt__TLA____IntQuotient
                                                  smt__CONSTANT__v__
                                                  (smt__TLA____Cast__Int
                                                    16777216))
                                                (smt__TLA____Cast__Int 256))
                                              (smt__TLA____IntRemainder
                                                (smt__TLA____IntQuotient
                                                  smt__CONSTANT__v__
                                                  (smt__TLA____Cast__Int
                                                    65536))
                                                (smt__TLA____Cast__Int 256))
                                              (smt__TLA____IntRemainder
                                                (smt__TLA____IntQuotient
                                                  smt__CONSTANT__v__
                                                  (smt__TLA____Cast__Int 256))
                                                (smt__TLA____Cast__Int 256))
                                              (smt__TLA____IntRemainder
                                                smt__CONSTANT__v__
                                                (smt__TLA____Cast__Int 256)))))))))
                                (smt__TLA____Cast__Int 5)))
                            (smt__CONSTANT__ErrTrunc__
                              (smt__TLA____Cast__Int 5))
                            (smt__TLA____Record__n__ok__val
                              (smt__TLA____Cast__Int 5)
                              (smt__TLA____Cast__Bool true)
                              (smt__TLA____IntPlus
                                (smt__TLA____IntPlus
                                  (smt__TLA____IntPlus
                                    (smt__TLA____IntTimes
                                      (smt__TLA____FunApp
                                        (ite
                                          (smt__TLA____IntLteq
                                            smt__CONSTANT__v__
                                            (smt__TLA____Cast__Int 240))
                                          (smt__TLA____Tuple__1
                                            smt__CONSTANT__v__)
                                          (ite
                                            (smt__TLA____IntLteq
                                              smt__CONSTANT__v__
                                              (smt__TLA____Cast__Int 2287))
                                            (smt__TLA____Tuple__2
                                              (smt__TLA____IntRemainder
                                                (smt__TLA____IntPlus
                                                  (smt__TLA____IntQuotient
                                                    (smt__TLA____IntMinus
                                                      smt__CONSTANT__v__
                                                      (smt__TLA____Cast__Int
                                                        240))
                                                    (smt__TLA____Cast__Int
                                                      256))
                                                  (smt__TLA____Cast__Int 241))
                                                (smt__TLA____Cast__Int 256))
                                              (smt__TLA____IntRemainder
                                                (smt__TLA____IntMinus
                                                  smt__CONSTANT__v__
                                                  (smt__TLA____Cast__Int 240))
                                                (smt__TLA____Cast__Int 256)))
                                            (ite
                                              (smt__TLA____IntLteq
                                                smt__CONSTANT__v__
                                                (smt__TLA____Cast__Int 67823))
                                              (smt__TLA____Tuple__3
                                                (smt__TLA____Cast__Int 249)
                                                (smt__TLA____IntRemainder
                                                  (smt__TLA____IntQuotient
                                                    (smt__TLA____IntMinus
                                                      smt__CONSTANT__v__
                                                      (smt__TLA____Cast__Int
                                                        2288))
                                                    (smt__TLA____Cast__Int
                                                      256))
                                                  (smt__TLA____Cast__Int 256))
                                                (smt__TLA____IntRemainder
                                                  (smt__TLA____IntMinus
                                                    smt__CONSTANT__v__
                                                    (smt__TLA____Cast__Int
                                                      2288))
                                                  (smt__TLA____Cast__Int 256)))
                                              (ite
                                                (smt__TLA____IntLteq
                                                  smt__CONSTANT__v__
                                                  (smt__TLA____Cast__Int
                                                    16777215))
                                                (smt__TLA____Tuple__4
                                                  (smt__TLA____Cast__Int 250)
                                                  (smt__TLA____IntRemainder
                                                    (smt__TLA____IntQuotient
                                                      smt__CONSTANT__v__
                                                      (smt__TLA____Cast__Int
                                                        65536))
                                                    (smt__TLA____Cast__Int
                                                      256))
                                                  (smt__TLA____IntRemainder
                                                    (smt__TLA____IntQuotient
                                                      smt__CONSTANT__v__
                                                      (smt__TLA____Cast__Int
                                                        256))
                                                    (smt__TLA____Cast__Int
                                                      256))
                                                  (smt__TLA____IntRemainder
                                                    smt__CONSTANT__v__
                                                    (smt__TLA____Cast__Int
                                                      256)))
                                                (ite
                                                  (smt__TLA____IntLteq
                                                    smt__CONSTANT__v__
                                                    (smt__TLA____Cast__Int
                                                      4294967295))
                                                  (smt__TLA____Tuple__5
                                                    (smt__TLA____Cast__Int
                                                      251)
                                                    (smt__TLA____IntRemainder
                                                      (smt__TLA____IntQuotient
                                                        smt__CONSTANT__v__
                                                        (smt__TLA____Cast__Int
                                                          16777216))
                                                      (smt__TLA____Cast__Int
                                                        256))
                                                    (smt__TLA____IntRemainder
                                                      (smt__TLA____IntQuotient
                                                        smt__CONSTANT__v__
                                                        (smt__TLA____Cast__Int
                                                          65536))
                                                      (smt__TLA____Cast__Int
                                                        256))
                                                    (smt__TLA____IntRemainder
                                                      (smt__TLA____IntQuotient
                                                        smt__CONSTANT__v__
                                                        (smt__TLA____Cast__Int
                                                          256))
                                                      (smt__TLA____Cast__Int
                                                        256))
                                                    (smt__TLA____IntRemainder
                                                      smt__CONSTANT__v__
                                                      (smt__TLA____Cast__Int
                                                        256)))
                                                  (smt__TLA____Tuple__9
                                                    (smt__TLA____Cast__Int
                                                      255)
                                                    (smt__TLA____IntRemainder
                                                      (smt__TLA____IntQuotient
                                                        smt__CONSTANT__v__
                                                        (smt__TLA____Cast__Int
                                                          72057594037927936))
                                                      (smt__TLA____Cast__Int
                                                        256))
                                                    (smt__TLA____IntRemainder
                                                      (smt__TLA____IntQuotient
                                                        smt__CONSTANT__v__
                                                        (smt__TLA____Cast__Int
                                                          281474976710656))
                                                      (smt__TLA____Cast__Int
                                                        256))
                                                    (smt__TLA____IntRemainder
                                                      (smt__TLA____IntQuotient
                                                        smt__CONSTANT__v__
                                                        (smt__TLA____Cast__Int
                                                          1099511627776))
                                                      (smt__TLA____Cast__Int
                                                        256))
                                                    (smt__TLA____IntRemainder
                                                      (smt__TLA____IntQuotient
                                                        smt__CONSTANT__v__
                                                        (smt__TLA____Cast__Int
                                                          4294967296))
                                                      (smt__TLA____Cast__Int
                                                        256))
                                                    (smt__TLA____IntRemainder
                                                      (smt__TLA____IntQuotient
                                                        smt__CONSTANT__v__
                                                        (smt__TLA____Cast__Int
                                                          16777216))
                                                      (smt__TLA____Cast__Int
                                                        256))
                                                    (smt__TLA____IntRemainder
                                                      (smt__TLA____IntQuotient
                                                        smt__CONSTANT__v__
                                                        (smt__TLA____Cast__Int
                                                          65536))
                                                      (smt__TLA____Cast__Int
                                                        256))
                                                    (smt__TLA____IntRemainder
                                                      (smt__TLA____IntQuotient
                                                        smt__CONSTANT__v__
                                                        (smt__TLA____Cast__Int
                                                          256))
                                                      (smt__TLA____Cast__Int
                                                        256))
                                                    (smt__TLA____IntRemainder
                                                      smt__CONSTANT__v__
                                                      (smt__TLA____Cast__Int
                                                        256))))))))
                                        (smt__TLA____Cast__Int 2))
                                      (smt__TLA____Cast__Int 16777216))
                                    (smt__TLA____IntTimes
                                      (smt__TLA____FunApp
                                        (ite
                                          (smt__TLA____IntLteq
                                            smt__CONSTANT__v__
                                            (smt__TLA____Cast__Int 240))
                                          (smt__TLA____Tuple__1
                                            smt__CONSTANT__v__)
                                          (ite
                                            (smt__TLA____IntLteq
                                              smt__CONSTANT__v__
                                              (smt__TLA____Cast__Int 2287))
                                            (smt__TLA____Tuple__2
                                              (smt__TLA____IntRemainder
                                                (smt__TLA____IntPlus
                                                  (smt__TLA____IntQuotient
                                                    (smt__TLA____IntMinus
                                                      smt__CONSTANT__v__
                                                      (smt__TLA____Cast__Int
                                                        240))
                                                    (smt__TLA____Cast__Int
                                                      256))
                                                  (smt__TLA____Cast__Int 241))
                                                (smt__TLA____Cast__Int 256))
                                              (smt__TLA____IntRemainder
                                                (smt__TLA____IntMinus
                                                  smt__CONSTANT__v__
                                                  (smt__TLA____Cast__Int 240))
                                                (smt__TLA____Cast__Int 256)))
                                            (ite
                                              (smt__TLA____IntLteq
                                                smt__CONSTANT__v__
                                                (smt__TLA____Cast__Int 67823))
                                              (smt__TLA____Tuple__3
                                                (smt__TLA____Cast__Int 249)
                                                (smt__TLA____IntRemainder
                                                  (smt__TLA____IntQuotient
                                                    (smt__TLA____IntMinus
                                                      smt__CONSTANT__v__
                                                      (smt__TLA____Cast__Int
                                                        2288))
                                                    (smt__TLA____Cast__Int
                                                      256))
                                                  (smt__TLA____Cast__Int 256))
                                                (smt__TLA____IntRemainder
                                                  (smt__TLA____IntMinus
                                                    smt__CONSTANT__v__
                                                    (smt__TLA____Cast__Int
                                                      2288))
                                                  (smt__TLA____Cast__Int 256)))
                                              (ite
                                                (smt__TLA____IntLteq
                                                  smt__CONSTANT__v__
                                                  (smt__TLA____Cast__Int
                                                    16777215))
                                                (smt__TLA____Tuple__4
                                                  (smt__TLA____Cast__Int 250)
                                                  (smt__TLA____IntRemainder
                                                    (smt__TLA____IntQuotient
                                                      smt__CONSTANT__v__
                                                      (smt__TLA____Cast__Int
                                                        65536))
                                                    (smt__TLA____Cast__Int
                                                      256))
                                                  (smt__TLA____IntRemainder
                                                    (smt__TLA____IntQuotient
                                                      smt__CONSTANT__v__
                                                      (smt__TLA____Cast__Int
                                                        256))
                                                    (smt__TLA____Cast__Int
                                                      256))
                                                  (smt__TLA____IntRemainder
                                                    smt__CONSTANT__v__
                                                    (smt__TLA____Cast__Int
                                                      256)))
                                                (ite
                                                  (smt__TLA____IntLteq
                                                    smt__CONSTANT__v__
                                                    (smt__TLA____Cast__Int
                                                      4294967295))
                                                  (smt__TLA____Tuple__5
                                                    (smt__TLA____Cast__Int
                                                      251)
                                                    (smt__TLA____IntRemainder
                                                      (smt__TLA____IntQuotient
                                                        smt__CONSTANT__v__
                                                        (smt__TLA____Cast__Int
                                                          16777216))
                                                      (smt__TLA____Cast__Int
                                                        256))
                                                    (smt__TLA____IntRemainder
                                                      (smt__TLA____IntQuotient
                                                        smt__CONSTANT__v__
                                                        (smt__TLA____Cast__Int
                                                          65536))
                                                      (smt__TLA____Cast__Int
                                                        256))
                                                    (smt__TLA____IntRemainder
                                                      (smt__TLA____IntQuotient
                                                        smt__CONSTANT__v__
                                                        (smt__TLA____Cast__Int
                                                          256))
                                                      (smt__TLA____Cast__Int
                                                        256))
                                                    (smt__TLA____IntRemainder
                                                      smt__CONSTANT__v__
                                                      (smt__TLA____Cast__Int
                                                        256)))
                                                  (smt__TLA____Tuple__9
                                                    (smt__TLA____Cast__Int
                                                      255)
                                                    (smt__TLA____IntRemainder
                                                      (smt__TLA____IntQuotient
                                                        smt__CONSTANT__v__
                                                        (smt__TLA____Cast__Int
                                                          72057594037927936))
                                                      (smt__TLA____Cast__Int
                                                        256))
                                                    (smt__TLA____IntRemainder
                                                      (smt__TLA____IntQuotient
                                                        smt__CONSTANT__v__
                                                        (smt__TLA____Cast__Int
                                                          281474976710656))
                                                      (smt__TLA____Cast__Int
                                                        256))
                                                    (smt__TLA____IntRemainder
                                                      (smt__TLA____IntQuotient
                                                        smt__CONSTANT__v__
                                                        (smt__TLA____Cast__Int
                                                          1099511627776))
                                                      (smt__TLA____Cast__Int
                                                        256))
                                                    (smt__TLA____IntRemainder
                                                      (smt__TLA____IntQuotient
                                                        smt__CONSTANT__v__
                                                        (smt__TLA____Cast__Int
                                                          4294967296))
                                                      (smt__TLA____Cast__Int
                                                        256))
                                                    (smt__TLA____IntRemainder
                                                      (smt__TLA____IntQuotient
                                                        smt__CONSTANT__v__
                                                        (smt__TLA____Cast__Int
                                                          16777216))
                                                      (smt__TLA____Cast__Int
                                                        256))
                                                    (smt__TLA____IntRemainder
                                                      (smt__TLA____IntQuotient
                                                        smt__CONSTANT__v__
                                                        (smt__TLA____Cast__Int
                                                          65536))
                                                      (smt__TLA____Cast__Int
                                                        256))
                                                    (smt__TLA____IntRemainder
                                                      (smt__TLA____IntQuotient
                                                        smt__CONSTANT__v__
                                                        (smt__TLA____Cast__Int
                                                          256))
                                                      (smt__TLA____Cast__Int
                                                        256))
                                                    (smt__TLA____IntRemainder
                                                      smt__CONSTANT__v__
                                                      (smt__TLA____Cast__Int
                                                        256))))))))
                                        (smt__TLA____Cast__Int 3))
                                      (smt__TLA____Cast__Int 65536)))
                                  (smt__TLA____IntTimes
                                    (smt__TLA____FunApp
                                      (ite
                                        (smt__TLA____IntLteq
                                          smt__CONSTANT__v__
                                          (smt__TLA____Cast__Int 240))
                                        (smt__TLA____Tuple__1
                                          smt__CONSTANT__v__)
                                        (ite
                                          (smt__TLA____IntLteq
                                            smt__CONSTANT__v__
                                            (smt__TLA____Cast__Int 2287))
                                          (smt__TLA____Tuple__2
                                            (smt__TLA____IntRemainder
                                              (smt__TLA____IntPlus
                                                (smt__TLA____IntQuotient
                                                  (smt__TLA____IntMinus
                                                    smt__CONSTANT__v__
                                                    (smt__TLA____Cast__Int
                                                      240))
                                                  (smt__TLA____Cast__Int 256))
                                                (smt__TLA____Cast__Int 241))
                                              (smt__TLA____Cast__Int 256))
                                            (smt__TLA____IntRemainder
                                              (smt__TLA____IntMinus
                                                smt__CONSTANT__v__
                                                (smt__TLA____Cast__Int 240))
                                              (smt__TLA____Cast__Int 256)))
                                          (ite
                                            (smt__TLA____IntLteq
                                              smt__CONSTANT__v__
                                              (smt__TLA____Cast__Int 67823))
                                            (smt__TLA____Tuple__3
                                              (smt__TLA____Cast__Int 249)
                                              (smt__TLA____IntRemainder
                                                (smt__TLA____IntQuotient
                                                  (smt__TLA____IntMinus
                                                    smt__CONSTANT__v__
                                                    (smt__TLA____Cast__Int
                                                      2288))
                                                  (smt__TLA____Cast__Int 256))
                                                (smt__TLA____Cast__Int 256))
                                              (smt__TLA____IntRemainder
                                                (smt__TLA____IntMinus
                                                  smt__CONSTANT__v__
                                                  (smt__TLA____Cast__Int 2288))
                                                (smt__TLA____Cast__Int 256)))
                                            (ite
                                              (smt__TLA____IntLteq
                                                smt__CONSTANT__v__
                                                (smt__TLA____Cast__Int
                                                  16777215))
                                              (smt__TLA____Tuple__4
                                                (smt__TLA____Cast__Int 250)
                                                (smt__TLA____IntRemainder
                                                  (smt__TLA____IntQuotient
                                                    smt__CONSTANT__v__
                                                    (smt__TLA____Cast__Int
                                                      65536))
                                                  (smt__TLA____Cast__Int 256))
                                                (smt__TLA____IntRemainder
                                                  (smt__TLA____IntQuotient
                                                    smt__CONSTANT__v__
                                                    (smt__TLA____Cast__Int
                                                      256))
                                                  (smt__TLA____Cast__Int 256))
                                                (smt__TLA____IntRemainder
                                                  smt__CONSTANT__v__
                                                  (smt__TLA____Cast__Int 256)))
                                              (ite
                                                (smt__TLA____IntLteq
                                                  smt__CONSTANT__v__
                                                  (smt__TLA____Cast__Int
                                                    4294967295))
                                                (smt__TLA____Tuple__5
                                                  (smt__TLA____Cast__Int 251)
                                                  (smt__TLA____IntRemainder
                                                    (smt__TLA____IntQuotient
                                                      smt__CONSTANT__v__
                                                      (smt__TLA____Cast__Int
                                                        16777216))
                                                    (smt__TLA____Cast__Int
                                                      256))
                                                  (smt__TLA____IntRemainder
                                                    (smt__TLA____IntQuotient
                                                      smt__CONSTANT__v__
                                                      (smt__TLA____Cast__Int
                                                        65536))
                                                    (smt__TLA____Cast__Int
                                                      256))
                                                  (smt__TLA____IntRemainder
                                                    (smt__TLA____IntQuotient
                                                      smt__CONSTANT__v__
                                                      (smt__TLA____Cast__Int
                                                        256))
                                                    (smt__TLA____Cast__Int
                                                      256))
                                                  (smt__TLA____IntRemainder
                                                    smt__CONSTANT__v__
                                                    (smt__TLA____Cast__Int
                                                      256)))
                                                (smt__TLA____Tuple__9
                                                  (smt__TLA____Cast__Int 255)
                                                  (smt__TLA____IntRemainder
                                                    (smt__TLA____IntQuotient
                                                      smt__CONSTANT__v__
                                                      (smt__TLA____Cast__Int
                                                        72057594037927936))
                                                    (smt__TLA____Cast__Int
                                                      256))
                                                  (smt__TLA____IntRemainder
                                                    (smt__TLA____IntQuotient
                                                      smt__CONSTANT__v__
                                                      (smt__TLA____Cast__Int
                                                        281474976710656))
                                                    (smt__TLA____Cast__Int
                                                      256))
                                                  (smt__TLA____IntRemainder
                                                    (smt__TLA____IntQuotient
                                                      smt__CONSTANT__v__
                                                      (smt__TLA____Cast__Int
                                                        1099511627776))
                                                    (smt__TLA____Cast__Int
                                                      256))
                                                  (smt__TLA____IntRemainder
                                                    (smt__TLA____IntQuotient
                                                      smt__CONSTANT__v__
                                                      (smt__TLA____Cast__Int
                                                        4294967296))
                                                    (smt__TLA____Cast__Int
                                                      256))
                                                  (smt__TLA____IntRemainder
                                                    (smt__TLA____IntQuotient
                                                      smt__CONSTANT__v__
                                                      (smt__TLA____Cast__Int
                                                        16777216))
                                                    (smt__TLA____Cast__Int
                                                      256))
                                                  (smt__TLA____IntRemainder
                                                    (smt__TLA____IntQuotient
                                                      smt__CONSTANT__v__
                                                      (smt__TLA____Cast__Int
                                                        65536))
                                                    (smt__TLA____Cast__Int
                                                      256))
                                                  (smt__TLA____IntRemainder
                                                    (smt__TLA____IntQuotient
                                                      smt__CONSTANT__v__
                                                      (smt__TLA____Cast__Int
                                                        256))
                                                    (smt__TLA____Cast__Int
                                                      256))
                                                  (smt__TLA____IntRemainder
                                                    smt__CONSTANT__v__
                                                    (smt__TLA____Cast__Int
                                                      256))))))))
                                      (smt__TLA____Cast__Int 4))
                                    (smt__TLA____Cast__Int 256)))
                                (smt__TLA____FunApp
                                  (ite
                                    (smt__TLA____IntLteq smt__CONSTANT__v__
                                      (smt__TLA____Cast__Int 240))
                                    (smt__TLA____Tuple__1 smt__CONSTANT__v__)
                                    (ite
                                      (smt__TLA____IntLteq smt__CONSTANT__v__
                                        (smt__TLA____Cast__Int 2287))
                                      (smt__TLA____Tuple__2
                                        (smt__TLA____IntRemainder
                                          (smt__TLA____IntPlus
                                            (smt__TLA____IntQuotient
                                              (smt__TLA____IntMinus
                                                smt__CONSTANT__v__
                                                (smt__TLA____Cast__Int 240))
                                              (smt__TLA____Cast__Int 256))
                                            (smt__TLA____Cast__Int 241))
                                          (smt__TLA____Cast__Int 256))
                                        (smt__TLA____IntRemainder
                                          (smt__TLA____IntMinus
                                            smt__CONSTANT__v__
                                            (smt__TLA____Cast__Int 240))
                                          (smt__TLA____Cast__Int 256)))
                                      (ite
                                        (smt__TLA____IntLteq
                                          smt__CONSTANT__v__
                                          (smt__TLA____Cast__Int 67823))
                                        (smt__TLA____Tuple__3
                                          (smt__TLA____Cast__Int 249)
                                          (smt__TLA____IntRemainder
                                            (smt__TLA____IntQuotient
                                              (smt__TLA____IntMinus
                                                smt__CONSTANT__v__
                                                (smt__TLA____Cast__Int 2288))
                                              (smt__TLA____Cast__Int 256))
                                            (smt__TLA____Cast__Int 256))
                                          (smt__TLA____IntRemainder
                                            (smt__TLA____IntMinus
                                              smt__CONSTANT__v__
                                              (smt__TLA____Cast__Int 2288))
                                            (smt__TLA____Cast__Int 256)))
                                        (ite
                                          (smt__TLA____IntLteq
                                            smt__CONSTANT__v__
                                            (smt__TLA____Cast__Int 16777215))
                                          (smt__TLA____Tuple__4
                                            (smt__TLA____Cast__Int 250)
                                            (smt__TLA____IntRemainder
                                              (smt__TLA____IntQuotient
                                                smt__CONSTANT__v__
                                                (smt__TLA____Cast__Int 65536))
                                              (smt__TLA____Cast__Int 256))
                                            (smt__TLA____IntRemainder
                                              (smt__TLA____IntQuotient
                                                smt__CONSTANT__v__
                                                (smt__TLA____Cast__Int 256))
                                              (smt__TLA____Cast__Int 256))
                                            (smt__TLA____IntRemainder
                                              smt__CONSTANT__v__
                                              (smt__TLA____Cast__Int 256)))
                                          (ite
                                            (smt__TLA____IntLteq
                                              smt__CONSTANT__v__
                                              (smt__TLA____Cast__Int
                                                4294967295))
                                            (smt__TLA____Tuple__5
                                              (smt__TLA____Cast__Int 251)
                                              (smt__TLA____IntRemainder
                                                (smt__TLA____IntQuotient
                                                  smt__CONSTANT__v__
                                                  (smt__TLA____Cast__Int
                                                    16777216))
                                                (smt__TLA____Cast__Int 256))
                                              (smt__TLA____IntRemainder
                                                (smt__TLA____IntQuotient
                                                  smt__CONSTANT__v__
                                                  (smt__TLA____Cast__Int
                                                    65536))
                                                (smt__TLA____Cast__Int 256))
                                              (smt__TLA____IntRemainder
                                                (smt__TLA____IntQuotient
                                                  smt__CONSTANT__v__
                                                  (smt__TLA____Cast__Int 256))
                                                (smt__TLA____Cast__Int 256))
                                              (smt__TLA____IntRemainder
                                                smt__CONSTANT__v__
                                                (smt__TLA____Cast__Int 256)))
                                            (smt__TLA____Tuple__9
                                              (smt__TLA____Cast__Int 255)
                                              (smt__TLA____IntRemainder
                                                (smt__TLA____IntQuotient
                                                  smt__CONSTANT__v__
                                                  (smt__TLA____Cast__Int
                                                    72057594037927936))
                                                (smt__TLA____Cast__Int 256))
                                              (smt__TLA____IntRemainder
                                                (smt__TLA____IntQuotient
                                                  smt__CONSTANT__v__
                                                  (smt__TLA____Cast__Int
                                                    281474976710656))
                                                (smt__TLA____Cast__Int 256))
                                              (smt__TLA____IntRemainder
                                                (smt__TLA____IntQuotient
                                                  smt__CONSTANT__v__
                                                  (smt__TLA____Cast__Int
                                                    1099511627776))
                                                (smt__TLA____Cast__Int 256))
                                              (smt__TLA____IntRemainder
                                                (smt__TLA____IntQuotient
                                                  smt__CONSTANT__v__
                                                  (smt__TLA____Cast__Int
                                                    4294967296))
                                                (smt__TLA____Cast__Int 256))
                                              (smt__TLA____IntRemainder
                                                (smt__TLA____IntQuotient
                                                  smt__CONSTANT__v__
                                                  (smt__TLA____Cast__Int
                                                    16777216))
                                                (smt__TLA____Cast__Int 256))
                                              (smt__TLA____IntRemainder
                                                (smt__TLA____IntQuotient
                                                  smt__CONSTANT__v__
                                                  (smt__TLA____Cast__Int
                                                    65536))
                                                (smt__TLA____Cast__Int 256))
                                              (smt__TLA____IntRemainder
                                                (smt__TLA____IntQuotient
                                                  smt__CONSTANT__v__
                                                  (smt__TLA____Cast__Int 256))
                                                (smt__TLA____Cast__Int 256))
                                              (smt__TLA____IntRemainder
                                                smt__CONSTANT__v__
                                                (smt__TLA____Cast__Int 256))))))))
                                  (smt__TLA____Cast__Int 5)))))
                          (ite
                            (=
                              (smt__TLA____FunApp
                                (ite
                                  (smt__TLA____IntLteq smt__CONSTANT__v__
                                    (smt__TLA____Cast__Int 240))
                                  (smt__TLA____Tuple__1 smt__CONSTANT__v__)
                                  (ite
                                    (smt__TLA____IntLteq smt__CONSTANT__v__
                                      (smt__TLA____Cast__Int 2287))
                                    (smt__TLA____Tuple__2
                                      (smt__TLA____IntRemainder
                                        (smt__TLA____IntPlus
                                          (smt__TLA____IntQuotient
                                            (smt__TLA____IntMinus
                                              smt__CONSTANT__v__
                                              (smt__TLA____Cast__Int 240))
                                            (smt__TLA____Cast__Int 256))
                                          (smt__TLA____Cast__Int 241))
                                        (smt__TLA____Cast__Int 256))
                                      (smt__TLA____IntRemainder
                                        (smt__TLA____IntMinus
                                          smt__CONSTANT__v__
                                          (smt__TLA____Cast__Int 240))
                                        (smt__TLA____Cast__Int 256)))
                                    (ite
                                      (smt__TLA____IntLteq smt__CONSTANT__v__
                                        (smt__TLA____Cast__Int 67823))
                                      (smt__TLA____Tuple__3
                                        (smt__TLA____Cast__Int 249)
                                        (smt__TLA____IntRemainder
                                          (smt__TLA____IntQuotient
                                            (smt__TLA____IntMinus
                                              smt__CONSTANT__v__
                                              (smt__TLA____Cast__Int 2288))
                                            (smt__TLA____Cast__Int 256))
                                          (smt__TLA____Cast__Int 256))
                                        (smt__TLA____IntRemainder
                                          (smt__TLA____IntMinus
                                            smt__CONSTANT__v__
                                            (smt__TLA____Cast__Int 2288))
                                          (smt__TLA____Cast__Int 256)))
                                      (ite
                                        (smt__TLA____IntLteq
                                          smt__CONSTANT__v__
                                          (smt__TLA____Cast__Int 16777215))
                                        (smt__TLA____Tuple__4
                                          (smt__TLA____Cast__Int 250)
                                          (smt__TLA____IntRemainder
                                            (smt__TLA____IntQuotient
                                              smt__CONSTANT__v__
                                              (smt__TLA____Cast__Int 65536))
                                            (smt__TLA____Cast__Int 256))
                                          (smt__TLA____IntRemainder
                                            (smt__TLA____IntQuotient
                                              smt__CONSTANT__v__
                                              (smt__TLA____Cast__Int 256))
                                            (smt__TLA____Cast__Int 256))
                                          (smt__TLA____IntRemainder
                                            smt__CONSTANT__v__
                                            (smt__TLA____Cast__Int 256)))
                                        (ite
                                          (smt__TLA____IntLteq
                                            smt__CONSTANT__v__
                                            (smt__TLA____Cast__Int 4294967295))
                                          (smt__TLA____Tuple__5
                                            (smt__TLA____Cast__Int 251)
                                            (smt__TLA____IntRemainder
                                              (smt__TLA____IntQuotient
                                                smt__CONSTANT__v__
                                                (smt__TLA____Cast__Int
                                                  16777216))
                                              (smt__TLA____Cast__Int 256))
                                            (smt__TLA____IntRemainder
                                              (smt__TLA____IntQuotient
                                                smt__CONSTANT__v__
                                                (smt__TLA____Cast__Int 65536))
                                              (smt__TLA____Cast__Int 256))
                                            (smt__TLA____IntRemainder
                                              (smt__TLA____IntQuotient
                                                smt__CONSTANT__v__
                                                (smt__TLA____Cast__Int 256))
                                              (smt__TLA____Cast__Int 256))
                                            (smt__TLA____IntRemainder
                                              smt__CONSTANT__v__
                                              (smt__TLA____Cast__Int 256)))
                                          (smt__TLA____Tuple__9
                                            (smt__TLA____Cast__Int 255)
                                            (smt__TLA____IntRemainder
                                              (smt__TLA____IntQuotient
                                                smt__CONSTANT__v__
                                                (smt__TLA____Cast__Int
                                                  72057594037927936))
                                              (smt__TLA____Cast__Int 256))
                                            (smt__TLA____IntRemainder
                                              (smt__TLA____IntQuotient
                                                smt__CONSTANT__v__
                                                (smt__TLA____Cast__Int
                                                  281474976710656))
                                              (smt__TLA____Cast__Int 256))
                                            (smt__TLA____IntRemainder
                                              (smt__TLA____IntQuotient
                                                smt__CONSTANT__v__
                                                (smt__TLA____Cast__Int
                                                  1099511627776))
                                              (smt__TLA____Cast__Int 256))
                                            (smt__TLA____IntRemainder
                                              (smt__TLA____IntQuotient
                                                smt__CONSTANT__v__
                                                (smt__TLA____Cast__Int
                                                  4294967296))
                                              (smt__TLA____Cast__Int 256))
                                            (smt__TLA____IntRemainder
                                              (smt__TLA____IntQuotient
                                                smt__CONSTANT__v__
                                                (smt__TLA____Cast__Int
                                                  16777216))
                                              (smt__TLA____Cast__Int 256))
                                            (smt__TLA____IntRemainder
                                              (smt__TLA____IntQuotient
                                                smt__CONSTANT__v__
                                                (smt__TLA____Cast__Int 65536))
                                              (smt__TLA____Cast__Int 256))
                                            (smt__TLA____IntRemainder
                                              (smt__TLA____IntQuotient
                                                smt__CONSTANT__v__
                                                (smt__TLA____Cast__Int 256))
                                              (smt__TLA____Cast__Int 256))
                                            (smt__TLA____IntRemainder
                                              smt__CONSTANT__v__
                                              (smt__TLA____Cast__Int 256))))))))
                                (smt__TLA____Cast__Int 1))
                              (smt__TLA____Cast__Int 255))
                            (ite
                              (and
                                (smt__TLA____IntLteq
                                  (smt__TLA____Len
                                    (ite
                                      (smt__TLA____IntLteq smt__CONSTANT__v__
                                        (smt__TLA____Cast__Int 240))
                                      (smt__TLA____Tuple__1
                                        smt__CONSTANT__v__)
                                      (ite
                                        (smt__TLA____IntLteq
                                          smt__CONSTANT__v__
                                          (smt__TLA____Cast__Int 2287))
                                        (smt__TLA____Tuple__2
                                          (smt__TLA____IntRemainder
                                            (smt__TLA____IntPlus
                                              (smt__TLA____IntQuotient
                                                (smt__TLA____IntMinus
                                                  smt__CONSTANT__v__
                                                  (smt__TLA____Cast__Int 240))
                                                (smt__TLA____Cast__Int 256))
                                              (smt__TLA____Cast__Int 241))
                                            (smt__TLA____Cast__Int 256))
                                          (smt__TLA____IntRemainder
                                            (smt__TLA____IntMinus
                                              smt__CONSTANT__v__
                                              (smt__TLA____Cast__Int 240))
                                            (smt__TLA____Cast__Int 256)))
                                        (ite
                                          (smt__TLA____IntLteq
                                            smt__CONSTANT__v__
                                            (smt__TLA____Cast__Int 67823))
                                          (smt__TLA____Tuple__3
                                            (smt__TLA____Cast__Int 249)
                                            (smt__TLA____IntRemainder
                                              (smt__TLA____IntQuotient
                                                (smt__TLA____IntMinus
                                                  smt__CONSTANT__v__
                                                  (smt__TLA____Cast__Int 2288))
                                                (smt__TLA____Cast__Int 256))
                                              (smt__TLA____Cast__Int 256))
                                            (smt__TLA____IntRemainder
                                              (smt__TLA____IntMinus
                                                smt__CONSTANT__v__
                                                (smt__TLA____Cast__Int 2288))
                                              (smt__TLA____Cast__Int 256)))
                                          (ite
                                            (smt__TLA____IntLteq
                                              smt__CONSTANT__v__
                                              (smt__TLA____Cast__Int 16777215))
                                            (smt__TLA____Tuple__4
                                              (smt__TLA____Cast__Int 250)
                                              (smt__TLA____IntRemainder
                                                (smt__TLA____IntQuotient
                                                  smt__CONSTANT__v__
                                                  (smt__TLA____Cast__Int
                                                    65536))
                                                (smt__TLA____Cast__Int 256))
                                              (smt__TLA____IntRemainder
                                                (smt__TLA____IntQuotient
                                                  smt__CONSTANT__v__
                                                  (smt__TLA____Cast__Int 256))
                                                (smt__TLA____Cast__Int 256))
                                              (smt__TLA____IntRemainder
                                                smt__CONSTANT__v__
                                                (smt__TLA____Cast__Int 256)))
                                            (ite
                                              (smt__TLA____IntLteq
                                                smt__CONSTANT__v__
                                                (smt__TLA____Cast__Int
                                                  4294967295))
                                              (smt__TLA____Tuple__5
                                                (smt__TLA____Cast__Int 251)
                                                (smt__TLA____IntRemainder
                                                  (smt__TLA____IntQuotient
                                                    smt__CONSTANT__v__
                                                    (smt__TLA____Cast__Int
                                                      16777216))
                                                  (smt__TLA____Cast__Int 256))
                                                (smt__TLA____IntRemainder
                                                  (smt__TLA____IntQuotient
                                                    smt__CONSTANT__v__
                                                    (smt__TLA____Cast__Int
                                                      65536))
                                                  (smt__TLA____Cast__Int 256))
                                                (smt__TLA____IntRemainder
                                                  (smt__TLA____IntQuotient
                                                    smt__CONSTANT__v__
                                                    (smt__TLA____Cast__Int
                                                      256))
                                                  (smt__TLA____Cast__Int 256))
                                                (smt__TLA____IntRemainder
                                                  smt__CONSTANT__v__
                                                  (smt__TLA____Cast__Int 256)))
                                              (smt__TLA____Tuple__9
                                                (smt__TLA____Cast__Int 255)
                                                (smt__TLA____IntRemainder
                                                  (smt__TLA____IntQuotient
                                                    smt__CONSTANT__v__
                                                    (smt__TLA____Cast__Int
                                                      72057594037927936))
                                                  (smt__TLA____Cast__Int 256))
                                                (smt__TLA____IntRemainder
                                                  (smt__TLA____IntQuotient
                                                    smt__CONSTANT__v__
                                                    (smt__TLA____Cast__Int
                                                      281474976710656))
                                                  (smt__TLA____Cast__Int 256))
                                                (smt__TLA____IntRemainder
                                                  (smt__TLA____IntQuotient
                                                    smt__CONSTANT__v__
                                                    (smt__TLA____Cast__Int
                                                      1099511627776))
                                                  (smt__TLA____Cast__Int 256))
                                                (smt__TLA____IntRemainder
                                                  (smt__TLA____IntQuotient
                                                    smt__CONSTANT__v__
                                                    (smt__TLA____Cast__Int
                                                      4294967296))
                                                  (smt__TLA____Cast__Int 256))
                                                (smt__TLA____IntRemainder
                                                  (smt__TLA____IntQuotient
                                                    smt__CONSTANT__v__
                                                    (smt__TLA____Cast__Int
                                                      16777216))
                                                  (smt__TLA____Cast__Int 256))
                                                (smt__TLA____IntRemainder
                                                  (smt__TLA____IntQuotient
                                                    smt__CONSTANT__v__
                                                    (smt__TLA____Cast__Int
                                                      65536))
                                                  (smt__TLA____Cast__Int 256))
                                                (smt__TLA____IntRemainder
                                                  (smt__TLA____IntQuotient
                                                    smt__CONSTANT__v__
                                                    (smt__TLA____Cast__Int
                                                      256))
                                                  (smt__TLA____Cast__Int 256))
                                                (smt__TLA____IntRemainder
                                                  smt__CONSTANT__v__
                                                  (smt__TLA____Cast__Int 256)))))))))
                                  (smt__TLA____Cast__Int 9))
                                (distinct
                                  (smt__TLA____Len
                                    (ite
                                      (smt__TLA____IntLteq smt__CONSTANT__v__
                                        (smt__TLA____Cast__Int 240))
                                      (smt__TLA____Tuple__1
                                        smt__CONSTANT__v__)
                                      (ite
                                        (smt__TLA____IntLteq
                                          smt__CONSTANT__v__
                                          (smt__TLA____Cast__Int 2287))
                                        (smt__TLA____Tuple__2
                                          (smt__TLA____IntRemainder
                                            (smt__TLA____IntPlus
                                              (smt__TLA____IntQuotient
                                                (smt__TLA____IntMinus
                                                  smt__CONSTANT__v__
                                                  (smt__TLA____Cast__Int 240))
                                                (smt__TLA____Cast__Int 256))
                                              (smt__TLA____Cast__Int 241))
                                            (smt__TLA____Cast__Int 256))
                                          (smt__TLA____IntRemainder
                                            (smt__TLA____IntMinus
                                              smt__CONSTANT__v__
                                              (smt__TLA____Cast__Int 240))
                                            (smt__TLA____Cast__Int 256)))
                                        (ite
                                          (smt__TLA____IntLteq
                                            smt__CONSTANT__v__
                                            (smt__TLA____Cast__Int 67823))
                                          (smt__TLA____Tuple__3
                                            (smt__TLA____Cast__Int 249)
                                            (smt__TLA____IntRemainder
                                              (smt__TLA____IntQuotient
                                                (smt__TLA____IntMinus
                                                  smt__CONSTANT__v__
                                                  (smt__TLA____Cast__Int 2288))
                                                (smt__TLA____Cast__Int 256))
                                              (smt__TLA____Cast__Int 256))
                                            (smt__TLA____IntRemainder
                                              (smt__TLA____IntMinus
                                                smt__CONSTANT__v__
                                                (smt__TLA____Cast__Int 2288))
                                              (smt__TLA____Cast__Int 256)))
                                          (ite
                                            (smt__TLA____IntLteq
                                              smt__CONSTANT__v__
                                              (smt__TLA____Cast__Int 16777215))
                                            (smt__TLA____Tuple__4
                                              (smt__TLA____Cast__Int 250)
                                              (smt__TLA____IntRemainder
                                                (smt__TLA____IntQuotient
                                                  smt__CONSTANT__v__
                                                  (smt__TLA____Cast__Int
                                                    65536))
                                                (smt__TLA____Cast__Int 256))
                                              (smt__TLA____IntRemainder
                                                (smt__TLA____IntQuotient
                                                  smt__CONSTANT__v__
                                                  (smt__TLA____Cast__Int 256))
                                                (smt__TLA____Cast__Int 256))
                                              (smt__TLA____IntRemainder
                                                smt__CONSTANT__v__
                                                (smt__TLA____Cast__Int 256)))
                                            (ite
                                              (smt__TLA____IntLteq
                                                smt__CONSTANT__v__
                                                (smt__TLA____Cast__Int
                                                  4294967295))
                                              (smt__TLA____Tuple__5
                                                (smt__TLA____Cast__Int 251)
                                                (smt__TLA____IntRemainder
                                                  (smt__TLA____IntQuotient
                                                    smt__CONSTANT__v__
                                                    (smt__TLA____Cast__Int
                                                      16777216))
                                                  (smt__TLA____Cast__Int 256))
                                                (smt__TLA____IntRemainder
                                                  (smt__TLA____IntQuotient
                                                    smt__CONSTANT__v__
                                                    (smt__TLA____Cast__Int
                                                      65536))
                                                  (smt__TLA____Cast__Int 256))
                                                (smt__TLA____IntRemainder
                                                  (smt__TLA____IntQuotient
                                                    smt__CONSTANT__v__
                                                    (smt__TLA____Cast__Int
                                                      256))
                                                  (smt__TLA____Cast__Int 256))
                                                (smt__TLA____IntRemainder
                                                  smt__CONSTANT__v__
                                                  (smt__TLA____Cast__Int 256)))
                                              (smt__TLA____Tuple__9
                                                (smt__TLA____Cast__Int 255)
                                                (smt__TLA____IntRemainder
                                                  (smt__TLA____IntQuotient
                                                    smt__CONSTANT__v__
                                                    (smt__TLA____Cast__Int
                                                      72057594037927936))
                                                  (smt__TLA____Cast__Int 256))
                                                (smt__TLA____IntRemainder
                                                  (smt__TLA____IntQuotient
                                                    smt__CONSTANT__v__
                                                    (smt__TLA____Cast__Int
                                                      281474976710656))
                                                  (smt__TLA____Cast__Int 256))
                                                (smt__TLA____IntRemainder
                                                  (smt__TLA____IntQuotient
                                                    smt__CONSTANT__v__
                                                    (smt__TLA____Cast__Int
                                                      1099511627776))
                                                  (smt__TLA____Cast__Int 256))
                                                (smt__TLA____IntRemainder
                                                  (smt__TLA____IntQuotient
                                                    smt__CONSTANT__v__
                                                    (smt__TLA____Cast__Int
                                                      4294967296))
                                                  (smt__TLA____Cast__Int 256))
                                                (smt__TLA____IntRemainder
                                                  (smt__TLA____IntQuotient
                                                    smt__CONSTANT__v__
                                                    (smt__TLA____Cast__Int
                                                      16777216))
                                                  (smt__TLA____Cast__Int 256))
                                                (smt__TLA____IntRemainder
                                                  (smt__TLA____IntQuotient
                                                    smt__CONSTANT__v__
                                                    (smt__TLA____Cast__Int
                                                      65536))
                                                  (smt__TLA____Cast__Int 256))
                                                (smt__TLA____IntRemainder
                                                  (smt__TLA____IntQuotient
                                                    smt__CONSTANT__v__
                                                    (smt__TLA____Cast__Int
                                                      256))
                                                  (smt__TLA____Cast__Int 256))
                                                (smt__TLA____IntRemainder
                                                  smt__CONSTANT__v__
                                                  (smt__TLA____Cast__Int 256)))))))))
                                  (smt__TLA____Cast__Int 9)))
                              (smt__CONSTANT__ErrTrunc__
                                (smt__TLA____Cast__Int 9))
                              (smt__TLA____Record__n__ok__val
                                (smt__TLA____Cast__Int 9)
                                (smt__TLA____Cast__Bool true)
                                (smt__TLA____IntPlus
                                  (smt__TLA____IntPlus
                                    (smt__TLA____IntPlus
                                      (smt__TLA____IntPlus
                                        (smt__TLA____IntPlus
                                          (smt__TLA____IntPlus
                                            (smt__TLA____IntPlus
                                              (smt__TLA____IntTimes
                                                (smt__TLA____FunApp
                                                  (ite
                                                    (smt__TLA____IntLteq
                                                      smt__CONSTANT__v__
                                                      (smt__TLA____Cast__Int
                                                        240))
                                                    (smt__TLA____Tuple__1
                                                      smt__CONSTANT__v__)
                                                    (ite
                                                      (smt__TLA____IntLteq
                                                        smt__CONSTANT__v__
                                                        (smt__TLA____Cast__Int
                                                          2287))
                                                      (smt__TLA____Tuple__2
                                                        (smt__TLA____IntRemainder
                                                          (smt__TLA____IntPlus
                                                            (smt__TLA____IntQuotient
                                                              (smt__TLA____IntMinus
                                                                smt__CONSTANT__v__
                                                                (smt__TLA____Cast__Int
                                                                  240))
                                                              (smt__TLA____Cast__Int
                                                                256))
                                                            (smt__TLA____Cast__Int
                                                              241))
                                                          (smt__TLA____Cast__Int
                                                            256))
                                                        (smt__TLA____IntRemainder
                                                          (smt__TLA____IntMinus
                                                            smt__CONSTANT__v__
                                                            (smt__TLA____Cast__Int
                                                              240))
                                                          (smt__TLA____Cast__Int
                                                            256)))
                                                      (ite
                                                        (smt__TLA____IntLteq
                                                          smt__CONSTANT__v__
                                                          (smt__TLA____Cast__Int
                                                            67823))
                                                        (smt__TLA____Tuple__3
                                                          (smt__TLA____Cast__Int
                                                            249)
                                                          (smt__TLA____IntRemainder
                                                            (smt__TLA____IntQuotient
                                                              (smt__TLA____IntMinus
                                                                smt__CONSTANT__v__
                                                                (smt__TLA____Cast__Int
                                                                  2288))
                                                              (smt__TLA____Cast__Int
                                                                256))
                                                            (smt__TLA____Cast__Int
                                                              256))
                                                          (smt__TLA____IntRemainder
                                                            (smt__TLA____IntMinus
                                                              smt__CONSTANT__v__
                                                              (smt__TLA____Cast__Int
                                                                2288))
                                                            (smt__TLA____Cast__Int
                                                              256)))
                                                        (ite
                                                          (smt__TLA____IntLteq
                                                            smt__CONSTANT__v__
                                                            (smt__TLA____Cast__Int
                                                              16777215))
                                                          (smt__TLA____Tuple__4
                                                            (smt__TLA____Cast__Int
                                                              250)
                                                            (smt__TLA____IntRemainder
                                                              (smt__TLA____IntQuotient
                                                                smt__CONSTANT__v__
                                                                (smt__TLA____Cast__Int
                                                                  65536))
                                                              (smt__TLA____Cast__Int
                                                                256))
                                                            (smt__TLA____IntRemainder
                                                              (smt__TLA____IntQuotient
                                                                smt__CONSTANT__v__
                                                                (smt__TLA____Cast__Int
                                                                  256))
                                                              (smt__TLA____Cast__Int
                                                                256))
                                                            (smt__TLA____IntRemainder
                                                              smt__CONSTANT__v__
                                                              (smt__TLA____Cast__Int
                                                                256)))
                                                          (ite
                                                            (smt__TLA____IntLteq
                                                              smt__CONSTANT__v__
                                                              (smt__TLA____Cast__Int
                                                                4294967295))
                                                            (smt__TLA____Tuple__5
                                                              (smt__TLA____Cast__Int
                                                                251)
                                                              (smt__TLA____IntRemainder
                                                                (smt__TLA____IntQuotient
                                                                  smt__CONSTANT__v__
                                                                  (smt__TLA____Cast__Int
                                                                    16777216))
                                                                (smt__TLA____Cast__Int
                                                                  256))
                                                              (smt__TLA____IntRemainder
                                                                (smt__TLA____IntQuotient
                                                                  smt__CONSTANT__v__
                                                                  (smt__TLA____Cast__Int
                                                                    65536))
                                                                (smt__TLA____Cast__Int
                                                                  256))
                                                              (smt__TLA____IntRemainder
                                                                (smt__TLA____IntQuotient
                                                                  smt__CONSTANT__v__
                                                                  (smt__TLA____Cast__Int
                                                                    256))
                                                                (smt__TLA____Cast__Int
                                                                  256))
                                                              (smt__TLA____IntRemainder
                                                                smt__CONSTANT__v__
                                                                (smt__TLA____Cast__Int
                                                                  256)))
                                                            (smt__TLA____Tuple__9
                                                              (smt__TLA____Cast__Int
                                                                255)
                                                              (smt__TLA____IntRemainder
                                                                (smt__TLA____IntQuotient
                                                                  smt__CONSTANT__v__
                                                                  (smt__TLA____Cast__Int
                                                                    72057594037927936))
                                                                (smt__TLA____Cast__Int
                                                                  256))
                                                              (smt__TLA____IntRemainder
                                                                (smt__TLA____IntQuotient
                                                                  smt__CONSTANT__v__
                                                                  (smt__TLA____Cast__Int
                                                                    281474976710656))
                                                                (smt__TLA____Cast__Int
                                                                  256))
                                                              (smt__TLA____IntRemainder
                                                                (smt__TLA____IntQuotient
                                                                  smt__CONSTANT__v__
                                                                  (smt__TLA____Cast__Int
                                                                    1099511627776))
                                                                (smt__TLA____Cast__Int
                                                                  256))
                                                              (smt__TLA____IntRemainder
                                                                (smt__TLA____IntQuotient
                                                                  smt__CONSTANT__v__
                                                                  (smt__TLA____Cast__Int
                                                                    4294967296))
                                                                (smt__TLA____Cast__Int
                                                                  256))
                                                              (smt__TLA____IntRemainder
                                                                (smt__TLA____IntQuotient
                                                                  smt__CONSTANT__v__
                                                                  (smt__TLA____Cast__Int
                                                                    16777216))
                                                                (smt__TLA____Cast__Int
                                                                  256))
                                                              (smt__TLA____IntRemainder
                                                                (smt__TLA____IntQuotient
                                                                  smt__CONSTANT__v__
                                                                  (smt__TLA____Cast__Int
                                                                    65536))
                                                                (smt__TLA____Cast__Int
                                                                  256))
                                                              (smt__TLA____IntRemainder
                                                                (smt__TLA____IntQuotient
                                                                  smt__CONSTANT__v__
                                                                  (smt__TLA____Cast__Int
                                                                    256))
                                                                (smt__TLA____Cast__Int
                                                                  256))
                                                              (smt__TLA____IntRemainder
                                                                smt__CONSTANT__v__
                                                                (smt__TLA____Cast__Int
                                                                  256))))))))
                                                  (smt__TLA____Cast__Int 2))
                                                (smt__TLA____Cast__Int
                                                  72057594037927936))
                                              (smt__TLA____IntTimes
                                                (smt__TLA____FunApp
                                                  (ite
                                                    (smt__TLA____IntLteq
                                                      smt__CONSTANT__v__
                                                      (smt__TLA____Cast__Int
                                                        240))
                                                    (smt__TLA____Tuple__1
                                                      smt__CONSTANT__v__)
                                                    (ite
                                                      (smt__TLA____IntLteq
                                                        smt__CONSTANT__v__
                                                        (smt__TLA____Cast__Int
                                                          2287))
                                                      (smt__TLA____Tuple__2
                                                        (smt__TLA____IntRemainder
                                                          (smt__TLA____IntPlus
                                                            (smt__TLA____IntQuotient
                                                              (smt__TLA____IntMinus
                                                                smt__CONSTANT__v__
                                                                (smt__TLA____Cast__Int
                                                                  240))
                                                              (smt__TLA____Cast__Int
                                                                256))
                                                            (smt__TLA____Cast__Int
                                                              241))
                                                          (smt__TLA____Cast__Int
                                                            256))
                                                        (smt__TLA____IntRemainder
                                                          (smt__TLA____IntMinus
                                                            smt__CONSTANT__v__
                                                            (smt__TLA____Cast__Int
                                                              240))
                                                          (smt__TLA____Cast__Int
                                                            256)))
                                                      (ite
                                                        (smt__TLA____IntLteq
                                                          smt__CONSTANT__v__
                                                          (smt__TLA____Cast__Int
                                                            67823))
                                                        (smt__TLA____Tuple__3
                                                          (smt__TLA____Cast__Int
                                                            249)
                                                          (smt__TLA____IntRemainder
                                                            (smt__TLA____IntQuotient
                                                              (smt__TLA____IntMinus
                                                                smt__CONSTANT__v__
                                                                (smt__TLA____Cast__Int
                                                                  2288))
                                                              (smt__TLA____Cast__Int
                                                                256))
                                                            (smt__TLA____Cast__Int
                                                              256))
                                                          (smt__TLA____IntRemainder
                                                            (smt__TLA____IntMinus
                                                              smt__CONSTANT__v__
                                                              (smt__TLA____Cast__Int
                                                                2288))
                                                            (smt__TLA____Cast__Int
                                                              256)))
                                                        (ite
                                                          (smt__TLA____IntLteq
                                                            smt__CONSTANT__v__
                                                            (smt__TLA____Cast__Int
                                                              16777215))
                                                          (smt__TLA____Tuple__4
                                                            (smt__TLA____Cast__Int
                                                              250)
                                                            (smt__TLA____IntRemainder
                                                              (smt__TLA____IntQuotient
                                                                smt__CONSTANT__v__
                                                                (smt__TLA____Cast__Int
                                                                  65536))
                                                              (smt__TLA____Cast__Int
                                                                256))
                                                            (smt__TLA____IntRemainder
                                                              (smt__TLA____IntQuotient
                                                                smt__CONSTANT__v__
                                                                (smt__TLA____Cast__Int
                                                                  256))
                                                              (smt__TLA____Cast__Int
                                                                256))
                                                            (smt__TLA____IntRemainder
                                                              smt__CONSTANT__v__
                                                              (smt__TLA____Cast__Int
                                                                256)))
                                                          (ite
                                                            (smt__TLA____IntLteq
                                                              smt__CONSTANT__v__
                                                              (smt__TLA____Cast__Int
                                                                4294967295))
                                                            (smt__TLA____Tuple__5
                                                              (smt__TLA____Cast__Int
                                                                251)
                                                              (smt__TLA____IntRemainder
                                                                (smt__TLA____IntQuotient
                                                                  smt__CONSTANT__v__
                                                                  (smt__TLA____Cast__Int
                                                                    16777216))
                                                                (smt__TLA____Cast__Int
                                                                  256))
                                                              (smt__TLA____IntRemainder
                                                                (smt__TLA____IntQuotient
                                                                  smt__CONSTANT__v__
                                                                  (smt__TLA____Cast__Int
                                                                    65536))
                                                                (smt__TLA____Cast__Int
                                                                  256))
                                                              (smt__TLA____IntRemainder
                                                                (smt__TLA____IntQuotient
                                                                  smt__CONSTANT__v__
                                                                  (smt__TLA____Cast__Int
                                                                    256))
                                                                (smt__TLA____Cast__Int
                                                                  256))
                                                              (smt__TLA____IntRemainder
                                                                smt__CONSTANT__v__
                                                                (smt__TLA____Cast__Int
                                                                  256)))
                                                            (smt__TLA____Tuple__9
                                                              (smt__TLA____Cast__Int
                                                                255)
                                                              (smt__TLA____IntRemainder
                                                                (smt__TLA____IntQuotient
                                                                  smt__CONSTANT__v__
                                                                  (smt__TLA____Cast__Int
                                                                    72057594037927936))
                                                                (smt__TLA____Cast__Int
                                                                  256))
                                                              (smt__TLA____IntRemainder
                                                                (smt__TLA____IntQuotient
                                                                  smt__CONSTANT__v__
                                                                  (smt__TLA____Cast__Int
                                                                    281474976710656))
                                                                (smt__TLA____Cast__Int
                                                                  256))
                                                              (smt__TLA____IntRemainder
                                                                (smt__TLA____IntQuotient
                                                                  smt__CONSTANT__v__
                                                                  (smt__TLA____Cast__Int
                                                                    1099511627776))
                                                                (smt__TLA____Cast__Int
                                                                  256))
                                                              (smt__TLA____IntRemainder
                                                                (smt__TLA____IntQuotient
                                                                  smt__CONSTANT__v__
                                                                  (smt__TLA____Cast__Int
                                                                    4294967296))
                                                                (smt__TLA____Cast__Int
                                                                  256))
                                                              (smt__TLA____IntRemainder
                                                                (smt__TLA____IntQuotient
                                                                  smt__CONSTANT__v__
                                                                  (smt__TLA____Cast__Int
                                                                    16777216))
                                                                (smt__TLA____Cast__Int
                                                                  256))
                                                              (smt__TLA____IntRemainder
                                                                (smt__TLA____IntQuotient
                                                                  smt__CONSTANT__v__
                                                                  (smt__TLA____Cast__Int
                                                                    65536))
                                                                (smt__TLA____Cast__Int
                                                                  256))
                                                              (smt__TLA____IntRemainder
                                                                (smt__TLA____IntQuotient
                                                                  smt__CONSTANT__v__
                                                                  (smt__TLA____Cast__Int
                                                                    256))
                                                                (smt__TLA____Cast__Int
                                                                  256))
                                                              (smt__TLA____IntRemainder
                                                                smt__CONSTANT__v__
                                                                (smt__TLA____Cast__Int
                                                                  256))))))))
                                                  (smt__TLA____Cast__Int 3))
                                                (smt__TLA____Cast__Int
                                                  281474976710656)))
                                            (smt__TLA____IntTimes
                                              (smt__TLA____FunApp
                                                (ite
                                                  (smt__TLA____IntLteq
                                                    smt__CONSTANT__v__
                                                    (smt__TLA____Cast__Int
                                                      240))
                                                  (smt__TLA____Tuple__1
                                                    smt__CONSTANT__v__)
                                                  (ite
                                                    (smt__TLA____IntLteq
                                                      smt__CONSTANT__v__
                                                      (smt__TLA____Cast__Int
                                                        2287))
                                                    (smt__TLA____Tuple__2
                                                      (smt__TLA____IntRemainder
                                                        (smt__TLA____IntPlus
                                                          (smt__TLA____IntQuotient
                                                            (smt__TLA____IntMinus
                                                              smt__CONSTANT__v__
                                                              (smt__TLA____Cast__Int
                                                                240))
                                                            (smt__TLA____Cast__Int
                                                              256))
                                                          (smt__TLA____Cast__Int
                                                            241))
                                                        (smt__TLA____Cast__Int
                                                          256))
                                                      (smt__TLA____IntRemainder
                                                        (smt__TLA____IntMinus
                                                          smt__CONSTANT__v__
                                                          (smt__TLA____Cast__Int
                                                            240))
                                                        (smt__TLA____Cast__Int
                                                          256)))
                                                    (ite
                                                      (smt__TLA____IntLteq
                                                        smt__CONSTANT__v__
                                                        (smt__TLA____Cast__Int
                                                          67823))
                                                      (smt__TLA____Tuple__3
                                                        (smt__TLA____Cast__Int
                                                          249)
                                                        (smt__TLA____IntRemainder
                                                          (smt__TLA____IntQuotient
                                                            (smt__TLA____IntMinus
                                                              smt__CONSTANT__v__
                                                              (smt__TLA____Cast__Int
                                                                2288))
                                                            (smt__TLA____Cast__Int
                                                              256))
                                                          (smt__TLA____Cast__Int
                                                            256))
                                                        (smt__TLA____IntRemainder
                                                          (smt__TLA____IntMinus
                                                            smt__CONSTANT__v__
                                                            (smt__TLA____Cast__Int
                                                              2288))
                                                          (smt__TLA____Cast__Int
                                                            256)))
                                                      (ite
                                                        (smt__TLA____IntLteq
                                                          smt__CONSTANT__v__
                                                          (smt__TLA____Cast__Int
                                                            16777215))
                                                        (smt__TLA____Tuple__4
                                                          (smt__TLA____Cast__Int
                                                            250)
                                                          (smt__TLA____IntRemainder
                                                            (smt__TLA____IntQuotient
                                                              smt__CONSTANT__v__
                                                              (smt__TLA____Cast__Int
                                                                65536))
                                                            (smt__TLA____Cast__Int
                                                              256))
                                                          (smt__TLA____IntRemainder
                                                            (smt__TLA____IntQuotient
                                                              smt__CONSTANT__v__
                                                              (smt__TLA____Cast__Int
                                                                256))
                                                            (smt__TLA____Cast__Int
                                                              256))
                                                          (smt__TLA____IntRemainder
                                                            smt__CONSTANT__v__
                                                            (smt__TLA____Cast__Int
                                                              256)))
                                                        (ite
                                                          (smt__TLA____IntLteq
                                                            smt__CONSTANT__v__
                                                            (smt__TLA____Cast__Int
                                                              4294967295))
                                                          (smt__TLA____Tuple__5
                                                            (smt__TLA____Cast__Int
                                                              251)
                                                            (smt__TLA____IntRemainder
                                                              (smt__TLA____IntQuotient
                                                                smt__CONSTANT__v__
                                                                (smt__TLA____Cast__Int
                                                                  16777216))
                                                              (smt__TLA____Cast__Int
                                                                256))
                                                            (smt__TLA____IntRemainder
                                                              (smt__TLA____IntQuotient
                                                                smt__CONSTANT__v__
                                                                (smt__TLA____Cast__Int
                                                                  65536))
                                                              (smt__TLA____Cast__Int
                                                                256))
                                                            (smt__TLA____IntRemainder
                                                              (smt__TLA____IntQuotient
                                                                smt__CONSTANT__v__
                                                                (smt__TLA____Cast__Int
                                                                  256))
                                                              (smt__TLA____Cast__Int
                                                                256))
                                                            (smt__TLA____IntRemainder
                                                              smt__CONSTANT__v__
                                                              (smt__TLA____Cast__Int
                                                                256)))
                                                          (smt__TLA____Tuple__9
                                                            (smt__TLA____Cast__Int
                                                              255)
                                                            (smt__TLA____IntRemainder
                                                              (smt__TLA____IntQuotient
                                                                smt__CONSTANT__v__
                                                                (smt__TLA____Cast__Int
                                                                  72057594037927936))
                                                              (smt__TLA____Cast__Int
                                                                256))
                                                            (smt__TLA____IntRemainder
                                                              (smt__TLA____IntQuotient
                                                                smt__CONSTANT__v__
                                                                (smt__TLA____Cast__Int
                                                                  281474976710656))
                                                              (smt__TLA____Cast__Int
                                                                256))
                                                            (smt__TLA____IntRemainder
                                                              (smt__TLA____IntQuotient
                                                                smt__CONSTANT__v__
                                                                (smt__TLA____Cast__Int
                                                                  1099511627776))
                                                              (smt__TLA____Cast__Int
                                                                256))
                                                            (smt__TLA____IntRemainder
                                                              (smt__TLA____IntQuotient
                                                                smt__CONSTANT__v__
                                                                (smt__TLA____Cast__Int
                                                                  4294967296))
                                                              (smt__TLA____Cast__Int
                                                                256))
                                                            (smt__TLA____IntRemainder
                                                              (smt__TLA____IntQuotient
                                                                smt__CONSTANT__v__
                                                                (smt__TLA____Cast__Int
                                                                  16777216))
                                                              (smt__TLA____Cast__Int
                                                                256))
                                                            (smt__TLA____IntRemainder
                                                              (smt__TLA____IntQuotient
                                                                smt__CONSTANT__v__
                                                                (smt__TLA____Cast__Int
                                                                  65536))
                                                              (smt__TLA____Cast__Int
                                                                256))
                                                            (smt__TLA____IntRemainder
                                                              (smt__TLA____IntQuotient
                                                                smt__CONSTANT__v__
                                                                (smt__TLA____Cast__Int
                                                                  256))
                                                              (smt__TLA____Cast__Int
                                                                256))
                                                            (smt__TLA____IntRemainder
                                                              smt__CONSTANT__v__
                                                              (smt__TLA____Cast__Int
                                                                256))))))))
                                                (smt__TLA____Cast__Int 4))
                                              (smt__TLA____Cast__Int
                                                1099511627776)))
                                          (smt__TLA____IntTimes
                                            (smt__TLA____FunApp
                                              (ite
                                                (smt__TLA____IntLteq
                                                  smt__CONSTANT__v__
                                                  (smt__TLA____Cast__Int 240))
                                                (smt__TLA____Tuple__1
                                                  smt__CONSTANT__v__)
                                                (ite
                                                  (smt__TLA____IntLteq
                                                    smt__CONSTANT__v__
                                                    (smt__TLA____Cast__Int
                                                      2287))
                                                  (smt__TLA____Tuple__2
                                                    (smt__TLA____IntRemainder
                                                      (smt__TLA____IntPlus
                                                        (smt__TLA____IntQuotient
                                                          (smt__TLA____IntMinus
                                                            smt__CONSTANT__v__
                                                            (smt__TLA____Cast__Int
                                                              240))
                                                          (smt__TLA____Cast__Int
                                                            256))
                                                        (smt__TLA____Cast__Int
                                                          241))
                                                      (smt__TLA____Cast__Int
                                                        256))
                                                    (smt__TLA____IntRemainder
                                                      (smt__TLA____IntMinus
                                                        smt__CONSTANT__v__
                                                        (smt__TLA____Cast__Int
                                                          240))
                                                      (smt__TLA____Cast__Int
                                                        256)))
                                                  (ite
                                                    (smt__TLA____IntLteq
                                                      smt__CONSTANT__v__
                                                      (smt__TLA____Cast__Int
                                                        67823))
                                                    (smt__TLA____Tuple__3
                                                      (smt__TLA____Cast__Int
                                                        249)
                                                      (smt__TLA____IntRemainder
                                                        (smt__TLA____IntQuotient
                                                          (smt__TLA____IntMinus
                                                            smt__CONSTANT__v__
                                                            (smt__TLA____Cast__Int
                                                              2288))
                                                          (smt__TLA____Cast__Int
                                                            256))
                                                        (smt__TLA____Cast__Int
                                                          256))
                                                      (smt__TLA____IntRemainder
                                                        (smt__TLA____IntMinus
                                                          smt__CONSTANT__v__
                                                          (smt__TLA____Cast__Int
                                                            2288))
                                                        (smt__TLA____Cast__Int
                                                          256)))
                                                    (ite
                                                      (smt__TLA____IntLteq
                                                        smt__CONSTANT__v__
                                                        (smt__TLA____Cast__Int
                                                          16777215))
                                                      (smt__TLA____Tuple__4
                                                        (smt__TLA____Cast__Int
                                                          250)
                                                        (smt__TLA____IntRemainder
                                                          (smt__TLA____IntQuotient
                                                            smt__CONSTANT__v__
                                                            (smt__TLA____Cast__Int
                                                              65536))
                                                          (smt__TLA____Cast__Int
                                                            256))
                                                        (smt__TLA____IntRemainder
                                                          (smt__TLA____IntQuotient
                                                            smt__CONSTANT__v__
                                                            (smt__TLA____Cast__Int
                                                              256))
                                                          (smt__TLA____Cast__Int
                                                            256))
                                                        (smt__TLA____IntRemainder
                                                          smt__CONSTANT__v__
                                                          (smt__TLA____Cast__Int
                                                            256)))
                                                      (ite
                                                        (smt__TLA____IntLteq
                                                          smt__CONSTANT__v__
                                                          (smt__TLA____Cast__Int
                                                            4294967295))
                                                        (smt__TLA____Tuple__5
                                                          (smt__TLA____Cast__Int
                                                            251)
                                                          (smt__TLA____IntRemainder
                                                            (smt__TLA____IntQuotient
                                                              smt__CONSTANT__v__
                                                              (smt__TLA____Cast__Int
                                                                16777216))
                                                            (smt__TLA____Cast__Int
                                                              256))
                                                          (smt__TLA____IntRemainder
                                                            (smt__TLA____IntQuotient
                                                              smt__CONSTANT__v__
                                                              (smt__TLA____Cast__Int
                                                                65536))
                                                            (smt__TLA____Cast__Int
                                                              256))
                                                          (smt__TLA____IntRemainder
                                                            (smt__TLA____IntQuotient
                                                              smt__CONSTANT__v__
                                                              (smt__TLA____Cast__Int
                                                                256))
                                                            (smt__TLA____Cast__Int
                                                              256))
                                                          (smt__TLA____IntRemainder
                                                            smt__CONSTANT__v__
                                                            (smt__TLA____Cast__Int
                                                              256)))
                                                        (smt__TLA____Tuple__9
                                                          (smt__TLA____Cast__Int
                                                            255)
                                                          (smt__TLA____IntRemainder
                                                            (smt__TLA____IntQuotient
                                                              smt__CONSTANT__v__
                                                              (smt__TLA____Cast__Int
                                                                72057594037927936))
                                                            (smt__TLA____Cast__Int
                                                              256))
                                                          (smt__TLA____IntRemainder
                                                            (smt__TLA____IntQuotient
                                                              smt__CONSTANT__v__
                                                              (smt__TLA____Cast__Int
                                                                281474976710656))
                                                            (smt__TLA____Cast__Int
                                                              256))
                                                          (smt__TLA____IntRemainder
                                                            (smt__TLA____IntQuotient
                                                              smt__CONSTANT__v__
                                                              (smt__TLA____Cast__Int
                                                                1099511627776))
                                                            (smt__TLA____Cast__Int
                                                              256))
                                                          (smt__TLA____IntRemainder
                                                            (smt__TLA____IntQuotient
                                                              smt__CONSTANT__v__
                                                              (smt__TLA____Cast__Int
                                                                4294967296))
                                                            (smt__TLA____Cast__Int
                                                              256))
                                                          (smt__TLA____IntRemainder
                                                            (smt__TLA____IntQuotient
                                                              smt__CONSTANT__v__
                                                              (smt__TLA____Cast__Int
                                                                16777216))
                                                            (smt__TLA____Cast__Int
                                                              256))
                                                          (smt__TLA____IntRemainder
                                                            (smt__TLA____IntQuotient
                                                              smt__CONSTANT__v__
                                                              (smt__TLA____Cast__Int
                                                                65536))
                                                            (smt__TLA____Cast__Int
                                                              256))
                                                          (smt__TLA____IntRemainder
                                                            (smt__TLA____IntQuotient
                                                              smt__CONSTANT__v__
                                                              (smt__TLA____Cast__Int
                                                                256))
                                                            (smt__TLA____Cast__Int
                                                              256))
                                                          (smt__TLA____IntRemainder
                                                            smt__CONSTANT__v__
                                                            (smt__TLA____Cast__Int
                                                              256))))))))
                                              (smt__TLA____Cast__Int 5))
                                            (smt__TLA____Cast__Int 4294967296)))
                                        (smt__TLA____IntTimes
                                          (smt__TLA____FunApp
                                            (ite
                                              (smt__TLA____IntLteq
                                                smt__CONSTANT__v__
                                                (smt__TLA____Cast__Int 240))
                                              (smt__TLA____Tuple__1
                                                smt__CONSTANT__v__)
                                              (ite
                                                (smt__TLA____IntLteq
                                                  smt__CONSTANT__v__
                                                  (smt__TLA____Cast__Int 2287))
                                                (smt__TLA____Tuple__2
                                                  (smt__TLA____IntRemainder
                                                    (smt__TLA____IntPlus
                                                      (smt__TLA____IntQuotient
                                                        (smt__TLA____IntMinus
                                                          smt__CONSTANT__v__
                                                          (smt__TLA____Cast__Int
                                                            240))
                                                        (smt__TLA____Cast__Int
                                                          256))
                                                      (smt__TLA____Cast__Int
                                                        241))
                                                    (smt__TLA____Cast__Int
                                                      256))
                                                  (smt__TLA____IntRemainder
                                                    (smt__TLA____IntMinus
                                                      smt__CONSTANT__v__
                                                      (smt__TLA____Cast__Int
                                                        240))
                                                    (smt__TLA____Cast__Int
                                                      256)))
                                                (ite
                                                  (smt__TLA____IntLteq
                                                    smt__CONSTANT__v__
                                                    (smt__TLA____Cast__Int
                                                      67823))
                                                  (smt__TLA____Tuple__3
                                                    (smt__TLA____Cast__Int
                                                      249)
                                                    (smt__TLA____IntRemainder
                                                      (smt__TLA____IntQuotient
                                                        (smt__TLA____IntMinus
                                                          smt__CONSTANT__v__
                                                          (smt__TLA____Cast__Int
                                                            2288))
                                                        (smt__TLA____Cast__Int
                                                          256))
                                                      (smt__TLA____Cast__Int
                                                        256))
                                                    (smt__TLA____IntRemainder
                                                      (smt__TLA____IntMinus
                                                        smt__CONSTANT__v__
                                                        (smt__TLA____Cast__Int
                                                          2288))
                                                      (smt__TLA____Cast__Int
                                                        256)))
                                                  (ite
                                                    (smt__TLA____IntLteq
                                                      smt__CONSTANT__v__
                                                      (smt__TLA____Cast__Int
                                                        16777215))
                                                    (smt__TLA____Tuple__4
                                                      (smt__TLA____Cast__Int
                                                        250)
                                                      (smt__TLA____IntRemainder
                                                        (smt__TLA____IntQuotient
                                                          smt__CONSTANT__v__
                                                          (smt__TLA____Cast__Int
                                                            65536))
                                                        (smt__TLA____Cast__Int
                                                          256))
                                                      (smt__TLA____IntRemainder
                                                        (smt__TLA____IntQuotient
                                                          smt__CONSTANT__v__
                                                          (smt__TLA____Cast__Int
                                                            256))
                                                        (smt__TLA____Cast__Int
                                                          256))
                                                      (smt__TLA____IntRemainder
                                                        smt__CONSTANT__v__
                                                        (smt__TLA____Cast__Int
                                                          256)))
                                                    (ite
                                                      (smt__TLA____IntLteq
                                                        smt__CONSTANT__v__
                                                        (smt__TLA____Cast__Int
                                                          4294967295))
                                                      (smt__TLA____Tuple__5
                                                        (smt__TLA____Cast__Int
                                                          251)
                                                        (smt__TLA____IntRemainder
                                                          (smt__TLA____IntQuotient
                                                            smt__CONSTANT__v__
                                                            (smt__TLA____Cast__Int
                                                              16777216))
                                                          (smt__TLA____Cast__Int
                                                            256))
                                                        (smt__TLA____IntRemainder
                                                          (smt__TLA____IntQuotient
                                                            smt__CONSTANT__v__
                                                            (smt__TLA____Cast__Int
                                                              65536))
                                                          (smt__TLA____Cast__Int
                                                            256))
                                                        (smt__TLA____IntRemainder
                                                          (smt__TLA____IntQuotient
                                                            smt__CONSTANT__v__
                                                            (smt__TLA____Cast__Int
                                                              256))
                                                          (smt__TLA____Cast__Int
                                                            256))
                                                        (smt__TLA____IntRemainder
                                                          smt__CONSTANT__v__
                                                          (smt__TLA____Cast__Int
                                                            256)))
                                                      (smt__TLA____Tuple__9
                                                        (smt__TLA____Cast__Int
                                                          255)
                                                        (smt__TLA____IntRemainder
                                                          (smt__TLA____IntQuotient
                                                            smt__CONSTANT__v__
                                                            (smt__TLA____Cast__Int
                                                              72057594037927936))
                                                          (smt__TLA____Cast__Int
                                                            256))
                                                        (smt__TLA____IntRemainder
                                                          (smt__TLA____IntQuotient
                                                            smt__CONSTANT__v__
                                                            (smt__TLA____Cast__Int
                                                              281474976710656))
                                                          (smt__TLA____Cast__Int
                                                            256))
                                                        (smt__TLA____IntRemainder
                                                          (smt__TLA____IntQuotient
                                                            smt__CONSTANT__v__
                                                            (smt__TLA____Cast__Int
                                                              1099511627776))
                                                          (smt__TLA____Cast__Int
                                                            256))
                                                        (smt__TLA____IntRemainder
                                                          (smt__TLA____IntQuotient
                                                            smt__CONSTANT__v__
                                                            (smt__TLA____Cast__Int
                                                              4294967296))
                                                          (smt__TLA____Cast__Int
                                                            256))
                                                        (smt__TLA____IntRemainder
                                                          (smt__TLA____IntQuotient
                                                            smt__CONSTANT__v__
                                                            (smt__TLA____Cast__Int
                                                              16777216))
                                                          (smt__TLA____Cast__Int
                                                            256))
                                                        (smt__TLA____IntRemainder
                                                          (smt__TLA____IntQuotient
                                                            smt__CONSTANT__v__
                                                            (smt__TLA____Cast__Int
                                                              65536))
                                                          (smt__TLA____Cast__Int
                                                            256))
                                                        (smt__TLA____IntRemainder
                                                          (smt__TLA____IntQuotient
                                                            smt__CONSTANT__v__
                                                            (smt__TLA____Cast__Int
                                                              256))
                                                          (smt__TLA____Cast__Int
                                                            256))
                                                        (smt__TLA____IntRemainder
                                                          smt__CONSTANT__v__
                                                          (smt__TLA____Cast__Int
                                                            256))))))))
                                            (smt__TLA____Cast__Int 6))
                                          (smt__TLA____Cast__Int 16777216)))
                                      (smt__TLA____IntTimes
                                        (smt__TLA____FunApp
                                          (ite
                                            (smt__TLA____IntLteq
                                              smt__CONSTANT__v__
                                              (smt__TLA____Cast__Int 240))
                                            (smt__TLA____Tuple__1
                                              smt__CONSTANT__v__)
                                            (ite
                                              (smt__TLA____IntLteq
                                                smt__CONSTANT__v__
                                                (smt__TLA____Cast__Int 2287))
                                              (smt__TLA____Tuple__2
                                                (smt__TLA____IntRemainder
                                                  (smt__TLA____IntPlus
                                                    (smt__TLA____IntQuotient
                                                      (smt__TLA____IntMinus
                                                        smt__CONSTANT__v__
                                                        (smt__TLA____Cast__Int
                                                          240))
                                                      (smt__TLA____Cast__Int
                                                        256))
                                                    (smt__TLA____Cast__Int
                                                      241))
                                                  (smt__TLA____Cast__Int 256))
                                                (smt__TLA____IntRemainder
                                                  (smt__TLA____IntMinus
                                                    smt__CONSTANT__v__
                                                    (smt__TLA____Cast__Int
                                                      240))
                                                  (smt__TLA____Cast__Int 256)))
                                              (ite
                                                (smt__TLA____IntLteq
                                                  smt__CONSTANT__v__
                                                  (smt__TLA____Cast__Int
                                                    67823))
                                                (smt__TLA____Tuple__3
                                                  (smt__TLA____Cast__Int 249)
                                                  (smt__TLA____IntRemainder
                                                    (smt__TLA____IntQuotient
                                                      (smt__TLA____IntMinus
                                                        smt__CONSTANT__v__
                                                        (smt__TLA____Cast__Int
                                                          2288))
                                                      (smt__TLA____Cast__Int
                                                        256))
                                                    (smt__TLA____Cast__Int
                                                      256))
                                                  (smt__TLA____IntRemainder
                                                    (smt__TLA____IntMinus
                                                      smt__CONSTANT__v__
                                                      (smt__TLA____Cast__Int
                                                        2288))
                                                    (smt__TLA____Cast__Int
                                                      256)))
                                                (ite
                                                  (smt__TLA____IntLteq
                                                    smt__CONSTANT__v__
                                                    (smt__TLA____Cast__Int
                                                      16777215))
                                                  (smt__TLA____Tuple__4
                                                    (smt__TLA____Cast__Int
                                                      250)
                                                    (smt__TLA____IntRemainder
                                                      (smt__TLA____IntQuotient
                                                        smt__CONSTANT__v__
                                                        (smt__TLA____Cast__Int
                                                          65536))
                                                      (smt__TLA____Cast__Int
                                                        256))
                                                    (smt__TLA____IntRemainder
                                                      (smt__TLA____IntQuotient
                                                        smt__CONSTANT__v__
                                                        (smt__TLA____Cast__Int
                                                          256))
                                                      (smt__TLA____Cast__Int
                                                        256))
                                                    (smt__TLA____IntRemainder
                                                      smt__CONSTANT__v__
                                                      (smt__TLA____Cast__Int
                                                        256)))
                                                  (ite
                                                    (smt__TLA____IntLteq
                                                      smt__CONSTANT__v__
                                                      (smt__TLA____Cast__Int
                                                        4294967295))
                                                    (smt__TLA____Tuple__5
                                                      (smt__TLA____Cast__Int
                                                        251)
                                                      (smt__TLA____IntRemainder
                                                        (smt__TLA____IntQuotient
                                                          smt__CONSTANT__v__
                                                          (smt__TLA____Cast__Int
                                                            16777216))
                                                        (smt__TLA____Cast__Int
                                                          256))
                                                      (smt__TLA____IntRemainder
                                                        (smt__TLA____IntQuotient
                                                          smt__CONSTANT__v__
                                                          (smt__TLA____Cast__Int
                                                            65536))
                                                        (smt__TLA____Cast__Int
                                                          256))
                                                      (smt__TLA____IntRemainder
                                                        (smt__TLA____IntQuotient
                                                          smt__CONSTANT__v__
                                                          (smt__TLA____Cast__Int
                                                            256))
                                                        (smt__TLA____Cast__Int
                                                          256))
                                                      (smt__TLA____IntRemainder
                                                        smt__CONSTANT__v__
                                                        (smt__TLA____Cast__Int
                                                          256)))
                                                    (smt__TLA____Tuple__9
                                                      (smt__TLA____Cast__Int
                                                        255)
                                                      (smt__TLA____IntRemainder
                                                        (smt__TLA____IntQuotient
                                                          smt__CONSTANT__v__
                                                          (smt__TLA____Cast__Int
                                                            72057594037927936))
                                                        (smt__TLA____Cast__Int
                                                          256))
                                                      (smt__TLA____IntRemainder
                                                        (smt__TLA____IntQuotient
                                                          smt__CONSTANT__v__
                                                          (smt__TLA____Cast__Int
                                                            281474976710656))
                                                        (smt__TLA____Cast__Int
                                                          256))
                                                      (smt__TLA____IntRemainder
                                                        (smt__TLA____IntQuotient
                                                          smt__CONSTANT__v__
                                                          (smt__TLA____Cast__Int
                                                            1099511627776))
                                                        (smt__TLA____Cast__Int
                                                          256))
                                                      (smt__TLA____IntRemainder
                                                        (smt__TLA____IntQuotient
                                                          smt__CONSTANT__v__
                                                          (smt__TLA____Cast__Int
                                                            4294967296))
                                                        (smt__TLA____Cast__Int
                                                          256))
                                                      (smt__TLA____IntRemainder
                                                        (smt__TLA____IntQuotient
                                                          smt__CONSTANT__v__
                                                          (smt__TLA____Cast__Int
                                                            16777216))
                                                        (smt__TLA____Cast__Int
                                                          256))
                                                      (smt__TLA____IntRemainder
                                                        (smt__TLA____IntQuotient
                                                          smt__CONSTANT__v__
                                                          (smt__TLA____Cast__Int
                                                            65536))
                                                        (smt__TLA____Cast__Int
                                                          256))
                                                      (smt__TLA____IntRemainder
                                                        (smt__TLA____IntQuotient
                                                          smt__CONSTANT__v__
                                                          (smt__TLA____Cast__Int
                                                            256))
                                                        (smt__TLA____Cast__Int
                                                          256))
                                                      (smt__TLA____IntRemainder
                                                        smt__CONSTANT__v__
                                                        (smt__TLA____Cast__Int
                                                          256))))))))
                                          (smt__TLA____Cast__Int 7))
                                        (smt__TLA____Cast__Int 65536)))
                                    (smt__TLA____IntTimes
                                      (smt__TLA____FunApp
                                        (ite
                                          (smt__TLA____IntLteq
                                            smt__CONSTANT__v__
                                            (smt__TLA____Cast__Int 240))
                                          (smt__TLA____Tuple__1
                                            smt__CONSTANT__v__)
                                          (ite
                                            (smt__TLA____IntLteq
                                              smt__CONSTANT__v__
                                              (smt__TLA____Cast__Int 2287))
                                            (smt__TLA____Tuple__2
                                              (smt__TLA____IntRemainder
                                                (smt__TLA____IntPlus
                                                  (smt__TLA____IntQuotient
                                                    (smt__TLA____IntMinus
                                                      smt__CONSTANT__v__
                                                      (smt__TLA____Cast__Int
                                                        240))
                                                    (smt__TLA____Cast__Int
                                                      256))
                                                  (smt__TLA____Cast__Int 241))
                                                (smt__TLA____Cast__Int 256))
                                              (smt__TLA____IntRemainder
                                                (smt__TLA____IntMinus
                                                  smt__CONSTANT__v__
                                                  (smt__TLA____Cast__Int 240))
                                                (smt__TLA____Cast__Int 256)))
                                            (ite
                                              (smt__TLA____IntLteq
                                                smt__CONSTANT__v__
                                                (smt__TLA____Cast__Int 67823))
                                              (smt__TLA____Tuple__3
                                                (smt__TLA____Cast__Int 249)
                                                (smt__TLA____IntRemainder
                                                  (smt__TLA____IntQuotient
                                                    (smt__TLA____IntMinus
                                                      smt__CONSTANT__v__
                                                      (smt__TLA____Cast__Int
                                                        2288))
                                                    (smt__TLA____Cast__Int
                                                      256))
                                                  (smt__TLA____Cast__Int 256))
                                                (smt__TLA____IntRemainder
                                                  (smt__TLA____IntMinus
                                                    smt__CONSTANT__v__
                                                    (smt__TLA____Cast__Int
                                                      2288))
                                                  (smt__TLA____Cast__Int 256)))
                                              (ite
                                                (smt__TLA____IntLteq
                                                  smt__CONSTANT__v__
                                                  (smt__TLA____Cast__Int
                                                    16777215))
                                                (smt__TLA____Tuple__4
                                                  (smt__TLA____Cast__Int 250)
                                                  (smt__TLA____IntRemainder
                                                    (smt__TLA____IntQuotient
                                                      smt__CONSTANT__v__
                                                      (smt__TLA____Cast__Int
                                                        65536))
                                                    (smt__TLA____Cast__Int
                                                      256))
                                                  (smt__TLA____IntRemainder
                                                    (smt__TLA____IntQuotient
                                                      smt__CONSTANT__v__
                                                      (smt__TLA____Cast__Int
                                                        256))
                                                    (smt__TLA____Cast__Int
                                                      256))
                                                  (smt__TLA____IntRemainder
                                                    smt__CONSTANT__v__
                                                    (smt__TLA____Cast__Int
                                                      256)))
                                                (ite
                                                  (smt__TLA____IntLteq
                                                    smt__CONSTANT__v__
                                                    (smt__TLA____Cast__Int
                                                      4294967295))
                                                  (smt__TLA____Tuple__5
                                                    (smt__TLA____Cast__Int
                                                      251)
                                                    (smt__TLA____IntRemainder
                                                      (smt__TLA____IntQuotient
                                                        smt__CONSTANT__v__
                                                        (smt__TLA____Cast__Int
                                                          16777216))
                                                      (smt__TLA____Cast__Int
                                                        256))
                                                    (smt__TLA____IntRemainder
                                                      (smt__TLA____IntQuotient
                                                        smt__CONSTANT__v__
                                                        (smt__TLA____Cast__Int
                                                          65536))
                                                      (smt__TLA____Cast__Int
                                                        256))
                                                    (smt__TLA____IntRemainder
                                                      (smt__TLA____IntQuotient
                                                        smt__CONSTANT__v__
                                                        (smt__TLA____Cast__Int
                                                          256))
                                                      (smt__TLA____Cast__Int
                                                        256))
                                                    (smt__TLA____IntRemainder
                                                      smt__CONSTANT__v__
                                                      (smt__TLA____Cast__Int
                                                        256)))
                                                  (smt__TLA____Tuple__9
                                                    (smt__TLA____Cast__Int
                                                      255)
                                                    (smt__TLA____IntRemainder
                                                      (smt__TLA____IntQuotient
                                                        smt__CONSTANT__v__
                                                        (smt__TLA____Cast__Int
                                                          72057594037927936))
                                                      (smt__TLA____Cast__Int
                                                        256))
                                                    (smt__TLA____IntRemainder
                                                      (smt__TLA____IntQuotient
                                                        smt__CONSTANT__v__
                                                        (smt__TLA____Cast__Int
                                                          281474976710656))
                                                      (smt__TLA____Cast__Int
                                                        256))
                                                    (smt__TLA____IntRemainder
                                                      (smt__TLA____IntQuotient
                                                        smt__CONSTANT__v__
                                                        (smt__TLA____Cast__Int
                                                          1099511627776))
                                                      (smt__TLA____Cast__Int
                                                        256))
                                                    (smt__TLA____IntRemainder
                                                      (smt__TLA____IntQuotient
                                                        smt__CONSTANT__v__
                                                        (smt__TLA____Cast__Int
                                                          4294967296))
                                                      (smt__TLA____Cast__Int
                                                        256))
                                                    (smt__TLA____IntRemainder
                                                      (smt__TLA____IntQuotient
                                                        smt__CONSTANT__v__
                                                        (smt__TLA____Cast__Int
                                                          16777216))
                                                      (smt__TLA____Cast__Int
                                                        256))
                                                    (smt__TLA____IntRemainder
                                                      (smt__TLA____IntQuotient
                                                        smt__CONSTANT__v__
                                                        (smt__TLA____Cast__Int
                                                          65536))
                                                      (smt__TLA____Cast__Int
                                                        256))
                                                    (smt__TLA____IntRemainder
                                                      (smt__TLA____IntQuotient
                                                        smt__CONSTANT__v__
                                                        (smt__TLA____Cast__Int
                                                          256))
                                                      (smt__TLA____Cast__Int
                                                        256))
                                                    (smt__TLA____IntRemainder
                                                      smt__CONSTANT__v__
                                                      (smt__TLA____Cast__Int
                                                        256))))))))
                                        (smt__TLA____Cast__Int 8))
                                      (smt__TLA____Cast__Int 256)))
                                  (smt__TLA____FunApp
                                    (ite
                                      (smt__TLA____IntLteq smt__CONSTANT__v__
                                        (smt__TLA____Cast__Int 240))
                                      (smt__TLA____Tuple__1
                                        smt__CONSTANT__v__)
                                      (ite
                                        (smt__TLA____IntLteq
                                          smt__CONSTANT__v__
                                          (smt__TLA____Cast__Int 2287))
                                        (smt__TLA____Tuple__2
                                          (smt__TLA____IntRemainder
                                            (smt__TLA____IntPlus
                                              (smt__TLA____IntQuotient
                                                (smt__TLA____IntMinus
                                                  smt__CONSTANT__v__
                                                  (smt__TLA____Cast__Int 240))
                                                (smt__TLA____Cast__Int 256))
                                              (smt__TLA____Cast__Int 241))
                                            (smt__TLA____Cast__Int 256))
                                          (smt__TLA____IntRemainder
                                            (smt__TLA____IntMinus
                                              smt__CONSTANT__v__
                                              (smt__TLA____Cast__Int 240))
                                            (smt__TLA____Cast__Int 256)))
                                        (ite
                                          (smt__TLA____IntLteq
                                            smt__CONSTANT__v__
                                            (smt__TLA____Cast__Int 67823))
                                          (smt__TLA____Tuple__3
                                            (smt__TLA____Cast__Int 249)
                                            (smt__TLA____IntRemainder
                                              (smt__TLA____IntQuotient
                                                (smt__TLA____IntMinus
                                                  smt__CONSTANT__v__
                                                  (smt__TLA____Cast__Int 2288))
                                                (smt__TLA____Cast__Int 256))
                                              (smt__TLA____Cast__Int 256))
                                            (smt__TLA____IntRemainder
                                              (smt__TLA____IntMinus
                                                smt__CONSTANT__v__
                                                (smt__TLA____Cast__Int 2288))
                                              (smt__TLA____Cast__Int 256)))
                                          (ite
                                            (smt__TLA____IntLteq
                                              smt__CONSTANT__v__
                                              (smt__TLA____Cast__Int 16777215))
                                            (smt__TLA____Tuple__4
                                              (smt__TLA____Cast__Int 250)
                                              (smt__TLA____IntRemainder
                                                (smt__TLA____IntQuotient
                                                  smt__CONSTANT__v__
                                                  (smt__TLA____Cast__Int
                                                    65536))
                                                (smt__TLA____Cast__Int 256))
                                              (smt__TLA____IntRemainder
                                                (smt__TLA____IntQuotient
                                                  smt__CONSTANT__v__
                                                  (smt__TLA____Cast__Int 256))
                                                (smt__TLA____Cast__Int 256))
                                              (smt__TLA____IntRemainder
                                                smt__CONSTANT__v__
                                                (smt__TLA____Cast__Int 256)))
                                            (ite
                                              (smt__TLA____IntLteq
                                                smt__CONSTANT__v__
                                                (smt__TLA____Cast__Int
                                                  4294967295))
                                              (smt__TLA____Tuple__5
                                                (smt__TLA____Cast__Int 251)
                                                (smt__TLA____IntRemainder
                                                  (smt__TLA____IntQuotient
                                                    smt__CONSTANT__v__
                                                    (smt__TLA____Cast__Int
                                                      16777216))
                                                  (smt__TLA____Cast__Int 256))
                                                (smt__TLA____IntRemainder
                                                  (smt__TLA____IntQuotient
                                                    smt__CONSTANT__v__
                                                    (smt__TLA____Cast__Int
                                                      65536))
                                                  (smt__TLA____Cast__Int 256))
                                                (smt__TLA____IntRemainder
                                                  (smt__TLA____IntQuotient
                                                    smt__CONSTANT__v__
                                                    (smt__TLA____Cast__Int
                                                      256))
                                                  (smt__TLA____Cast__Int 256))
                                                (smt__TLA____IntRemainder
                                                  smt__CONSTANT__v__
                                                  (smt__TLA____Cast__Int 256)))
                                              (smt__TLA____Tuple__9
                                                (smt__TLA____Cast__Int 255)
                                                (smt__TLA____IntRemainder
                                                  (smt__TLA____IntQuotient
                                                    smt__CONSTANT__v__
                                                    (smt__TLA____Cast__Int
                                                      72057594037927936))
                                                  (smt__TLA____Cast__Int 256))
                                                (smt__TLA____IntRemainder
                                                  (smt__TLA____IntQuotient
                                                    smt__CONSTANT__v__
                                                    (smt__TLA____Cast__Int
                                                      281474976710656))
                                                  (smt__TLA____Cast__Int 256))
                                                (smt__TLA____IntRemainder
                                                  (smt__TLA____IntQuotient
                                                    smt__CONSTANT__v__
                                                    (smt__TLA____Cast__Int
                                                      1099511627776))
                                                  (smt__TLA____Cast__Int 256))
                                                (smt__TLA____IntRemainder
                                                  (smt__TLA____IntQuotient
                                                    smt__CONSTANT__v__
                                                    (smt__TLA____Cast__Int
                                                      4294967296))
                                                  (smt__TLA____Cast__Int 256))
                                                (smt__TLA____IntRemainder
                                                  (smt__TLA____IntQuotient
                                                    smt__CONSTANT__v__
                                                    (smt__TLA____Cast__Int
                                                      16777216))
                                                  (smt__TLA____Cast__Int 256))
                                                (smt__TLA____IntRemainder
                                                  (smt__TLA____IntQuotient
                                                    smt__CONSTANT__v__
                                                    (smt__TLA____Cast__Int
                                                      65536))
                                                  (smt__TLA____Cast__Int 256))
                                                (smt__TLA____IntRemainder
                                                  (smt__TLA____IntQuotient
                                                    smt__CONSTANT__v__
                                                    (smt__TLA____Cast__Int
                                                      256))
                                                  (smt__TLA____Cast__Int 256))
                                                (smt__TLA____IntRemainder
                                                  smt__CONSTANT__v__
                                                  (smt__TLA____Cast__Int 256))))))))
                                    (smt__TLA____Cast__Int 9)))))
                            (smt__CONSTANT__ErrMarker__
                              (smt__TLA____FunApp
                                (ite
                                  (smt__TLA____IntLteq smt__CONSTANT__v__
                                    (smt__TLA____Cast__Int 240))
                                  (smt__TLA____Tuple__1 smt__CONSTANT__v__)
                                  (ite
                                    (smt__TLA____IntLteq smt__CONSTANT__v__
                                      (smt__TLA____Cast__Int 2287))
                                    (smt__TLA____Tuple__2
                                      (smt__TLA____IntRemainder
                                        (smt__TLA____IntPlus
                                          (smt__TLA____IntQuotient
                                            (smt__TLA____IntMinus
                                              smt__CONSTANT__v__
                                              (smt__TLA____Cast__Int 240))
                                            (smt__TLA____Cast__Int 256))
                                          (smt__TLA____Cast__Int 241))
                                        (smt__TLA____Cast__Int 256))
                                      (smt__TLA____IntRemainder
                                        (smt__TLA____IntMinus
                                          smt__CONSTANT__v__
                                          (smt__TLA____Cast__Int 240))
                                        (smt__TLA____Cast__Int 256)))
                                    (ite
                                      (smt__TLA____IntLteq smt__CONSTANT__v__
                                        (smt__TLA____Cast__Int 67823))
                                      (smt__TLA____Tuple__3
                                        (smt__TLA____Cast__Int 249)
                                        (smt__TLA____IntRemainder
                                          (smt__TLA____IntQuotient
                                            (smt__TLA____IntMinus
                                              smt__CONSTANT__v__
                                              (smt__TLA____Cast__Int 2288))
                                            (smt__TLA____Cast__Int 256))
                                          (smt__TLA____Cast__Int 256))
                                        (smt__TLA____IntRemainder
                                          (smt__TLA____IntMinus
                                            smt__CONSTANT__v__
                                            (smt__TLA____Cast__Int 2288))
                                          (smt__TLA____Cast__Int 256)))
                                      (ite
                                        (smt__TLA____IntLteq
                                          smt__CONSTANT__v__
                                          (smt__TLA____Cast__Int 16777215))
                                        (smt__TLA____Tuple__4
                                          (smt__TLA____Cast__Int 250)
                                          (smt__TLA____IntRemainder
                                            (smt__TLA____IntQuotient
                                              smt__CONSTANT__v__
                                              (smt__TLA____Cast__Int 65536))
                                            (smt__TLA____Cast__Int 256))
                                          (smt__TLA____IntRemainder
                                            (smt__TLA____IntQuotient
                                              smt__CONSTANT__v__
                                              (smt__TLA____Cast__Int 256))
                                            (smt__TLA____Cast__Int 256))
                                          (smt__TLA____IntRemainder
                                            smt__CONSTANT__v__
                                            (smt__TLA____Cast__Int 256)))
                                        (ite
                                          (smt__TLA____IntLteq
                                            smt__CONSTANT__v__
                                            (smt__TLA____Cast__Int 4294967295))
                                          (smt__TLA____Tuple__5
                                            (smt__TLA____Cast__Int 251)
                                            (smt__TLA____IntRemainder
                                              (smt__TLA____IntQuotient
                                                smt__CONSTANT__v__
                                                (smt__TLA____Cast__Int
                                                  16777216))
                                              (smt__TLA____Cast__Int 256))
                                            (smt__TLA____IntRemainder
                                              (smt__TLA____IntQuotient
                                                smt__CONSTANT__v__
                                                (smt__TLA____Cast__Int 65536))
                                              (smt__TLA____Cast__Int 256))
                                            (smt__TLA____IntRemainder
                                              (smt__TLA____IntQuotient
                                                smt__CONSTANT__v__
                                                (smt__TLA____Cast__Int 256))
                                              (smt__TLA____Cast__Int 256))
                                            (smt__TLA____IntRemainder
                                              smt__CONSTANT__v__
                                              (smt__TLA____Cast__Int 256)))
                                          (smt__TLA____Tuple__9
                                            (smt__TLA____Cast__Int 255)
                                            (smt__TLA____IntRemainder
                                              (smt__TLA____IntQuotient
                                                smt__CONSTANT__v__
                                                (smt__TLA____Cast__Int
                                                  72057594037927936))
                                              (smt__TLA____Cast__Int 256))
                                            (smt__TLA____IntRemainder
                                              (smt__TLA____IntQuotient
                                                smt__CONSTANT__v__
                                                (smt__TLA____Cast__Int
                                                  281474976710656))
                                              (smt__TLA____Cast__Int 256))
                                            (smt__TLA____IntRemainder
                                              (smt__TLA____IntQuotient
                                                smt__CONSTANT__v__
                                                (smt__TLA____Cast__Int
                                                  1099511627776))
                                              (smt__TLA____Cast__Int 256))
                                            (smt__TLA____IntRemainder
                                              (smt__TLA____IntQuotient
                                                smt__CONSTANT__v__
                                                (smt__TLA____Cast__Int
                                                  4294967296))
                                              (smt__TLA____Cast__Int 256))
                                            (smt__TLA____IntRemainder
                                              (smt__TLA____IntQuotient
                                                smt__CONSTANT__v__
                                                (smt__TLA____Cast__Int
                                                  16777216))
                                              (smt__TLA____Cast__Int 256))
                                            (smt__TLA____IntRemainder
                                              (smt__TLA____IntQuotient
                                                smt__CONSTANT__v__
                                                (smt__TLA____Cast__Int 65536))
                                              (smt__TLA____Cast__Int 256))
                                            (smt__TLA____IntRemainder
                                              (smt__TLA____IntQuotient
                                                smt__CONSTANT__v__
                                                (smt__TLA____Cast__Int 256))
                                              (smt__TLA____Cast__Int 256))
                                            (smt__TLA____IntRemainder
                                              smt__CONSTANT__v__
                                              (smt__TLA____Cast__Int 256))))))))
                                (smt__TLA____Cast__Int 1))))))))))
              (smt__TLA____Record__n__ok__val (smt__TLA____Cast__Int 4)
                (smt__TLA____Cast__Bool true) smt__CONSTANT__v__))
            (=
              (smt__TLA____Cast__Int
                (ite
                  (smt__TLA____IntLteq smt__CONSTANT__v__
                    (smt__TLA____Cast__Int 240)) 1
                  (ite
                    (smt__TLA____IntLteq smt__CONSTANT__v__
                      (smt__TLA____Cast__Int 2287)) 2
                    (ite
                      (smt__TLA____IntLteq smt__CONSTANT__v__
                        (smt__TLA____Cast__Int 67823)) 3
                      (ite
                        (smt__TLA____IntLteq smt__CONSTANT__v__
                          (smt__TLA____Cast__Int 16777215)) 4
                        (ite
                          (smt__TLA____IntLteq smt__CONSTANT__v__
                            (smt__TLA____Cast__Int 4294967295)) 5 9))))))
              (smt__TLA____Cast__Int 4)))))) :named |Goal|))

(check-sat)
(exit)

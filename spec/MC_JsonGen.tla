----------------------------- MODULE MC_JsonGen -----------------------------
(* TLC model for JsonGen.tla.  The state is the document.
     Mode = "static": <<root>> -> block -> every document of the block (GScalar, GFlat, GDups)           [BFS]
     Mode = "grow"  : Init = every leaf; Next wraps the document into an array / object (Wrap) until MaxDepth.
                      BFS with a small MaxDepth enumerates every spine exhaustively; `-simulate` with MaxDepth = 8
                      takes random walks to depth 8 (the deep documents).
   Every document state is checked against the laws of the operators (Laws) and printed with its probes (Emit). *)
EXTENDS JsonGen, Json

CONSTANTS Mode, MaxDepth, GrowModes,
          FlatWidth,    \* objects of GFlat have up to this many pairs (3 = the full block)
          LeafMode      \* "full": every scalar class is a leaf of the growing documents; "lite": a small alphabet

VARIABLE st

StaticBlocks == {"scalar", "flat", "dups"}
DocsOf(b) == CASE b = "scalar" -> GScalar [] b = "flat" -> GFlatW(FlatWidth) [] b = "dups" -> GDups

Init == IF Mode = "static" THEN st = [blk |-> "root"]
        ELSE st \in {[grp |-> "grow", d |-> 0, doc |-> v] : v \in (IF LeafMode = "full" THEN Leaves ELSE LeavesLite)}

NextStatic == \/ /\ st = [blk |-> "root"]
                 /\ \E b \in StaticBlocks : st' = [blk |-> b]
              \/ /\ "blk" \in DOMAIN st /\ st.blk # "root"
                 /\ \E v \in DocsOf(st.blk) : st' = [grp |-> st.blk, d |-> 0, doc |-> v]
NextGrow == /\ "grp" \in DOMAIN st /\ st.grp = "grow" /\ st.d < MaxDepth
            /\ \E kind \in {"arr", "obj"}, m \in GrowModes :
                  /\ Depth(Wrap(kind, m, st.doc)) <= MaxDepth            \* the property quantifies over nesting <= 8
                  /\ (m = "twin") => st.d < 3                           \* doubling only near the leaves (size)
                  /\ st' = [grp |-> "grow", d |-> st.d + 1, doc |-> Wrap(kind, m, st.doc)]
Next == IF Mode = "static" THEN NextStatic ELSE NextGrow
Spec == Init /\ [][Next]_st

IsDoc == "doc" \in DOMAIN st
DepthOK == (IsDoc /\ st.grp = "grow") => (Depth(st.doc) \in {st.d, st.d + 1} /\ Depth(st.doc) <= MaxDepth)
ASSUME TablesOK

(* laws first, then emission: one evaluation of the probes serves both *)
LawsThenEmit ==
  IF IsDoc THEN LET j == Judge(st.grp, st.doc) IN
                /\ Assert(j.ok, <<"an operator law of JsonGen fails on", st.doc>>)
                /\ PrintT(<<"T", ToJson(j.d)>>)
  ELSE (st = [blk |-> "root"]) => PrintT(<<"T", ToJson([grp |-> "tables", tables |-> Tables])>>)
=============================================================================

CONSTANTS Threads = {1, 2}  MaxCommitsPerThread = 2  MayFail = TRUE  TakeOnlyAsLeader = TRUE
SPECIFICATION Spec
VIEW view
ACTION_CONSTRAINT Emit
CHECK_DEADLOCK FALSE

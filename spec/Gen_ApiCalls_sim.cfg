CONSTANTS MaxCalls = 10  ParamTypes = {"int", "vec"}
SPECIFICATION Spec
INVARIANT TypeOK SavepointsOnlyInTxn
ACTION_CONSTRAINT EmitFin
CHECK_DEADLOCK FALSE

\* witness of the finding: TLC must find the cross-pool counterexample
CONSTANTS Threads = {1, 2}  Sizes = {2, 8}  MaxOpsPerThread = 1  Prefill = 22  Limit = 32  CasOnTotal = FALSE
CONSTANT PoolsOf <- PoolsCross
SPECIFICATION Spec
VIEW view
INVARIANTS HardLimit
CHECK_DEADLOCK FALSE

CONSTANTS MaxKeys = 2  FullWindows = FALSE  Rich = FALSE
SPECIFICATION Spec
INVARIANT OracleInv
ACTION_CONSTRAINT Emit
CHECK_DEADLOCK FALSE

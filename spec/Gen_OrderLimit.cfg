CONSTANTS MaxKeys = 2  FullWindows = FALSE  Rich = FALSE  FullInv = FALSE
SPECIFICATION Spec
INVARIANT OracleInv
ACTION_CONSTRAINT Emit
CHECK_DEADLOCK FALSE

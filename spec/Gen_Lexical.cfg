SPECIFICATION Spec
INVARIANT GeneratorOk
INVARIANT Emit
CHECK_DEADLOCK FALSE

------------------------------ MODULE Lexical ------------------------------
(***************************************************************************)
(* C22 below the token level: the lexer's own token classes, cut and       *)
(* damaged at every piece boundary.                                        *)
(*                                                                         *)
(* Grammar.tla derives sentences from WHOLE tokens; what happens inside a  *)
(* token that the input ends in, or that starts in the middle, is decided  *)
(* by hand-written scanning loops (quoted strings with doubled quotes,     *)
(* dollar-quoted strings with and without tag, nested block comments,      *)
(* numbers with exponents, hex / bit / escape string prefixes, parameter   *)
(* markers, multi-character operators, multi-byte characters).             *)
(*                                                                         *)
(* A lexeme is a sequence of PIECES (1-4 characters, chosen so that every  *)
(* interesting cut point is a piece boundary: inside the closing tag of a  *)
(* dollar string, between the two quotes of '', inside an escape, inside a *)
(* multi-byte character is not possible - TLC strings are opaque - but     *)
(* after every character of the delimiters it is).  The damaged forms:     *)
(*   prefix n   the first n pieces (the input ends inside the token)       *)
(*   suffix n   without the first n pieces (the token starts in its middle)*)
(*   drop i     without piece i      dup i   piece i twice                 *)
(* each placed in a few statement contexts. For every input the only       *)
(* admissible outcomes are Ok and Err.                                     *)
(***************************************************************************)
EXTENDS Integers, Sequences, TLC

L(name, pieces) == [name |-> name, p |-> pieces]

Lexemes == {
  L("sq",        <<"'", "ab", "c", "'">>),
  L("sq_doubled",<<"'", "it", "'", "'", "s", "'">>),
  L("sq_only_quotes", <<"'", "'", "'", "'">>),
  L("sq_backslash", <<"'", "a", "\\\\", "'", "b", "'">>),
  L("sq_newline", <<"'", "a", "\\u000a", "b", "'">>),
  L("sq_multibyte", <<"'", "h", "\\u00e9", "\\ud83d\\ude00", "'">>),
  L("dq_ident",  <<"\"", "tx", "\"">>),
  L("dq_doubled",<<"\"", "a", "\"", "\"", "b", "\"">>),
  L("bq_ident",  <<"`", "tx", "`">>),
  L("bracket_ident", <<"[", "tx", "]">>),
  L("dollar",    <<"$", "$", "bo", "dy", "$", "$">>),
  L("dollar_tag",<<"$", "ta", "g", "$", " he", "llo ", "$", "ta", "g", "$">>),
  L("dollar_tag_inner_dollar", <<"$", "q", "$", "it costs 5", "$", " x", "$", "q", "$">>),
  L("dollar_tag_other_tag", <<"$", "a", "$", "x", "$", "b", "$", "y", "$", "a", "$">>),
  L("dollar_tag_prefix_tag", <<"$", "ab", "$", "x", "$", "a", "$", "y", "$", "ab", "$">>),
  L("dollar_tag_multibyte", <<"$", "\\u00e9", "$", "x", "$", "\\u00e9", "$">>),
  L("dollar_digit_tag", <<"$", "1", "$", "x", "$", "1", "$">>),
  L("block_comment", <<"/", "*", " c ", "*", "/">>),
  L("block_comment_nested", <<"/", "*", " a ", "/", "*", " b ", "*", "/", " c ", "*", "/">>),
  L("block_comment_stars", <<"/", "*", "*", "*", "/">>),
  L("line_comment", <<"-", "-", " c", "\\u000a">>),
  L("line_comment_cr", <<"-", "-", " c", "\\u000d", "\\u000a">>),
  L("hash_comment", <<"#", " c", "\\u000a">>),
  L("int",       <<"12", "34">>),
  L("int_huge",  <<"9999999999", "9999999999", "9">>),
  L("float",     <<"1", ".", "5">>),
  L("float_exp", <<"1", ".", "5", "e", "+", "1", "0">>),
  L("float_exp_neg", <<"2", "E", "-", "3">>),
  L("float_lead_dot", <<".", "5">>),
  L("float_trail_dot", <<"5", ".">>),
  L("float_two_dots", <<"1", ".", "2", ".", "3">>),
  L("hex_int",   <<"0", "x", "1F">>),
  L("hex_blob",  <<"x", "'", "00", "ff", "'">>),
  L("hex_blob_upper", <<"X", "'", "0", "'">>),
  L("hex_blob_bad", <<"x", "'", "zz", "'">>),
  L("bit_string", <<"B", "'", "10", "1", "'">>),
  L("escape_string", <<"E", "'", "a", "\\\\", "n", "\\\\", "'", "b", "'">>),
  L("unicode_string", <<"U", "&", "'", "\\\\", "0041", "'">>),
  L("national_string", <<"N", "'", "a", "'">>),
  L("param_dollar", <<"$", "1">>),
  L("param_dollar_big", <<"$", "4294967296">>),
  L("param_qmark", <<"?", "1">>),
  L("param_colon", <<":", "na", "me">>),
  L("param_at",   <<"@", "na", "me">>),
  L("cast_op",    <<"1", ":", ":", "INT">>),
  L("concat_op",  <<"'a'", "|", "|", "'b'">>),
  L("l2_op",      <<"'[1,2,3]'", "<", "-", ">", "'[1,2,3]'">>),
  L("cos_op",     <<"'[1,2,3]'", "<", "=", ">", "'[1,2,3]'">>),
  L("ip_op",      <<"'[1,2,3]'", "<", "#", ">", "'[1,2,3]'">>),
  L("json_op",    <<"'{}'", "-", ">", ">", "'a'">>),
  L("json_path_op", <<"'{}'", "#", ">", ">", "'{a}'">>),
  L("shift_ops",  <<"1", "<", "<", "2", ">", ">", "1">>),
  L("cmp_ops",    <<"1", "<", "=", "2", "<", ">", "3", "!", "=", "4">>),
  L("ident_multibyte", <<"h", "\\u00e9", "llo">>),
  L("ident_dollar", <<"a", "$", "b">>),
  L("ident_long", <<"aaaaaaaaaaaaaaaaaaaaaaaaaaaaaaaaaaaaaaaaaaaaaaaaaaaaaaaaaaaaaaaaaaaaaaaaaaaaaaaaaaaaaaaaaaaaaaaaaaaaaaaaaaaaaaaaaaaaaaaaaaaaaaaaaaaaaaaaaaaaaaaaaaaaaaaaaaaa", "b">>),
  L("control_chars", <<"\\u0001", "\\u0000", "\\u007f">>),
  L("bom", <<"\\ufeff", "1">>),
  L("semicolons", <<";", ";", "SELECT 1", ";">>)
}

\* statement contexts: pieces before and after the lexeme
C(name, pre, post) == [name |-> name, pre |-> pre, post |-> post]
Contexts == {
  C("select_item", <<"SELECT ">>, <<>>),
  C("select_item_from", <<"SELECT ">>, <<" FROM t">>),
  C("after_item", <<"SELECT 1 ">>, <<>>),
  C("where", <<"SELECT id FROM u WHERE tx = ">>, <<" OR id = 1">>),
  C("insert_value", <<"INSERT INTO u VALUES (9, 9, ">>, <<", 1)">>),
  C("bare", <<>>, <<>>),
  C("statement_start", <<>>, <<" SELECT 1">>)
}

Without(s, i) == SubSeq(s, 1, i - 1) \o SubSeq(s, i + 1, Len(s))
Twice(s, i) == SubSeq(s, 1, i) \o SubSeq(s, i, Len(s))

\* the damaged forms of a lexeme
Forms(l) == {[lex |-> l.name, mut |-> "whole", n |-> 0, p |-> l.p]}
            \cup {[lex |-> l.name, mut |-> "prefix", n |-> n, p |-> SubSeq(l.p, 1, n)] : n \in 1..(Len(l.p) - 1)}
            \cup {[lex |-> l.name, mut |-> "suffix", n |-> n, p |-> SubSeq(l.p, n + 1, Len(l.p))] : n \in 1..(Len(l.p) - 1)}
            \cup {[lex |-> l.name, mut |-> "drop", n |-> i, p |-> Without(l.p, i)] : i \in 2..(Len(l.p) - 1)}
            \cup {[lex |-> l.name, mut |-> "dup", n |-> i, p |-> Twice(l.p, i)] : i \in 1..Len(l.p)}

Allowed == {"ok", "err"}

VARIABLES lex, case, done
vars == <<lex, case, done>>
NoCase == [lex |-> "-", mut |-> "-", n |-> 0, ctx |-> "-", pieces |-> <<>>]
\* one initial state per lexeme (TLC's workers share the enumeration); the step chooses form and context
Init == lex \in Lexemes /\ case = NoCase /\ done = FALSE
Next == /\ ~done /\ done' = TRUE /\ UNCHANGED lex
        /\ \E f \in Forms(lex), c \in Contexts :
              case' = [lex |-> f.lex, mut |-> f.mut, n |-> f.n, ctx |-> c.name, pieces |-> c.pre \o f.p \o c.post]
Spec == Init /\ [][Next]_vars

\* meta-properties of the generator itself
PrefixIsShorter == \A l \in Lexemes : \A f \in Forms(l) : f.mut \in {"prefix", "suffix", "drop"} => Len(f.p) < Len(l.p)
EveryLexemeHasCuts == \A l \in Lexemes : Len(l.p) >= 2
NamesDistinct == \A a, b \in Lexemes : a.name = b.name => a = b
GeneratorOk == PrefixIsShorter /\ EveryLexemeHasCuts /\ NamesDistinct
=============================================================================

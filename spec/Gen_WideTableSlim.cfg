CONSTANTS N = 400  MaxOps = 12  WithTxn = FALSE  WithDDL = FALSE  WithPad = FALSE
SPECIFICATION Spec
VIEW view
INVARIANT CountsConsistent
ACTION_CONSTRAINT EmitSlim
CHECK_DEADLOCK FALSE

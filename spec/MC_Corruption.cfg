CONSTANTS Shapes = {"tiny"}  MaxPos = 3  CatalogPos = 3
CONSTANTS FileFaultKinds = {"zero", "trunc_inside"}
CONSTANTS DecoderFaultKinds = {"ff"}
CONSTANTS FileKindsUsed = {"meta", "wal"}  DecodersUsed = {"toastptr", "leaf"}
SPECIFICATION Spec
INVARIANT TypeOK OutcomesAllowed
PROPERTY Terminates
CHECK_DEADLOCK FALSE

---------------------------- MODULE MC_RecordGen ----------------------------
(* TLC model for RecordGen.tla.  The state is the case itself:
     <<"root">>  ->  [blk: group, n, salt]  ->  the cases of the block
   Every case state is checked against the laws of the abstract store (Laws) and printed (Emit).
   Gen_RecordGen.cfg is the template; lib/checks/c31.py instantiates Salts / MaxExh / EdgeN per tier and seed.
   MetaSmall additionally checks, for every schema of <= 2 columns and EVERY pair of rows over three value classes,
   that reset-then-build equals a fresh build and that reuse WITHOUT reset does not (so the law is not vacuous). *)
EXTENDS RecordGen, Json

VARIABLE st

Init == st = [blk |-> "root"]

Blocks == { [blk |-> "exh", n |-> n, salt |-> sa] : n \in 1..MaxExh, sa \in Salts } \cup
          { [blk |-> "edge", n |-> n, salt |-> sa] : n \in EdgeN, sa \in Salts } \cup
          { [blk |-> "type"], [blk |-> "overflow"], [blk |-> "meta"] }

CasesOf(b) == CASE b.blk = "exh"  -> ExhCases(b.n, b.salt)
                [] b.blk = "edge" -> EdgeCases(b.n, b.salt)
                [] b.blk = "type" -> TypeCases
                [] b.blk = "overflow" -> OverflowCases
                [] OTHER -> {}

Next == \/ /\ st = [blk |-> "root"]
           /\ \E b \in Blocks : st' = b
        \/ /\ "blk" \in DOMAIN st /\ st.blk # "root"
           /\ \E c \in CasesOf(st) : st' = c

Spec == Init /\ [][Next]_st

IsCase == "grp" \in DOMAIN st

Laws == IsCase => CaseLaws(st)

(* all rows over a tiny value alphabet for all schemas of <= 2 columns *)
MetaSmall ==
  ("blk" \in DOMAIN st /\ st.blk = "meta") =>
    \A n \in 1..2 : \A ks \in [1..n -> {"F", "V"}] :
      LET s == [i \in 1..n |-> IF ks[i] = "F" THEN TypeNamed("Int4") ELSE TypeNamed("Text")]
          vals(i) == IF ks[i] = "F" THEN {NULL, [cls |-> "one", len |-> 4], [cls |-> "max", len |-> 4]}
                                     ELSE {NULL, Empty, [cls |-> "e1", len |-> 1], [cls |-> "e128", len |-> 128]}
          rows == {r \in [1..n -> UNION {vals(i) : i \in 1..n}] : \A i \in 1..n : r[i] \in vals(i)}
      IN \A prev \in rows, row \in rows :
           /\ LawRead(s, row)
           /\ LawReset(s, prev, row)
           (* without reset the image depends on history exactly when a column that held a (non-empty) value becomes NULL *)
           /\ (BuildNoReset(s, prev, row) = Build(s, row)) <=> (\A i \in 1..n : row[i] = NULL => prev[i] \in {NULL, Empty})

TableOK ==
  /\ \A a, b \in 1..Len(AllTypes) : AllTypes[a].ty = AllTypes[b].ty => a = b
  /\ \A a \in 1..NF : FixedTypes[a].k = "F" /\ FixedTypes[a].w > 0
  /\ \A a \in 1..NV : VarTypes[a].k = "V" /\ \A j \in 1..Len(VarClasses(VarTypes[a].fam)) : VarClasses(VarTypes[a].fam)[j].len >= 0
ASSUME TableOK

Emit == IsCase => PrintT(<<"T", ToJson(Describe(st))>>)
=============================================================================

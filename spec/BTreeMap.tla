------------------------------ MODULE BTreeMap ------------------------------
(***************************************************************************)
(* C28 - the B-tree behaves as an ordered map.                             *)
(*                                                                         *)
(* Reference model: a partial map m from keys to values, keys ordered as   *)
(* byte strings.  Every public operation of BTree (tree.rs) is an action   *)
(* with its RESULT and its POST-STATE; cursors are the three scan          *)
(* operators.  The model knows nothing about pages: which leaf a key is    *)
(* on, whether a split happened and which rightmost-leaf hint the caller   *)
(* passed must not be observable (HintModes: the harness replays every     *)
(* behaviour under each of them and expects the same answers).             *)
(*                                                                         *)
(* Keys are ids 1..NKeys; KB[i] is the byte string (RLE, see ByteKeys) and *)
(* the ORDER IS DERIVED FROM THE BYTES by this spec (Rank).  Values are    *)
(* ids with a length VLen[v] (the harness renders v as VLen[v] copies of a *)
(* fill byte); 0 stands for "absent".                                      *)
(*                                                                         *)
(* Sizes.  The property quantifies over cells that fit a page.  The real   *)
(* free-space rule (leaf.rs insert_cell, tree.rs split_leaf): a cell needs *)
(* key + varint(|value|) + |value| bytes plus an 8-byte slot out of        *)
(* 16384 - 24; a full leaf is split in TWO, which is always possible only  *)
(* if every cell takes at most half a page (SplitSafe).  For a cell that   *)
(* fits a page but is not SplitSafe the model still says "inserted" but    *)
(* marks the step `mayfail`: a clean error that leaves the map unchanged   *)
(* is admissible there (and ends the replay of that behaviour).            *)
(* Space freed by delete/shrink is not reused before the next split of     *)
(* that leaf (frag_bytes is a u8, compaction never runs), therefore        *)
(* update(k, longer value) may answer false = "no room here, caller must   *)
(* delete + insert" although k is present (callers in dml/update.rs do     *)
(* exactly that): the step is marked `mayrefuse`; the refusal must leave   *)
(* the map unchanged and the harness then performs the caller's fallback,  *)
(* which must produce the model's post-state.                              *)
(***************************************************************************)
EXTENDS ByteKeys, TLC

CONSTANTS
  NKeys,      \* keys are 1..NKeys
  KB,         \* KB[i]: RLE byte string of key i (pairwise different)
  Vals,       \* value ids (positive integers)
  VLen,       \* VLen[v]: length of value v in bytes
  InsVals,    \* InsVals[k]: values that may be stored under key k (restricts the generated cells)
  AllowUnsafe \* generate cells that fit a page but are not SplitSafe

Keys == 1..NKeys
Absent == 0
HintModes == {"none", "fresh", "stale"}

VARIABLES m, hist
vars == <<m, hist>>

\* ------------------------------------------------------------------ order
Rank == [k \in Keys |-> 1 + Cardinality({j \in Keys : RleLess(KB[j], KB[k])})]   \* position of k in byte order
Order == [i \in 1..NKeys |-> CHOOSE k \in Keys : Rank[k] = i]                    \* key ids ascending by bytes
KLt(a, b) == Rank[a] < Rank[b]

\* ------------------------------------------------------------------ sizes (the real free-space rule)
PageCapacity == 16384 - 24
SlotSize == 8
VarintLen(n) == IF n <= 240 THEN 1 ELSE IF n <= 2287 THEN 2 ELSE 3
KLen == [k \in Keys |-> RleLen(KB[k])]
CellSize(k, v) == KLen[k] + VarintLen(VLen[v]) + VLen[v]
FitsPage(k, v) == CellSize(k, v) + SlotSize <= PageCapacity
SplitSafe(k, v) == 2 * (CellSize(k, v) + SlotSize) <= PageCapacity
Storable(k, v) == v \in InsVals[k] /\ FitsPage(k, v) /\ (AllowUnsafe \/ SplitSafe(k, v))

\* ------------------------------------------------------------------ the ordered map
Present(mm) == {k \in Keys : mm[k] # Absent}
\* entries in key order as <<key, value>>
Entries(mm) == LET ks == SelectSeq(Order, LAMBDA k : mm[k] # Absent) IN [i \in DOMAIN ks |-> <<ks[i], mm[ks[i]]>>]
\* cursor from the first key / from a seek position (first entry with key >= from; from = 0: first) / backwards from the last
ScanFwd(mm, from) == IF from = 0 THEN Entries(mm) ELSE SelectSeq(Entries(mm), LAMBDA e : Rank[e[1]] >= Rank[from])
ScanBack(mm) == LET e == Entries(mm) IN [i \in DOMAIN e |-> e[Len(e) + 1 - i]]
MaxPresent(mm, k) == \A j \in Present(mm) : KLt(j, k)      \* k is greater than every stored key

\* ------------------------------------------------------------------ operations: result and post-state
\* op = [o, k, v]; o in OpNames
OpNames == {"ins", "ifabs", "app", "upd", "del", "get", "fwd", "back"}

Res(op, mm) ==
  CASE op.o = "ins"   -> IF mm[op.k] # Absent THEN "exists" ELSE "ok"
    [] op.o = "ifabs" -> IF mm[op.k] # Absent THEN <<"dup", mm[op.k]>> ELSE "inserted"
    [] op.o = "app"   -> "ok"
    [] op.o = "upd"   -> mm[op.k] # Absent
    [] op.o = "del"   -> mm[op.k] # Absent
    [] op.o = "get"   -> mm[op.k]
    [] op.o = "fwd"   -> ScanFwd(mm, op.k)
    [] op.o = "back"  -> ScanBack(mm)

Post(op, mm) ==
  CASE op.o \in {"ins", "ifabs"} -> IF mm[op.k] # Absent THEN mm ELSE [mm EXCEPT ![op.k] = op.v]
    [] op.o = "app"   -> [mm EXCEPT ![op.k] = op.v]
    [] op.o = "upd"   -> IF mm[op.k] # Absent THEN [mm EXCEPT ![op.k] = op.v] ELSE mm
    [] op.o = "del"   -> [mm EXCEPT ![op.k] = Absent]
    [] OTHER          -> mm

\* preconditions / generated domain
Enabled(op, mm) ==
  CASE op.o \in {"ins", "ifabs"} -> Storable(op.k, op.v)
    [] op.o = "app"   -> Storable(op.k, op.v) /\ MaxPresent(mm, op.k)        \* insert_append: caller guarantees key > all
    [] op.o = "upd"   -> Storable(op.k, op.v)
    [] OTHER          -> TRUE

\* admissible deviations (see header)
MayFail(op, mm) == op.o \in {"ins", "ifabs", "app"} /\ mm[op.k] = Absent /\ ~SplitSafe(op.k, op.v)
MayRefuse(op, mm) == op.o = "upd" /\ mm[op.k] # Absent /\ VLen[op.v] > VLen[mm[op.k]]

Step(op, mm) == [o |-> op.o, k |-> op.k, v |-> op.v, r |-> Res(op, mm), post |-> Entries(Post(op, mm)),
                 mayfail |-> MayFail(op, mm), mayrefuse |-> MayRefuse(op, mm)]

AllOps == [o : {"ins", "ifabs", "app", "upd"}, k : Keys, v : Vals]
          \cup [o : {"del", "get"}, k : Keys, v : {0}]
          \cup [o : {"fwd"}, k : Keys \cup {0}, v : {0}]
          \cup [o : {"back"}, k : {0}, v : {0}]

Do(op) == /\ Enabled(op, m)
          /\ m' = Post(op, m)
          /\ hist' = Append(hist, Step(op, m))

\* a preload script is a sequence of ops applied to the empty map (the harness executes it unchecked)
EmptyMap == [k \in Keys |-> Absent]
RECURSIVE Run(_, _)
Run(script, mm) == IF script = <<>> THEN mm ELSE Run(Tail(script), Post(script[1], mm))
RECURSIVE ScriptOk(_, _)
ScriptOk(script, mm) == script = <<>> \/ (Enabled(script[1], mm) /\ ScriptOk(Tail(script), Post(script[1], mm)))

\* ------------------------------------------------------------------ invariants of the MODEL (oracle self-checks)
TypeOK == m \in [Keys -> Vals \cup {Absent}]

\* the three cursors agree with each other and with point lookups, in strict byte order
ScansConsistent ==
  LET e == Entries(m) IN
  /\ \A i \in 1..(Len(e) - 1) : RleLess(KB[e[i][1]], KB[e[i + 1][1]])
  /\ {e[i][1] : i \in DOMAIN e} = Present(m)
  /\ \A i \in DOMAIN e : e[i][2] = m[e[i][1]]
  /\ ScanFwd(m, 0) = e
  /\ \A k \in Keys : LET s == ScanFwd(m, k) IN
        /\ \A i \in DOMAIN s : s[i] = e[Len(e) - Len(s) + i]                     \* a suffix
        /\ \A i \in DOMAIN e : (i <= Len(e) - Len(s)) <=> RleLess(KB[e[i][1]], KB[k])   \* exactly the entries >= k
  /\ LET b == ScanBack(m) IN Len(b) = Len(e) /\ \A i \in DOMAIN b : b[i] = e[Len(e) + 1 - i]

\* algebraic laws of a map, on every enabled operation of the current state
MapLaws ==
  \A op \in AllOps : Enabled(op, m) =>
    LET p == Post(op, m) IN
    /\ \A j \in Keys \ {op.k} : p[j] = m[j]                                      \* frame
    /\ op.o \in {"ins", "ifabs"} => (p[op.k] = IF m[op.k] = Absent THEN op.v ELSE m[op.k])
    /\ op.o = "app" => (m[op.k] = Absent /\ p = Post([op EXCEPT !.o = "ins"], m) /\ Entries(p)[Len(Entries(p))][1] = op.k)
    /\ op.o = "upd" => (p[op.k] = IF m[op.k] = Absent THEN Absent ELSE op.v)
    /\ op.o = "del" => p[op.k] = Absent
    /\ op.o \in {"get", "fwd", "back"} => p = m

\* the order on ids is the byte order (RLE and expanded), total and strict.  (Parameterised: TLC evaluates every
\* constant-level definition without parameters at start-up, used or not.)
OrderIsByteOrder(K) ==
  /\ \A a, b \in K : a # b => (RleLess(KB[a], KB[b]) \/ RleLess(KB[b], KB[a]))
  /\ \A a, b \in K : KLt(a, b) <=> RleLess(KB[a], KB[b])
  /\ \A k \in K : RleWellFormed(KB[k])
  /\ \A i \in 1..NKeys : Rank[Order[i]] = i
RleOrderAgrees(K) ==
  \A a, b \in K : RleLess(KB[a], KB[b]) <=> SeqLess(RleExpand(KB[a]), RleExpand(KB[b]))
=============================================================================

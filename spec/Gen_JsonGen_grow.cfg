CONSTANTS Mode = "grow"  MaxDepth = 2  FlatWidth = 3  LeafMode = "full"  GrowModes = {"bare", "sib", "dupl", "dupf"}
SPECIFICATION Spec
INVARIANT DepthOK
INVARIANT LawsThenEmit
CHECK_DEADLOCK FALSE

CONSTANTS Mode = "grow"  MaxDepth = 2  GrowModes = {"bare", "sib", "dupl", "dupf"}
SPECIFICATION Spec
INVARIANT DepthOK
INVARIANT LawsThenEmit
CHECK_DEADLOCK FALSE

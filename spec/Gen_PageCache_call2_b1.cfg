\* as Gen_PageCache_call2 but the budget admits ONE cache page (the `while !can_allocate` loop evicts) and a second shard
CONSTANTS Threads = {t1, t2}  KA = {k1, k2}  KB = {k4}  Cap = 2  MaxCalls = 3  MaxHeld = 2  Fine = FALSE  InitMayFail = TRUE
          BudgetPages = 1  Ballast = 32  ClearKeepsPinned = FALSE  ClearCountsUnderLock = TRUE  ReleaseOnInitError = TRUE
CONSTANT Keys <- KeysAll  ShardOf <- ShardsOneTwo
SYMMETRY Sym
SPECIFICATION Spec
VIEW view
INVARIANTS TypeOK DataIsLastWrite WithinCapacity PinnedStaysUnlessClear BudgetExplained BudgetMatchesUnless ConsequencesOnlyAfterClear
ACTION_CONSTRAINT Emit
CHECK_DEADLOCK FALSE

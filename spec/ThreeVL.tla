------------------------------ MODULE ThreeVL ------------------------------
(***************************************************************************)
(* SQL three-valued logic as an ORACLE (properties C14 and C19).           *)
(*                                                                         *)
(*   Eval(e, row) \in {"T","F","N"}   value of the boolean expression e    *)
(*                                    on one row (N = UNKNOWN / NULL)      *)
(*                                                                         *)
(* A filter returns a row iff Eval(e,row) = "T" (C14, first sentence); the *)
(* same expression in the select list yields TRUE / FALSE / NULL for       *)
(* "T" / "F" / "N" (C14, last sentence).                                   *)
(*                                                                         *)
(* Scalar values: NULL, integers, floats and text.  Numbers are kept in    *)
(* HALVES (n = 2 * value) so that 0.5, 1.0, 2.0 and the integers live on   *)
(* one exact scale and int/float comparison is plain integer comparison.   *)
(* Text is a sequence of one-character strings; order is code-point order  *)
(* (binary collation), LIKE is defined on the character sequences with     *)
(* '%' = any sequence and '_' = exactly one character, no escape.          *)
(*                                                                         *)
(* Expressions are records [op, nm, val, args] (same shape for every node  *)
(* so that TLC can put them into one set):                                 *)
(*   col   nm = column name                 lit   val = scalar value       *)
(*   tv    nm \in {"T","F","N"} boolean literal TRUE / FALSE / NULL        *)
(*   opq   nm = name of an OPAQUE atom whose value is given BY THE ROW     *)
(*         (row[nm] \in {"T","F","N"}): dialect atoms without semantics    *)
(*         here (vector distance, JSON operators, window functions) - C19  *)
(*   = <> < <= > >=         args = <<x, y>>          scalar operands       *)
(*   in notin               args = <<x, a1, .., an>> scalar operands       *)
(*   between notbetween     args = <<x, lo, hi>>     scalar operands       *)
(*   like notlike           args = <<x, pattern>>    scalar operands       *)
(*   isnull isnotnull       args = <<x>>             scalar OR boolean     *)
(*   not and or             boolean operands                               *)
(***************************************************************************)
EXTENDS Integers, Sequences, FiniteSets

---------------------------------------------------------------------------
(* scalar values *)
Null      == [k |-> "null",  n |-> 0,     c |-> <<>>]
IntV(i)   == [k |-> "int",   n |-> 2 * i, c |-> <<>>]
FloatV(h) == [k |-> "float", n |-> h,     c |-> <<>>]     \* h halves: 1 = 0.5, 2 = 1.0, 4 = 2.0
TextV(cs) == [k |-> "text",  n |-> 0,     c |-> cs]

IsNullV(v) == v.k = "null"
IsNum(v)   == v.k \in {"int", "float"}
Comparable(x, y) == IsNullV(x) \/ IsNullV(y) \/ (IsNum(x) /\ IsNum(y)) \/ (x.k = "text" /\ y.k = "text")

TV == {"T", "F", "N"}
B3(b) == IF b THEN "T" ELSE "F"

(* Kleene connectives *)
Not3(a)    == CASE a = "T" -> "F" [] a = "F" -> "T" [] OTHER -> "N"
And3(a, b) == IF a = "F" \/ b = "F" THEN "F" ELSE IF a = "T" /\ b = "T" THEN "T" ELSE "N"
Or3(a, b)  == IF a = "T" \/ b = "T" THEN "T" ELSE IF a = "F" /\ b = "F" THEN "F" ELSE "N"

---------------------------------------------------------------------------
(* order on non-NULL comparable values: -1, 0, 1 *)
CodePoint(ch) == CASE ch = "%" -> 37 [] ch = "A" -> 65 [] ch = "B" -> 66 [] ch = "_" -> 95
                   [] ch = "a" -> 97 [] ch = "b" -> 98 [] ch = "c" -> 99

RECURSIVE LexOrd(_, _)
LexOrd(s, t) == IF s = <<>> /\ t = <<>> THEN 0
                ELSE IF s = <<>> THEN -1
                ELSE IF t = <<>> THEN 1
                ELSE IF Head(s) = Head(t) THEN LexOrd(Tail(s), Tail(t))
                ELSE IF CodePoint(Head(s)) < CodePoint(Head(t)) THEN -1 ELSE 1

Ord(x, y) == IF IsNum(x) THEN (IF x.n < y.n THEN -1 ELSE IF x.n = y.n THEN 0 ELSE 1)
             ELSE LexOrd(x.c, y.c)

CmpOps == {"=", "<>", "<", "<=", ">", ">="}

Cmp(op, x, y) ==
    IF IsNullV(x) \/ IsNullV(y) THEN "N"
    ELSE LET o == Ord(x, y) IN
         B3(CASE op = "="  -> o = 0  [] op = "<>" -> o # 0
              [] op = "<"  -> o < 0  [] op = "<=" -> o <= 0
              [] op = ">"  -> o > 0  [] op = ">=" -> o >= 0)

(* x IN (items): TRUE if some item equals x; otherwise UNKNOWN if x or some item is NULL; otherwise FALSE.
   (Stated directly; the invariant InIsOrOfEq in MC_ThreeVL checks it against  x = a1 OR .. OR x = an.) *)
InList(x, items) ==
    IF \E j \in DOMAIN items : Cmp("=", x, items[j]) = "T" THEN "T"
    ELSE IF IsNullV(x) \/ \E j \in DOMAIN items : IsNullV(items[j]) THEN "N"
    ELSE "F"

(* x BETWEEN lo AND hi: FALSE as soon as one bound is known to be violated, else UNKNOWN if anything is NULL.
   (Invariant BetweenIsTwoCmp checks it against  x >= lo AND x <= hi.) *)
Between(x, lo, hi) ==
    IF (~IsNullV(x) /\ ~IsNullV(lo) /\ Ord(x, lo) < 0) \/ (~IsNullV(x) /\ ~IsNullV(hi) /\ Ord(x, hi) > 0) THEN "F"
    ELSE IF IsNullV(x) \/ IsNullV(lo) \/ IsNullV(hi) THEN "N"
    ELSE "T"

(* LIKE on character sequences *)
RECURSIVE LikeMatch(_, _)
LikeMatch(s, p) ==
    IF p = <<>> THEN s = <<>>
    ELSE IF Head(p) = "%" THEN LikeMatch(s, Tail(p)) \/ (s # <<>> /\ LikeMatch(Tail(s), p))
    ELSE IF s = <<>> THEN FALSE
    ELSE (Head(p) = "_" \/ Head(p) = Head(s)) /\ LikeMatch(Tail(s), Tail(p))

Like(x, p) == IF IsNullV(x) \/ IsNullV(p) THEN "N" ELSE B3(LikeMatch(x.c, p.c))

---------------------------------------------------------------------------
(* expressions *)
Col(name)   == [op |-> "col", nm |-> name, val |-> Null, args |-> <<>>]
Lit(v)      == [op |-> "lit", nm |-> "",   val |-> v,    args |-> <<>>]
TVLit(t)    == [op |-> "tv",  nm |-> t,    val |-> Null, args |-> <<>>]
Opaque(a)   == [op |-> "opq", nm |-> a,    val |-> Null, args |-> <<>>]
Node(o, as) == [op |-> o,     nm |-> "",   val |-> Null, args |-> as]

CmpE(o, x, y)       == Node(o, <<x, y>>)
Eq(x, y)            == CmpE("=", x, y)
AndE(a, b)          == Node("and", <<a, b>>)
OrE(a, b)           == Node("or", <<a, b>>)
NotE(a)             == Node("not", <<a>>)
IsNullE(a)          == Node("isnull", <<a>>)
IsNotNullE(a)       == Node("isnotnull", <<a>>)
InE(x, items)       == Node("in", <<x>> \o items)
NotInE(x, items)    == Node("notin", <<x>> \o items)
BetweenE(x, l, h)   == Node("between", <<x, l, h>>)
NotBetweenE(x, l, h) == Node("notbetween", <<x, l, h>>)
LikeE(x, p)         == Node("like", <<x, p>>)
NotLikeE(x, p)      == Node("notlike", <<x, p>>)

IsScalar(e) == e.op \in {"col", "lit"}

(* the operator FAMILY of a node: the unit in which divergences are classified (signatures) *)
Family(e) == IF e.op \in CmpOps THEN "cmp" ELSE e.op

Val(e, row) == IF e.op = "col" THEN row[e.nm] ELSE e.val

RECURSIVE Eval(_, _)
Eval(e, row) ==
    LET a == e.args IN
    CASE e.op \in CmpOps     -> Cmp(e.op, Val(a[1], row), Val(a[2], row))
      [] e.op = "and"        -> And3(Eval(a[1], row), Eval(a[2], row))
      [] e.op = "or"         -> Or3(Eval(a[1], row), Eval(a[2], row))
      [] e.op = "not"        -> Not3(Eval(a[1], row))
      [] e.op = "isnull"     -> IF IsScalar(a[1]) THEN B3(IsNullV(Val(a[1], row))) ELSE B3(Eval(a[1], row) = "N")
      [] e.op = "isnotnull"  -> IF IsScalar(a[1]) THEN B3(~IsNullV(Val(a[1], row))) ELSE B3(Eval(a[1], row) # "N")
      [] e.op = "in"         -> InList(Val(a[1], row), [j \in 1..(Len(a) - 1) |-> Val(a[j + 1], row)])
      [] e.op = "notin"      -> Not3(InList(Val(a[1], row), [j \in 1..(Len(a) - 1) |-> Val(a[j + 1], row)]))
      [] e.op = "between"    -> Between(Val(a[1], row), Val(a[2], row), Val(a[3], row))
      [] e.op = "notbetween" -> Not3(Between(Val(a[1], row), Val(a[2], row), Val(a[3], row)))
      [] e.op = "like"       -> Like(Val(a[1], row), Val(a[2], row))
      [] e.op = "notlike"    -> Not3(Like(Val(a[1], row), Val(a[2], row)))
      [] e.op = "tv"         -> e.nm
      [] e.op = "opq"        -> row[e.nm]

(* every scalar comparison in e is between comparable kinds on this row (the generator's obligation) *)
RECURSIVE WellTyped(_, _)
WellTyped(e, row) ==
    LET a == e.args IN
    IF e.op \in {"tv", "opq"} THEN TRUE
    ELSE IF e.op \in {"and", "or", "not"} THEN \A j \in DOMAIN a : WellTyped(a[j], row)
    ELSE IF e.op \in {"isnull", "isnotnull"} THEN IsScalar(a[1]) \/ WellTyped(a[1], row)
    ELSE IF e.op \in {"like", "notlike"} THEN \A j \in DOMAIN a : Val(a[j], row).k \in {"text", "null"}
    ELSE \A j \in 2..Len(a) : Comparable(Val(a[1], row), Val(a[j], row))

(* all nodes of e that have a truth value, in pre-order (root first) *)
RECURSIVE Nodes(_)
RECURSIVE NodesOf(_, _)
NodesOf(as, j) == IF j > Len(as) THEN <<>> ELSE Nodes(as[j]) \o NodesOf(as, j + 1)
Nodes(e) == IF IsScalar(e) THEN <<>> ELSE <<e>> \o NodesOf(e.args, 1)

RECURSIVE Depth(_)
RECURSIVE MaxDepth(_, _)
MaxDepth(as, j) == IF j > Len(as) THEN 0 ELSE LET d == Depth(as[j]) m == MaxDepth(as, j + 1) IN IF d > m THEN d ELSE m
Depth(e) == IF IsScalar(e) THEN 0 ELSE 1 + MaxDepth(e.args, 1)

---------------------------------------------------------------------------
(* relations: a table is a function id -> row *)
TrueIds(e, T)  == {id \in DOMAIN T : Eval(e, T[id]) = "T"}
ValueOf(e, T)  == [id \in DOMAIN T |-> Eval(e, T[id])]

(* ---- the laws of C19, as predicates on the oracle (checked by TLC in MC_ThreeVL) ---- *)
SameOn(e1, e2, T) == \A id \in DOMAIN T : Eval(e1, T[id]) = Eval(e2, T[id])

(* ternary logic partitioning: WHERE p, WHERE NOT p, WHERE p IS NULL partition the table *)
TLP(e, T) == /\ TrueIds(e, T) \cup TrueIds(NotE(e), T) \cup TrueIds(IsNullE(e), T) = DOMAIN T
             /\ TrueIds(e, T) \cap TrueIds(NotE(e), T) = {}
             /\ TrueIds(e, T) \cap TrueIds(IsNullE(e), T) = {}
             /\ TrueIds(NotE(e), T) \cap TrueIds(IsNullE(e), T) = {}
=============================================================================

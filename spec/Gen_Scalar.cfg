CONSTANT Deep = FALSE
SPECIFICATION Spec
INVARIANT EmitCases
INVARIANT LawsString
INVARIANT LawsInt
INVARIANT LawsDiv
INVARIANT LawsRound
CHECK_DEADLOCK FALSE

------------------------------ MODULE Catalog ------------------------------
(***************************************************************************)
(* The catalog (schemas / tables / columns / indexes) and its persistence  *)
(* protocol (C40, part of C21).                                            *)
(*                                                                         *)
(* Logical level: `cat` maps each existing table to its column list and    *)
(* its set of explicitly created indexes; DDL statements are actions.      *)
(*                                                                         *)
(* Persistence level (CatalogPersistence::save, schema/persistence.rs):    *)
(* every DDL statement ends by rewriting the catalog file. Two protocols:  *)
(*                                                                         *)
(*   "in_place"    File::create (truncate) ; write header ; write body ;   *)
(*                 fsync                  -- the pinned tree               *)
(*   "temp_rename" create temp ; write header+body ; fsync temp ;          *)
(*                 rename over the catalog file                            *)
(*                                                                         *)
(* one action per file-system step, so a crash (process kill: what the OS  *)
(* has; power loss: what was fsynced - truncation and rename are directory *)
(* / length operations and take effect at once, assumption A-FS) can fall  *)
(* between any two of them.                                                *)
(*                                                                         *)
(* NoLoss (C40): whatever the crash point and model, the catalog file that *)
(* survives loads, and is the catalog before or after the running DDL      *)
(* statement - never empty, never partial.                                 *)
(***************************************************************************)
EXTENDS Integers, Sequences, FiniteSets, TLC

CONSTANTS Names,        \* table names that DDL may create / drop
          Protocol,     \* "in_place" | "temp_rename"
          MaxOps
Templates == {1, 2}
Cols(t) == IF t = 1 THEN <<"id", "a", "s">> ELSE <<"k", "f", "d", "v">>
IdxCol(t) == IF t = 1 THEN "a" ELSE "f"

VARIABLES cat,        \* [name -> [tmpl, cols, idx]] for existing tables (a function with a varying domain)
          base,       \* ghost: the catalog when the running DDL statement began
          file,       \* the catalog file as the OS sees it: [k |-> "full", v |-> catalog] | [k |-> "empty"] | [k |-> "header"]
          synced,     \* its content as of the last fsync / rename
          tmp,        \* the temporary file (temp_rename): [k |-> "none"] or content
          tmpsynced,
          pc,         \* "idle" or the next step of the save protocol
          nops, hist
vars == <<cat, base, file, synced, tmp, tmpsynced, pc, nops, hist>>
view == <<cat, base, file, synced, tmp, tmpsynced, pc, nops>>

Full(c) == [k |-> "full", v |-> c]
Empty == [k |-> "empty", v |-> <<>>]
Header == [k |-> "header", v |-> <<>>]
None == [k |-> "none", v |-> <<>>]
Tab(t) == [tmpl |-> t, cols |-> Cols(t), idx |-> {}]

Init == /\ cat = ("t" :> Tab(1)) /\ base = cat          \* a populated table that exists before any DDL of the history
        /\ file = Full(cat) /\ synced = Full(cat) /\ tmp = None /\ tmpsynced = None
        /\ pc = "idle" /\ nops = 0 /\ hist = <<>>

Drop(f, n) == [x \in DOMAIN f \ {n} |-> f[x]]

\* a DDL statement changes the in-memory catalog and starts the save protocol
DDL(op, newcat) ==
    /\ pc = "idle" /\ nops < MaxOps
    /\ base' = cat /\ cat' = newcat
    /\ pc' = IF Protocol = "in_place" THEN "truncate" ELSE "create_tmp"
    /\ nops' = nops + 1
    /\ hist' = Append(hist, [op |-> op, cat |-> [n \in DOMAIN newcat |-> [cols |-> newcat[n].cols, idx |-> newcat[n].idx, tmpl |-> newcat[n].tmpl]]])
    /\ UNCHANGED <<file, synced, tmp, tmpsynced>>

CreateTable == \E n \in Names \ DOMAIN cat, t \in Templates :
                   DDL([k |-> "create_table", n |-> n, tmpl |-> t], (n :> Tab(t)) @@ cat)
DropTable == \E n \in (DOMAIN cat) \cap Names : DDL([k |-> "drop_table", n |-> n], Drop(cat, n))
CreateIndex == \E n \in DOMAIN cat, u \in BOOLEAN :
                  LET iname == n \o "_ix" IN
                  /\ \A i \in cat[n].idx : i.name # iname
                  /\ DDL([k |-> "create_index", n |-> n, name |-> iname, col |-> IdxCol(cat[n].tmpl), unique |-> u],
                         [cat EXCEPT ![n].idx = @ \cup {[name |-> iname, col |-> IdxCol(cat[n].tmpl), unique |-> u]}])
DropIndex == \E n \in DOMAIN cat : \E i \in cat[n].idx :
                  DDL([k |-> "drop_index", n |-> n, name |-> i.name], [cat EXCEPT ![n].idx = @ \ {i}])
AddColumn == \E n \in DOMAIN cat :
                  /\ "z" \notin {cat[n].cols[j] : j \in 1..Len(cat[n].cols)}
                  /\ DDL([k |-> "add_column", n |-> n, col |-> "z"], [cat EXCEPT ![n].cols = Append(@, "z")])

\* ---- save protocol, one action per file-system step
Truncate    == pc = "truncate"   /\ file' = Empty /\ synced' = Empty /\ pc' = "write_header" /\ UNCHANGED <<cat, base, tmp, tmpsynced, nops, hist>>
WriteHeader == pc = "write_header" /\ file' = Header /\ pc' = "write_body" /\ UNCHANGED <<cat, base, synced, tmp, tmpsynced, nops, hist>>
WriteBody   == pc = "write_body" /\ file' = Full(cat) /\ pc' = "fsync" /\ UNCHANGED <<cat, base, synced, tmp, tmpsynced, nops, hist>>
Fsync       == pc = "fsync"      /\ synced' = file /\ pc' = "idle" /\ UNCHANGED <<cat, base, file, tmp, tmpsynced, nops, hist>>

CreateTmp   == pc = "create_tmp" /\ tmp' = Empty /\ tmpsynced' = Empty /\ pc' = "write_tmp_header" /\ UNCHANGED <<cat, base, file, synced, nops, hist>>
WriteTmpHdr == pc = "write_tmp_header" /\ tmp' = Header /\ pc' = "write_tmp_body" /\ UNCHANGED <<cat, base, file, synced, tmpsynced, nops, hist>>
WriteTmpBdy == pc = "write_tmp_body" /\ tmp' = Full(cat) /\ pc' = "fsync_tmp" /\ UNCHANGED <<cat, base, file, synced, tmpsynced, nops, hist>>
FsyncTmp    == pc = "fsync_tmp"  /\ tmpsynced' = tmp /\ pc' = "rename" /\ UNCHANGED <<cat, base, file, synced, tmp, nops, hist>>
Rename      == pc = "rename"     /\ file' = tmp /\ synced' = tmpsynced /\ tmp' = None /\ tmpsynced' = None /\ pc' = "idle"
                                 /\ UNCHANGED <<cat, base, nops, hist>>

Next == CreateTable \/ DropTable \/ CreateIndex \/ DropIndex \/ AddColumn
        \/ Truncate \/ WriteHeader \/ WriteBody \/ Fsync
        \/ CreateTmp \/ WriteTmpHdr \/ WriteTmpBdy \/ FsyncTmp \/ Rename
Spec == Init /\ [][Next]_vars

\* ---- crash: what a reopen finds (evaluated in every state = a crash after every step)
Recovered(m) == IF m = "kill" THEN file ELSE synced
NoLoss == \A m \in {"kill", "power"} : Recovered(m) \in {Full(base), Full(cat)}
\* weaker reading of C40 (tables and indexes that existed before the statement are not lost)
NoTableLost == \A m \in {"kill", "power"} :
                   LET r == Recovered(m) IN
                   /\ r.k = "full"
                   /\ \A n \in DOMAIN base : n \in DOMAIN cat => (n \in DOMAIN r.v /\ (base[n].idx \cap cat[n].idx) \subseteq r.v[n].idx)
=============================================================================

------------------------------- MODULE Grammar -------------------------------
(***************************************************************************)
(* C22 - "no input makes the library panic, abort or hang".                *)
(*                                                                         *)
(* A token-level model of the SQL language accepted by TurDB's parser      *)
(* (src/sql/parser.rs, lexer.rs, token.rs) as a nondeterministic           *)
(* DERIVATION SYSTEM:                                                      *)
(*                                                                         *)
(*   state   form    the sentential form under construction (a sequence of *)
(*                   terminals = SQL tokens and nonterminals "<Name>")     *)
(*           budget  how many more FEATURES (non-default alternatives) the *)
(*                   derivation may still choose                           *)
(*           mplan, mks, muts   the planned Mutate steps (how many, which    *)
(*                   kinds) and how many were done                         *)
(*           trail   the productions used (history; it is the coverage     *)
(*                   evidence and the blame vocabulary of a finding)       *)
(*   actions Expand  replace the LEFTMOST nonterminal by one alternative   *)
(*           ExpandDeep   the nesting shapes (200..20000 nested (, NOT..)  *)
(*           Mutate  drop / duplicate / swap / replace / glue one token,   *)
(*                   insert an unbalanced parenthesis, truncate            *)
(*                                                                         *)
(* Every alternative has a cost: the first alternative of a nonterminal is *)
(* its DEFAULT (cost 0, never recursive - checked by DefaultsTerminate),   *)
(* pure dispatch alternatives are free as well, every other alternative    *)
(* costs one unit of budget.  With Budget = k, breadth-first search        *)
(* enumerates every sentence that combines at most k features (k-way       *)
(* coverage of the productions); `-simulate` with a large budget gives     *)
(* deep random derivations.                                                *)
(*                                                                         *)
(* The identifiers in the productions are those of the fixture database    *)
(* of lib/checks/c22.py (tables t - one column of every type -, u, e with  *)
(* an HNSW index) so that well-formed sentences really execute.            *)
(*                                                                         *)
(* THE PROPERTY.  The implementation is the environment of this spec: each *)
(* complete sentence is a Call; the only requirement is the trace property *)
(*        Call ~> Return  /\  Return.outcome \in Allowed                   *)
(* with Allowed = {"ok", "err"} (a panic, an abort of the process or no    *)
(* return within the watchdog bound is a violation).  The spec does NOT    *)
(* say which of ok/err a sentence gets.  It is checked on the real code by *)
(* executing every emitted sentence (bin/check C22).                       *)
(*                                                                         *)
(* What this does not cover: "all byte strings".  TLC enumerates           *)
(* derivations of this grammar and <= MaxMut token-level mutations of      *)
(* them, nothing else.                                                     *)
(***************************************************************************)
EXTENDS Naturals, Sequences, FiniteSets, TLC

CONSTANTS Budget,     \* features per sentence
          VBudget,    \* boundary values in value slots per sentence (on top of Budget)
          JunkTokens, \* the tokens a "replace" mutation may put in (a subset of Junk)
          MaxMut,     \* mutations per sentence (0..2)
          Starts,     \* start symbols, e.g. {"<Stmt>"}
          DeepN,      \* nesting depths of the Deep shapes
          MutMaxLen,  \* only sentences up to this length are mutated
          MaxLen      \* bound on the length of a sentential form built by Expand (meta-invariant)

VARIABLES pre, rest, budget, vbudget, mplan, muts, trail

Allowed == {"ok", "err"}

D(r) == [c |-> 0, v |-> 0, r |-> r]      \* default or dispatch alternative (free)
F(r) == [c |-> 1, v |-> 0, r |-> r]      \* feature (costs one unit of budget)
V(r) == [c |-> 0, v |-> 1, r |-> r]      \* boundary value in a VALUE SLOT (costs one unit of vbudget)

RECURSIVE RepStr(_, _)
RepStr(s, n) == IF n = 0 THEN "" ELSE IF n % 2 = 1 THEN s \o RepStr(s, n - 1)
                ELSE LET h == RepStr(s, n \div 2) IN h \o h
Rep(tok, n) == [i \in 1..n |-> tok]

LongIdent  == RepStr("a", 300)
HugeIdent  == RepStr("b", 70000)
LongString == "'" \o RepStr("xy", 40000) \o "'"

-----------------------------------------------------------------------------
(* Expressions, by type.  Columns: t(id,i,s,r,d,tx,vc,b,bo,dt,tm,ts,uu,j,v,n) *)

IntBoundary == << F(<<"0">>), F(<<"-1">>), F(<<"2">>), F(<<"9223372036854775807">>), F(<<"-9223372036854775808">>),
                  F(<<"9223372036854775808">>), F(<<"99999999999999999999">>), F(<<"2147483647">>), F(<<"2147483648">>),
                  F(<<"-2147483649">>), F(<<"32768">>), F(<<"128">>), F(<<"0x7F">>), F(<<"0xFFFFFFFFFFFFFFFF">>),
                  F(<<"0xFFFFFFFFFFFFFFFFFF">>), F(<<"0b101">>),
                  F(<<"0b11111111111111111111111111111111111111111111111111111111111111111">>), F(<<"0o17">>) >>
FloatBoundary == << F(<<"1.5">>), F(<<"0.0">>), F(<<"-0.0">>), F(<<"1e308">>), F(<<"1e309">>), F(<<"-1e309">>), F(<<"1e-400">>),
                    F(<<".5">>), F(<<"5.">>), F(<<"1.e5">>), F(<<"1e">>), F(<<"0.1e-2">>), F(<<"123456789012345678901234567890.5">>) >>

NumAlts ==
  << D(<<"1">>) >> \o IntBoundary \o FloatBoundary \o
  << F(<<"NULL">>), F(<<"i">>), F(<<"id">>), F(<<"s">>), F(<<"r">>), F(<<"d">>), F(<<"n">>), F(<<"t", ".", "i">>), F(<<"nosuch">>),
     F(<<"<Param>">>),
     F(<<"<Num>", "<ArithOp>", "<Num>">>),
     F(<<"-", "<Num>">>), F(<<"+", "<Num>">>), F(<<"~", "<Num>">>), F(<<"(", "<Num>", ")">>),
     F(<<"<Vec>", "<VecOp>", "<Vec>">>),
     F(<<"CAST", "(", "<Expr>", "AS", "<NumType>", ")">>), F(<<"<Expr>", "::", "<NumType>">>),
     F(<<"(", "SELECT", "COUNT", "(", "*", ")", "FROM", "u", ")">>),
     F(<<"(", "SELECT", "i", "FROM", "u", ")">>),                       \* more than one row
     F(<<"(", "SELECT", "u", ".", "i", "FROM", "u", "WHERE", "u", ".", "tid", "=", "t", ".", "id", "LIMIT", "1", ")">>),
     F(<<"CASE", "WHEN", "<Bool>", "THEN", "<Num>", "ELSE", "<Num>", "END">>),
     F(<<"CASE", "<Num>", "WHEN", "<Num>", "THEN", "<Num>", "END">>),
     F(<<"CASE", "WHEN", "<Bool>", "THEN", "<Num>", "WHEN", "<Bool>", "THEN", "<Text>", "END">>),
     F(<<"<Json>", "->", "<JsonKey>">>),
     F(<<"<Arr>", "[", "<IntArg>", "]">>) >> \o
  \* numeric functions (src/sql/functions/numeric.rs)
  << F(<<"ABS", "(", "<Num>", ")">>), F(<<"SIGN", "(", "<Num>", ")">>), F(<<"MOD", "(", "<Num>", ",", "<Num>", ")">>),
     F(<<"DIV", "(", "<Num>", ",", "<Num>", ")">>), F(<<"CEIL", "(", "<Num>", ")">>), F(<<"FLOOR", "(", "<Num>", ")">>),
     F(<<"ROUND", "(", "<Num>", ")">>), F(<<"ROUND", "(", "<Num>", ",", "<IntArg>", ")">>),
     F(<<"TRUNCATE", "(", "<Num>", ",", "<IntArg>", ")">>), F(<<"SQRT", "(", "<Num>", ")">>),
     F(<<"POW", "(", "<Num>", ",", "<Num>", ")">>), F(<<"EXP", "(", "<Num>", ")">>), F(<<"LN", "(", "<Num>", ")">>),
     F(<<"LOG", "(", "<Num>", ")">>), F(<<"LOG", "(", "<Num>", ",", "<Num>", ")">>), F(<<"LOG2", "(", "<Num>", ")">>),
     F(<<"LOG10", "(", "<Num>", ")">>), F(<<"SIN", "(", "<Num>", ")">>), F(<<"ACOS", "(", "<Num>", ")">>),
     F(<<"ATAN2", "(", "<Num>", ",", "<Num>", ")">>), F(<<"COT", "(", "<Num>", ")">>), F(<<"DEGREES", "(", "<Num>", ")">>),
     F(<<"PI", "(", ")">>), F(<<"RAND", "(", ")">>), F(<<"RAND", "(", "<IntArg>", ")">>),
     F(<<"GREATEST", "(", "<Num>", ",", "<Num>", ")">>), F(<<"LEAST", "(", "<Num>", ",", "<Text>", ")">>),
     F(<<"GREATEST", "(", ")">>),
     \* functions of strings / dates that return numbers
     F(<<"LENGTH", "(", "<Text>", ")">>), F(<<"CHAR_LENGTH", "(", "<Text>", ")">>), F(<<"ASCII", "(", "<Text>", ")">>),
     F(<<"INSTR", "(", "<Text>", ",", "<Text>", ")">>), F(<<"LOCATE", "(", "<Text>", ",", "<Text>", ")">>),
     F(<<"LOCATE", "(", "<Text>", ",", "<Text>", ",", "<IntArg>", ")">>), F(<<"POSITION", "(", "<Text>", ",", "<Text>", ")">>),
     F(<<"FIELD", "(", "<Text>", ",", "<Text>", ",", "<Text>", ")">>), F(<<"FIND_IN_SET", "(", "<Text>", ",", "<Text>", ")">>),
     F(<<"STRCMP", "(", "<Text>", ",", "<Text>", ")">>),
     F(<<"YEAR", "(", "<Date>", ")">>), F(<<"MONTH", "(", "<Date>", ")">>), F(<<"DAY", "(", "<Date>", ")">>),
     F(<<"HOUR", "(", "<Date>", ")">>), F(<<"MINUTE", "(", "<Date>", ")">>), F(<<"SECOND", "(", "<Date>", ")">>),
     F(<<"MICROSECOND", "(", "<Date>", ")">>), F(<<"DAYOFWEEK", "(", "<Date>", ")">>), F(<<"DAYOFYEAR", "(", "<Date>", ")">>),
     F(<<"WEEKDAY", "(", "<Date>", ")">>), F(<<"WEEK", "(", "<Date>", ")">>), F(<<"YEARWEEK", "(", "<Date>", ")">>),
     F(<<"QUARTER", "(", "<Date>", ")">>), F(<<"DATEDIFF", "(", "<Date>", ",", "<Date>", ")">>),
     F(<<"TO_DAYS", "(", "<Date>", ")">>), F(<<"TIME_TO_SEC", "(", "<Date>", ")">>),
     F(<<"PERIOD_ADD", "(", "<IntArg>", ",", "<IntArg>", ")">>), F(<<"PERIOD_DIFF", "(", "<IntArg>", ",", "<IntArg>", ")">>),
     F(<<"CONNECTION_ID", "(", ")">>), F(<<"LAST_INSERT_ID", "(", ")">>),
     F(<<"COALESCE", "(", "<Num>", ",", "<Num>", ")">>), F(<<"COALESCE", "(", ")">>), F(<<"IFNULL", "(", "<Num>", ",", "<Num>", ")">>),
     F(<<"NULLIF", "(", "<Num>", ",", "<Num>", ")">>), F(<<"NULLIF", "(", "<Num>", ")">>),
     F(<<"IF", "(", "<Bool>", ",", "<Num>", ",", "<Num>", ")">>), F(<<"IIF", "(", "<Bool>", ",", "<Num>", ",", "<Text>", ")">>),
     F(<<"ISNULL", "(", "<Expr>", ")">>), F(<<"NOSUCHFN", "(", "<Num>", ")">>),
     F(<<"COUNT", "(", "*", ")">>), F(<<"SUM", "(", "<Num>", ")">>) >>

\* integer-like argument of a function: every boundary class, wrong types too
IntArgAlts == << D(<<"1">>), V(<<"0">>), V(<<"-1">>), V(<<"2">>), V(<<"9223372036854775807">>), V(<<"-9223372036854775808">>),
                 V(<<"2147483648">>), V(<<"-2147483649">>), V(<<"400">>), V(<<"-400">>), V(<<"1.5">>), V(<<"1e308">>),
                 V(<<"NULL">>), V(<<"i">>), V(<<"'x'">>), V(<<"'3'">>), V(<<"TRUE">>), V(<<"<Param>">>) >>

TextLits == << F(<<"''">>), F(<<"'it''s'">>), F(<<"'%'">>), F(<<"'_'">>), F(<<"'\\'">>), F(<<"'a\\u00e9\\u4e2d\\ud83d\\ude00z'">>),
               F(<<"'\\u0001'">>), F(<<"' '">>), F(<<"'1'">>), F(<<"'1e5'">>), F(<<"'NULL'">>), F(<<"'a,b,,c'">>),
               F(<<LongString>>) >>

TextAlts ==
  << D(<<"'abc'">>) >> \o TextLits \o
  << F(<<"NULL">>), F(<<"tx">>), F(<<"vc">>), F(<<"t", ".", "tx">>), F(<<"\"tx\"">>), F(<<"<Param>">>),
     F(<<"<Text>", "||", "<Text>">>), F(<<"<Text>", "||", "<Num>">>), F(<<"(", "<Text>", ")">>),
     F(<<"CAST", "(", "<Expr>", "AS", "<TextType>", ")">>), F(<<"<Expr>", "::", "TEXT">>),
     F(<<"<Json>", "->>", "<JsonKey>">>), F(<<"<Json>", "#>>", "<JsonPath>">>),
     F(<<"CASE", "WHEN", "<Bool>", "THEN", "<Text>", "END">>),
     F(<<"(", "SELECT", "tx", "FROM", "u", "ORDER", "BY", "id", "LIMIT", "1", ")">>) >> \o
  \* string functions (src/sql/functions/string.rs)
  << F(<<"UPPER", "(", "<Text>", ")">>), F(<<"LOWER", "(", "<Text>", ")">>), F(<<"LEFT", "(", "<Text>", ",", "<IntArg>", ")">>),
     F(<<"RIGHT", "(", "<Text>", ",", "<IntArg>", ")">>), F(<<"SUBSTR", "(", "<Text>", ",", "<IntArg>", ")">>),
     F(<<"SUBSTR", "(", "<Text>", ",", "<IntArg>", ",", "<IntArg>", ")">>), F(<<"SUBSTRING", "(", "<Text>", ",", "<IntArg>", ",", "<IntArg>", ")">>),
     F(<<"MID", "(", "<Text>", ",", "<IntArg>", ",", "<IntArg>", ")">>),
     F(<<"SUBSTRING_INDEX", "(", "<Text>", ",", "<Text>", ",", "<IntArg>", ")">>),
     F(<<"CONCAT", "(", "<Text>", ",", "<Text>", ")">>), F(<<"CONCAT", "(", ")">>), F(<<"CONCAT_WS", "(", "<Text>", ",", "<Text>", ",", "<Text>", ")">>),
     F(<<"LPAD", "(", "<Text>", ",", "<IntArg>", ",", "<Text>", ")">>), F(<<"RPAD", "(", "<Text>", ",", "<IntArg>", ",", "<Text>", ")">>),
     F(<<"LTRIM", "(", "<Text>", ")">>), F(<<"RTRIM", "(", "<Text>", ")">>), F(<<"TRIM", "(", "<Text>", ")">>),
     F(<<"REPLACE", "(", "<Text>", ",", "<Text>", ",", "<Text>", ")">>), F(<<"REVERSE", "(", "<Text>", ")">>),
     F(<<"REPEAT", "(", "<Text>", ",", "<IntArg>", ")">>), F(<<"SPACE", "(", "<IntArg>", ")">>),
     F(<<"INSERT", "(", "<Text>", ",", "<IntArg>", ",", "<IntArg>", ",", "<Text>", ")">>),
     F(<<"FORMAT", "(", "<Num>", ",", "<IntArg>", ")">>), F(<<"BIN", "(", "<IntArg>", ")">>),
     F(<<"CONV", "(", "<Text>", ",", "<IntArg>", ",", "<IntArg>", ")">>), F(<<"TYPEOF", "(", "<Expr>", ")">>),
     F(<<"VERSION", "(", ")">>), F(<<"DATABASE", "(", ")">>), F(<<"USER", "(", ")">>),
     F(<<"DAYNAME", "(", "<Date>", ")">>), F(<<"MONTHNAME", "(", "<Date>", ")">>),
     F(<<"DATE_FORMAT", "(", "<Date>", ",", "<Fmt>", ")">>), F(<<"TIME_FORMAT", "(", "<Date>", ",", "<Fmt>", ")">>),
     F(<<"UPPER", "(", ")">>), F(<<"UPPER", "(", "<Text>", ",", "<Text>", ")">>) >>

\* the date / time literals are boundary values of a VALUE SLOT (function x malformed date is one feature + one value)
DateAlts ==
  << D(<<"'2024-01-02'">>), V(<<"dt">>), V(<<"tm">>), V(<<"ts">>), V(<<"NULL">>), V(<<"'0000-00-00'">>), V(<<"'9999-12-31'">>),
     V(<<"'2024-13-45'">>), V(<<"'2024-02-30'">>), V(<<"''">>), V(<<"'x'">>), V(<<"1">>), V(<<"'10:11:12'">>), V(<<"'838:59:59'">>),
     V(<<"'-838:59:59'">>), V(<<"'2024-01-02 10:11:12'">>), V(<<"'2024-01-02T10:11:12.123456789Z'">>), V(<<"'99999-01-01'">>),
     V(<<"'-0001-01-01'">>), V(<<"'2024-1-2'">>), V(<<"'24:00:00'">>), V(<<"<Param>">>),
     F(<<"NOW", "(", ")">>), F(<<"CURRENT_DATE", "(", ")">>), F(<<"CURRENT_TIMESTAMP">>), F(<<"CURTIME", "(", ")">>),
     F(<<"DATE", "(", "<Date>", ")">>), F(<<"TIME", "(", "<Date>", ")">>), F(<<"TIMESTAMP", "(", "<Date>", ")">>),
     F(<<"DATE_ADD", "(", "<Date>", ",", "<IntArg>", ")">>), F(<<"DATE_SUB", "(", "<Date>", ",", "<IntArg>", ")">>),
     F(<<"ADDTIME", "(", "<Date>", ",", "<Date>", ")">>), F(<<"SUBTIME", "(", "<Date>", ",", "<Date>", ")">>),
     F(<<"TIMEDIFF", "(", "<Date>", ",", "<Date>", ")">>), F(<<"FROM_DAYS", "(", "<IntArg>", ")">>),
     F(<<"SEC_TO_TIME", "(", "<IntArg>", ")">>), F(<<"MAKEDATE", "(", "<IntArg>", ",", "<IntArg>", ")">>),
     F(<<"MAKETIME", "(", "<IntArg>", ",", "<IntArg>", ",", "<IntArg>", ")">>), F(<<"LAST_DAY", "(", "<Date>", ")">>),
     F(<<"STR_TO_DATE", "(", "<Text>", ",", "<Fmt>", ")">>),
     F(<<"CAST", "(", "<Expr>", "AS", "<DateType>", ")">>), F(<<"<Text>", "::", "<DateType>">>) >>

FmtAlts == << D(<<"'%Y-%m-%d'">>), V(<<"'%'">>), V(<<"'%%'">>), V(<<"'%Q'">>), V(<<"''">>), V(<<"'%H:%i:%s.%f'">>), V(<<"'%Y%'">>),
              V(<<"'%a %b %c %D %d %e %f %H %h %I %i %j %k %l %M %m %p %r %S %s %T %U %u %V %v %W %w %X %x %Y %y'">>),
              V(<<"NULL">>), V(<<"1">>) >>

BoolAlts ==
  << D(<<"i", ">", "1">>), F(<<"TRUE">>), F(<<"FALSE">>), F(<<"NULL">>), F(<<"bo">>), F(<<"<Param>">>),
     F(<<"<Num>", "<CmpOp>", "<Num>">>), F(<<"<Text>", "<CmpOp>", "<Text>">>), F(<<"<Date>", "<CmpOp>", "<Date>">>),
     F(<<"<Num>", "<CmpOp>", "<Text>">>), F(<<"<Expr>", "=", "<Expr>">>),
     F(<<"<Bool>", "AND", "<Bool>">>), F(<<"<Bool>", "OR", "<Bool>">>), F(<<"NOT", "<Bool>">>), F(<<"(", "<Bool>", ")">>),
     F(<<"<Expr>", "IS", "NULL">>), F(<<"<Expr>", "IS", "NOT", "NULL">>),
     F(<<"<Expr>", "IS", "DISTINCT", "FROM", "<Expr>">>), F(<<"<Expr>", "IS", "NOT", "DISTINCT", "FROM", "<Expr>">>),
     F(<<"<Num>", "BETWEEN", "<Num>", "AND", "<Num>">>), F(<<"<Num>", "NOT", "BETWEEN", "<Num>", "AND", "<Num>">>),
     F(<<"<Text>", "BETWEEN", "<Text>", "AND", "<Text>">>),
     F(<<"<Num>", "IN", "(", "<NumList>", ")">>), F(<<"<Num>", "NOT", "IN", "(", "<NumList>", ")">>),
     F(<<"<Text>", "IN", "(", "<Text>", ",", "<Text>", ")">>),
     F(<<"<Num>", "IN", "(", "SELECT", "i", "FROM", "u", ")">>), F(<<"<Num>", "NOT", "IN", "(", "SELECT", "i", "FROM", "u", ")">>),
     F(<<"<Num>", "IN", "(", "SELECT", "*", "FROM", "u", ")">>), F(<<"<Num>", "IN", "(", ")">>),
     F(<<"(", "<Num>", ",", "<Num>", ")", "=", "(", "<Num>", ",", "<Num>", ")">>),
     F(<<"(", "<Num>", ",", "<Num>", ")", "IN", "(", "SELECT", "id", ",", "i", "FROM", "u", ")">>),
     F(<<"EXISTS", "(", "SELECT", "1", "FROM", "u", "WHERE", "u", ".", "tid", "=", "t", ".", "id", ")">>),
     F(<<"NOT", "EXISTS", "(", "SELECT", "*", "FROM", "u", "WHERE", "<Bool>", ")">>),
     F(<<"<Text>", "<LikeOp>", "<Pattern>">>), F(<<"<Text>", "NOT", "<LikeOp>", "<Pattern>">>),
     F(<<"<Text>", "<LikeOp>", "<Pattern>", "ESCAPE", "<Escape>">>), F(<<"<Num>", "LIKE", "<Pattern>">>),
     F(<<"<Json>", "@>", "<Json>">>), F(<<"<Json>", "<@", "<Json>">>), F(<<"<Arr>", "&&", "<Arr>">>),
     F(<<"CAST", "(", "<Expr>", "AS", "BOOLEAN", ")">>), F(<<"<Expr>", "::", "BOOL">>),
     F(<<"CASE", "WHEN", "<Bool>", "THEN", "<Bool>", "ELSE", "<Bool>", "END">>),
     F(<<"<Num>">>), F(<<"<Text>">>) >>

PatternAlts == << D(<<"'a%'">>), V(<<"'%'">>), V(<<"'_'">>), V(<<"''">>), V(<<"'\\'">>), V(<<"'%\\'">>), V(<<"'\\%'">>), V(<<"'!%'">>),
                  V(<<"'%%%%%%%%%%%%%%%%%%%%%%%%%%%%%%%%%%%%%%%%b'">>), V(<<"'%a%b%c%d%e%f%g%h%'">>), V(<<"'_%_%_%_'">>),
                  V(<<"'[a-z]'">>), V(<<"'\\u00e9%'">>), V(<<"'%\\ud83d\\ude00'">>), V(<<"NULL">>), V(<<"1">>), V(<<"tx">>),
                  V(<<"<Param>">>), V(<<LongString>>) >>
EscapeAlts  == << D(<<"'!'">>), V(<<"''">>), V(<<"'ab'">>), V(<<"'%'">>), V(<<"'\\'">>), V(<<"'\\u00e9'">>), V(<<"NULL">>), V(<<"1">>) >>

VecAlts == << D(<<"v">>), F(<<"'[1,2,3]'">>), F(<<"'[1,2]'">>), F(<<"'[]'">>), F(<<"'[1e39,0,0]'">>), F(<<"'[NaN,1,2]'">>),
              F(<<"'[1,2,3'">>), F(<<"'x'">>), F(<<"''">>), F(<<"'[1,,3]'">>), F(<<"'[0,0,0]'">>), F(<<"NULL">>), F(<<"1">>),
              F(<<"[", "1", ",", "2", ",", "3", "]">>), F(<<"ARRAY", "[", "1.5", ",", "2", ",", "3", "]">>), F(<<"[", "]">>),
              F(<<"CAST", "(", "<Vec>", "AS", "VECTOR", "(", "<TypeLen>", ")", ")">>), F(<<"<Param>">>),
              F(<<"(", "SELECT", "v", "FROM", "e", "LIMIT", "1", ")">>) >>

JsonAlts == << D(<<"j">>), F(<<"'{\"a\":1,\"b\":[1,2,{\"c\":null}]}'">>), F(<<"'{\"a\":'">>), F(<<"'[]'">>), F(<<"'{}'">>), F(<<"'null'">>),
               F(<<"'1e999'">>), F(<<"'\"\\\\ud800\"'">>), F(<<"'{\"a\":1,\"a\":2}'">>), F(<<"''">>), F(<<"'[[[[[[[[[[[[[[[[[[[[[[[[[[[[[[[[1]]]]]]]]]]]]]]]]]]]]]]]]]]]]]]]]'">>),
               F(<<"NULL">>), F(<<"1">>), F(<<"<Param>">>),
               F(<<"<Json>", "->", "<JsonKey>">>), F(<<"<Json>", "#>", "<JsonPath>">>),
               F(<<"CAST", "(", "<Text>", "AS", "JSONB", ")">>), F(<<"<Text>", "::", "JSON">>) >>
JsonKeyAlts  == << D(<<"'a'">>), V(<<"'b'">>), V(<<"'nosuch'">>), V(<<"''">>), V(<<"0">>), V(<<"1">>), V(<<"-1">>), V(<<"9223372036854775807">>),
                   V(<<"-9223372036854775808">>), V(<<"1.5">>), V(<<"NULL">>), V(<<"tx">>), V(<<"<Param>">>) >>
JsonPathAlts == << D(<<"'{b,2,c}'">>), V(<<"'{a}'">>), V(<<"'{'">>), V(<<"'}'">>), V(<<"'{}'">>), V(<<"'{a,,}'">>), V(<<"''">>), V(<<"'{b,-1}'">>),
                   V(<<"'{b,99999999999999999999}'">>), V(<<"'$.a'">>), V(<<"'{\\u00e9}'">>), V(<<"NULL">>), V(<<"1">>),
                   V(<<"ARRAY", "[", "'b'", ",", "'0'", "]">>) >>

ArrAlts == << D(<<"ARRAY", "[", "1", ",", "2", "]">>), F(<<"[", "1", ",", "2", "]">>), F(<<"ARRAY", "[", "]">>), F(<<"[", "]">>),
              F(<<"ARRAY", "[", "1", ",", "'a'", ",", "NULL", "]">>), F(<<"ARRAY", "[", "<Arr>", ",", "<Arr>", "]">>),
              F(<<"<Arr>", "[", "<IntArg>", ":", "<IntArg>", "]">>), F(<<"<Arr>", "[", "<IntArg>", ":", "]">>),
              F(<<"v">>), F(<<"j">>), F(<<"tx">>), F(<<"NULL">>) >>

ExprAlts == << D(<<"<Num>">>), D(<<"<Text>">>), D(<<"<Bool>">>), D(<<"<Date>">>), D(<<"<Json>">>), D(<<"<Arr>">>),
               D(<<"<Vec>", "<VecOp>", "<Vec>">>), D(<<"<Misc>">>) >>

MiscAlts == << D(<<"NULL">>), F(<<"b">>), F(<<"uu">>), F(<<"x'00ff'">>), F(<<"x''">>), F(<<"x'0'">>), F(<<"X'ABCDEF'">>),
               F(<<"'550e8400-e29b-41d4-a716-446655440000'", "::", "UUID">>), F(<<"CAST", "(", "<Text>", "AS", "UUID", ")">>),
               F(<<"CAST", "(", "<Expr>", "AS", "<AnyType>", ")">>), F(<<"<Expr>", "::", "<AnyType>">>),
               F(<<"(", "<Expr>", ",", "<Expr>", ")">>), F(<<"(", "SELECT", "*", "FROM", "u", ")">>),
               F(<<"(", "SELECT", "<Expr>", ")">>), F(<<"(", "WITH", "c", "AS", "(", "SELECT", "1", ")", "SELECT", "*", "FROM", "c", ")">>),
               F(<<"select">>), F(<<"\"\"">>), F(<<"`tx`">>), F(<<LongIdent>>), F(<<"root", ".", "t", ".", "i">>), F(<<"t", ".", "nosuch">>),
               F(<<"nosuch", ".", "i">>), F(<<"*">>), F(<<"DEFAULT">>), F(<<"<Param>">>),
               F(<<"COUNT", "(", "DISTINCT", "<Expr>", ")">>), F(<<"<Agg>", "(", "<Expr>", ")", "FILTER", "(", "WHERE", "<Bool>", ")">>),
               F(<<"<Agg>", "(", "<Agg>", "(", "<Expr>", ")", ")">>) >>

ParamAlts == << D(<<"?">>), V(<<"$1">>), V(<<"$2">>), V(<<"$0">>), V(<<"$99999999999999999999">>), V(<<"$4294967296">>),
                V(<<":name">>), V(<<"@name">>), V(<<"?1">>), V(<<"$">>), V(<<":">>), V(<<"@">>) >>

NumListAlts == << D(<<"1", ",", "2">>), F(<<"<Num>">>), F(<<"<Num>", ",", "<NumList>">>), F(<<"1", ",", "NULL">>), F(<<"1", ",", "'a'">>),
                  F(<<"NULL">>) >>

Ops == ("<ArithOp>" :> << D(<<"+">>), F(<<"-">>), F(<<"*">>), F(<<"/">>), F(<<"%">>), F(<<"^">>), F(<<"&">>), F(<<"|">>), F(<<"<<">>), F(<<">>">>), F(<<"||">>) >>)
    @@ ("<CmpOp>" :> << D(<<"=">>), F(<<"<>">>), F(<<"!=">>), F(<<"<">>), F(<<"<=">>), F(<<">">>), F(<<">=">>) >>)
    @@ ("<VecOp>" :> << D(<<"<->">>), F(<<"<#>">>), F(<<"<=>">>) >>)
    @@ ("<LikeOp>" :> << D(<<"LIKE">>), F(<<"ILIKE">>) >>)
    @@ ("<Agg>" :> << D(<<"COUNT">>), F(<<"SUM">>), F(<<"AVG">>), F(<<"MIN">>), F(<<"MAX">>), F(<<"GROUP_CONCAT">>), F(<<"NOSUCHAGG">>) >>)

Types == ("<NumType>" :> << D(<<"INT">>), F(<<"INTEGER">>), F(<<"BIGINT">>), F(<<"SMALLINT">>), F(<<"TINYINT">>), F(<<"REAL">>), F(<<"FLOAT">>),
                            F(<<"DOUBLE", "PRECISION">>), F(<<"DOUBLE">>), F(<<"DECIMAL">>), F(<<"DECIMAL", "(", "10", ",", "2", ")">>),
                            F(<<"NUMERIC", "(", "<TypeLen>", ",", "<TypeLen>", ")">>), F(<<"NUMERIC", "(", "<TypeLen>", ")">>),
                            F(<<"SERIAL">>), F(<<"BIGSERIAL">>), F(<<"SMALLSERIAL">>) >>)
      @@ ("<TextType>" :> << D(<<"TEXT">>), F(<<"VARCHAR">>), F(<<"VARCHAR", "(", "<TypeLen>", ")">>), F(<<"CHAR", "(", "<TypeLen>", ")">>),
                             F(<<"CHAR">>), F(<<"CHARACTER", "VARYING", "(", "<TypeLen>", ")">>) >>)
      @@ ("<DateType>" :> << D(<<"DATE">>), F(<<"TIME">>), F(<<"TIMESTAMP">>), F(<<"DATETIME">>), F(<<"TIMESTAMPTZ">>),
                             F(<<"TIMESTAMP", "WITH", "TIME", "ZONE">>), F(<<"TIMESTAMP", "WITHOUT", "TIME", "ZONE">>), F(<<"INTERVAL">>) >>)
      @@ ("<AnyType>" :> << D(<<"<NumType>">>), D(<<"<TextType>">>), D(<<"<DateType>">>), D(<<"<OtherType>">>) >>)
      @@ ("<OtherType>" :> << D(<<"BLOB">>), F(<<"BOOLEAN">>), F(<<"BOOL">>), F(<<"UUID">>), F(<<"JSON">>), F(<<"JSONB">>), F(<<"VECTOR">>),
                              F(<<"VECTOR", "(", "<TypeLen>", ")">>), F(<<"POINT">>), F(<<"BOX">>), F(<<"CIRCLE">>), F(<<"MACADDR">>), F(<<"INET">>),
                              F(<<"INT4RANGE">>), F(<<"INT8RANGE">>), F(<<"DATERANGE">>), F(<<"TSRANGE">>), F(<<"mytype">>), F(<<"select">>) >>)
      @@ ("<TypeLen>" :> << D(<<"3">>), V(<<"0">>), V(<<"1">>), V(<<"10">>), V(<<"255">>), V(<<"65535">>), V(<<"65536">>), V(<<"16384">>),
                            V(<<"4294967295">>), V(<<"4294967296">>), V(<<"99999999999999999999">>), V(<<"-1">>), V(<<"1.5">>), V(<<"'3'">>) >>)

ExprProd == ("<Expr>" :> ExprAlts) @@ ("<Num>" :> NumAlts) @@ ("<IntArg>" :> IntArgAlts) @@ ("<Text>" :> TextAlts)
         @@ ("<Date>" :> DateAlts) @@ ("<Fmt>" :> FmtAlts) @@ ("<Bool>" :> BoolAlts) @@ ("<Pattern>" :> PatternAlts)
         @@ ("<Escape>" :> EscapeAlts) @@ ("<Vec>" :> VecAlts) @@ ("<Json>" :> JsonAlts) @@ ("<JsonKey>" :> JsonKeyAlts)
         @@ ("<JsonPath>" :> JsonPathAlts) @@ ("<Arr>" :> ArrAlts) @@ ("<Misc>" :> MiscAlts) @@ ("<Param>" :> ParamAlts)
         @@ ("<NumList>" :> NumListAlts) @@ Ops @@ Types

-----------------------------------------------------------------------------
(* Queries *)

QueryProd ==
     ("<QSelect>" :> << D(<<"<With>", "SELECT", "<Distinct>", "<SelList>", "<From>", "<Where>", "<GroupBy>", "<Having>", "<OrderBy>",
                           "<Limit>", "<Offset>", "<SetTail>", "<ForClause>">>) >>)
  @@ ("<QExpr>"   :> << D(<<"SELECT", "<Expr>", "<Alias>", "<ExprFrom>">>) >>)
  @@ ("<ExprFrom>" :> << D(<<"FROM", "t">>), F(<<>>), F(<<"FROM", "t", "WHERE", "id", "=", "1">>), F(<<"FROM", "e">>) >>)
  @@ ("<QWhere>"  :> << D(<<"SELECT", "id", "FROM", "<WhereTable>", "WHERE", "<Bool>">>) >>)
  @@ ("<WhereTable>" :> << D(<<"t">>), F(<<"u">>), F(<<"t", "AS", "u">>), F(<<"e">>) >>)
  @@ ("<QAgg>"    :> << D(<<"SELECT", "<AggList>", "FROM", "t", "<Where>", "<GroupBy>", "<Having>", "<OrderBy>">>) >>)
  @@ ("<AggList>" :> << D(<<"<AggItem>">>), F(<<"<AggItem>", ",", "<AggList>">>), F(<<"bo", ",", "<AggItem>">>) >>)
  @@ ("<AggItem>" :> << D(<<"COUNT", "(", "*", ")">>), F(<<"<Agg>", "(", "<AggArg>", ")">>), F(<<"<Agg>", "(", "DISTINCT", "<AggArg>", ")">>),
                        F(<<"<Agg>", "(", "<AggArg>", ")", "FILTER", "(", "WHERE", "<Bool>", ")">>), F(<<"<Agg>", "(", ")">>),
                        F(<<"<Agg>", "(", "*", ")">>), F(<<"<Agg>", "(", "<AggArg>", ",", "<AggArg>", ")">>),
                        F(<<"<Agg>", "(", "<AggArg>", ")", "+", "<Num>">>), F(<<"<Agg>", "(", "<Agg>", "(", "i", ")", ")">>) >>)
  @@ ("<AggArg>"  :> << D(<<"i">>), F(<<"id">>), F(<<"r">>), F(<<"d">>), F(<<"n">>), F(<<"tx">>), F(<<"bo">>), F(<<"dt">>), F(<<"b">>), F(<<"v">>),
                        F(<<"j">>), F(<<"uu">>), F(<<"NULL">>), F(<<"9223372036854775807">>), F(<<"<Num>">>), F(<<"<Text>">>) >>)
  @@ ("<QWin>"    :> << D(<<"SELECT", "id", ",", "<WinFn>", "OVER", "<WinSpec>", "FROM", "t", "<OrderBy>">>) >>)
  @@ ("<WinFn>"   :> << D(<<"ROW_NUMBER", "(", ")">>), F(<<"RANK", "(", ")">>), F(<<"DENSE_RANK", "(", ")">>), F(<<"NTILE", "(", "<IntArg>", ")">>),
                        F(<<"LAG", "(", "i", ")">>), F(<<"LAG", "(", "i", ",", "<IntArg>", ")">>), F(<<"LEAD", "(", "i", ",", "<IntArg>", ",", "<Num>", ")">>),
                        F(<<"FIRST_VALUE", "(", "<AggArg>", ")">>), F(<<"LAST_VALUE", "(", "<AggArg>", ")">>), F(<<"NTH_VALUE", "(", "i", ",", "<IntArg>", ")">>),
                        F(<<"<Agg>", "(", "<AggArg>", ")">>), F(<<"PERCENT_RANK", "(", ")">>), F(<<"CUME_DIST", "(", ")">>), F(<<"ABS", "(", "i", ")">>) >>)
  @@ ("<WinSpec>" :> << D(<<"(", "<PartBy>", "<WinOrder>", "<Frame>", ")">>) >>)
  @@ ("<PartBy>"  :> << D(<<>>), F(<<"PARTITION", "BY", "bo">>), F(<<"PARTITION", "BY", "<Expr>">>), F(<<"PARTITION", "BY", "bo", ",", "i">>) >>)
  @@ ("<WinOrder>" :> << D(<<"ORDER", "BY", "id">>), F(<<>>), F(<<"ORDER", "BY", "<Expr>", "<Dir>">>), F(<<"ORDER", "BY", "i", "DESC", "NULLS", "FIRST", ",", "id">>) >>)
  @@ ("<Frame>"   :> << D(<<>>), F(<<"ROWS", "<Bound>">>), F(<<"ROWS", "BETWEEN", "<Bound>", "AND", "<Bound>">>), F(<<"RANGE", "BETWEEN", "<Bound>", "AND", "<Bound>">>),
                        F(<<"ROWS", "<Bound>", "AND", "<Bound>">>), F(<<"CURRENT", "ROW">>) >>)
  @@ ("<Bound>"   :> << D(<<"UNBOUNDED", "PRECEDING">>), V(<<"CURRENT", "ROW">>), V(<<"UNBOUNDED", "FOLLOWING">>), V(<<"1", "PRECEDING">>),
                        V(<<"1", "FOLLOWING">>), V(<<"0", "PRECEDING">>), V(<<"18446744073709551615", "FOLLOWING">>),
                        V(<<"99999999999999999999", "PRECEDING">>), V(<<"-1", "PRECEDING">>) >>)
  @@ ("<QJoin>"   :> << D(<<"SELECT", "<JoinCols>", "FROM", "t", "<JoinOp>", "u", "<JoinCond>", "<MoreJoin>", "<Where>", "<OrderBy>", "<Limit>">>) >>)
  @@ ("<JoinCols>" :> << D(<<"t", ".", "id", ",", "u", ".", "tx">>), F(<<"*">>), F(<<"t", ".", "*">>), F(<<"u", ".", "*", ",", "t", ".", "*">>), F(<<"id">>),
                         F(<<"COUNT", "(", "*", ")">>), F(<<"t", ".", "v", ",", "t", ".", "j", ",", "u", ".", "i">>), F(<<"<Expr>">>) >>)
  @@ ("<JoinOp>"  :> << D(<<"JOIN">>), F(<<"INNER", "JOIN">>), F(<<"LEFT", "JOIN">>), F(<<"LEFT", "OUTER", "JOIN">>), F(<<"RIGHT", "JOIN">>),
                        F(<<"FULL", "OUTER", "JOIN">>), F(<<"CROSS", "JOIN">>), F(<<",">>), F(<<"NATURAL", "JOIN">>), F(<<"NATURAL", "LEFT", "JOIN">>),
                        F(<<"LEFT">>), F(<<"INNER">>) >>)
  @@ ("<JoinCond>" :> << D(<<"ON", "u", ".", "tid", "=", "t", ".", "id">>), F(<<>>), F(<<"USING", "(", "id", ")">>), F(<<"USING", "(", "id", ",", "i", ")">>),
                         F(<<"USING", "(", "nosuch", ")">>), F(<<"ON", "<Bool>">>), F(<<"ON", "TRUE">>), F(<<"ON", "u", ".", "tx", "=", "t", ".", "tx">>),
                         F(<<"ON", "u", ".", "tid", "<", "t", ".", "id">>), F(<<"ON", "u", ".", "tid", "=", "t", ".", "id", "AND", "u", ".", "i", ">", "t", ".", "i">>),
                         F(<<"ON", "1">>), F(<<"ON", "NULL">>) >>)
  @@ ("<MoreJoin>" :> << D(<<>>), F(<<"<JoinOp>", "e", "ON", "e", ".", "id", "=", "t", ".", "id">>), F(<<"<JoinOp>", "u", "AS", "u2", "ON", "u2", ".", "id", "=", "u", ".", "id">>),
                         F(<<"<JoinOp>", "t", "<JoinCond>">>), F(<<"<JoinOp>", "(", "SELECT", "*", "FROM", "e", ")", "AS", "s", "ON", "s", ".", "id", "=", "t", ".", "id">>),
                         F(<<"<JoinOp>", "LATERAL", "(", "SELECT", "*", "FROM", "e", "WHERE", "e", ".", "id", "=", "t", ".", "id", ")", "AS", "l", "ON", "TRUE">>) >>)
  @@ ("<QSet>"    :> << D(<<"<SimpleSel>", "<SetOp>", "<SimpleSel>", "<SetMore>">>) >>)
  @@ ("<SimpleSel>" :> << D(<<"SELECT", "id", "FROM", "t">>), F(<<"SELECT", "id", "FROM", "u">>), F(<<"SELECT", "id", ",", "i", "FROM", "u">>), F(<<"SELECT", "tx", "FROM", "t">>),
                          F(<<"SELECT", "1">>), F(<<"SELECT", "*", "FROM", "t">>), F(<<"SELECT", "NULL", "FROM", "u">>), F(<<"SELECT", "id", "FROM", "t", "WHERE", "<Bool>">>),
                          F(<<"SELECT", "id", "FROM", "t", "ORDER", "BY", "id", "LIMIT", "1">>), F(<<"(", "SELECT", "id", "FROM", "t", ")">>),
                          F(<<"SELECT", "v", "FROM", "t">>), F(<<"SELECT", "COUNT", "(", "*", ")", "FROM", "t">>) >>)
  @@ ("<SetOp>"   :> << D(<<"UNION">>), F(<<"UNION", "ALL">>), F(<<"INTERSECT">>), F(<<"EXCEPT">>), F(<<"INTERSECT", "ALL">>), F(<<"EXCEPT", "ALL">>), F(<<"UNION", "DISTINCT">>) >>)
  @@ ("<SetMore>" :> << D(<<>>), F(<<"<SetOp>", "<SimpleSel>", "<SetMore>">>), F(<<"ORDER", "BY", "1">>), F(<<"ORDER", "BY", "id", "LIMIT", "<LimitVal>">>), F(<<"LIMIT", "<LimitVal>">>) >>)
  @@ ("<QCte>"    :> << D(<<"WITH", "<CteList>", "SELECT", "*", "FROM", "c", "<Where>">>) >>)
  @@ ("<CteList>" :> << D(<<"c", "AS", "(", "SELECT", "id", ",", "i", "FROM", "t", ")">>), F(<<"c", "(", "id", ",", "i", ")", "AS", "(", "SELECT", "id", ",", "i", "FROM", "u", ")">>),
                        F(<<"c", "(", "id", ")", "AS", "(", "SELECT", "id", ",", "i", "FROM", "u", ")">>), F(<<"c", "AS", "(", "SELECT", "1", "AS", "id", ",", "2", "AS", "i", ")">>),
                        F(<<"b", "AS", "(", "SELECT", "id", "FROM", "u", ")", ",", "c", "AS", "(", "SELECT", "id", ",", "id", "AS", "i", "FROM", "b", ")">>),
                        F(<<"c", "AS", "(", "SELECT", "id", ",", "i", "FROM", "c", ")">>),
                        F(<<"RECURSIVE", "c", "(", "id", ",", "i", ")", "AS", "(", "SELECT", "1", ",", "1", "UNION", "ALL", "SELECT", "id", "+", "1", ",", "i", "FROM", "c", "WHERE", "id", "<", "5", ")">>),
                        F(<<"RECURSIVE", "c", "(", "id", ",", "i", ")", "AS", "(", "SELECT", "1", ",", "1", "UNION", "ALL", "SELECT", "id", ",", "i", "FROM", "c", ")">>),
                        F(<<"c", "AS", "(", "SELECT", "id", ",", "i", "FROM", "t", ")", ",", "c", "AS", "(", "SELECT", "id", ",", "i", "FROM", "u", ")">>),
                        F(<<"t", "AS", "(", "SELECT", "id", ",", "i", "FROM", "u", ")", ",", "c", "AS", "(", "SELECT", "id", ",", "i", "FROM", "t", ")">>),
                        F(<<"c", "AS", "(", "<QSet>", ")">>) >>)
  @@ ("<QSub>"    :> << D(<<"SELECT", "*", "FROM", "(", "<SubSel>", ")", "<Alias>", "<Where>">>), D(<<"SELECT", "id", ",", "(", "<SubSel>", ")", "FROM", "t">>),
                        D(<<"SELECT", "id", "FROM", "t", "WHERE", "id", "<SubCmp>", "(", "<SubSel>", ")">>) >>)
  @@ ("<SubCmp>"  :> << D(<<"IN">>), F(<<"NOT", "IN">>), F(<<"=">>), F(<<">">>), F(<<"=", "ANY">>), F(<<">", "ALL">>), F(<<"=", "SOME">>) >>)
  @@ ("<SubSel>"  :> << D(<<"SELECT", "id", "FROM", "u">>), F(<<"SELECT", "tid", "FROM", "u", "WHERE", "u", ".", "tid", "=", "t", ".", "id">>),
                        F(<<"SELECT", "MAX", "(", "i", ")", "FROM", "u">>), F(<<"SELECT", "id", ",", "i", "FROM", "u">>), F(<<"SELECT", "NULL">>),
                        F(<<"SELECT", "id", "FROM", "u", "WHERE", "FALSE">>), F(<<"SELECT", "id", "FROM", "u", "ORDER", "BY", "id", "LIMIT", "1">>),
                        F(<<"SELECT", "id", "FROM", "(", "<SubSel>", ")", "AS", "z">>), F(<<"SELECT", "*", "FROM", "u">>), F(<<"<QSet>">>),
                        F(<<"SELECT", "id", "FROM", "u", "WHERE", "id", "IN", "(", "<SubSel>", ")">>), F(<<"SELECT", "COUNT", "(", "*", ")", "FROM", "u", "GROUP", "BY", "tid">>),
                        F(<<"WITH", "c", "AS", "(", "SELECT", "id", "FROM", "u", ")", "SELECT", "id", "FROM", "c">>) >>)
  \* clause slots of the full SELECT frame
  @@ ("<With>"    :> << D(<<>>), F(<<"WITH", "<CteList>">>) >>)
  @@ ("<Distinct>" :> << D(<<>>), F(<<"DISTINCT">>), F(<<"ALL">>), F(<<"DISTINCT", "ALL">>) >>)
  @@ ("<SelList>" :> << D(<<"*">>), F(<<"<SelItem>">>), F(<<"<SelItem>", ",", "<SelList>">>), F(<<"*", ",", "*">>), F(<<"t", ".", "*">>), F(<<"nosuch", ".", "*">>), F(<<>>) >>)
  @@ ("<SelItem>" :> << D(<<"id">>), F(<<"<Expr>", "<Alias>">>), F(<<"i">>), F(<<"tx">>), F(<<"v">>), F(<<"j">>), F(<<"b">>), F(<<"uu">>), F(<<"n">>), F(<<"dt">>), F(<<"tm">>),
                        F(<<"ts">>), F(<<"bo">>), F(<<"r">>), F(<<"d">>), F(<<"s">>), F(<<"vc">>), F(<<"id", "<Alias>">>), F(<<"COUNT", "(", "*", ")">>) >>)
  @@ ("<Alias>"   :> << D(<<>>), F(<<"AS", "x">>), F(<<"x">>), F(<<"AS", "\"q x\"">>), F(<<"AS", "select">>), F(<<"AS", LongIdent>>), F(<<"AS", "id">>), F(<<"AS", "`bt`">>),
                        F(<<"AS", "'str'">>), F(<<"AS", "1">>), F(<<"AS">>) >>)
  @@ ("<From>"    :> << D(<<"FROM", "t">>), F(<<>>), F(<<"FROM", "u">>), F(<<"FROM", "e">>), F(<<"FROM", "t", "AS", "a">>), F(<<"FROM", "t", "a">>), F(<<"FROM", "root", ".", "t">>),
                        F(<<"FROM", "nosuch">>), F(<<"FROM", "nosuch", ".", "t">>), F(<<"FROM", "t", ",", "u">>), F(<<"FROM", "(", "t", ")">>), F(<<"FROM", "(", "t", "JOIN", "u", "ON", "TRUE", ")">>),
                        F(<<"FROM", "t", "<JoinOp>", "u", "<JoinCond>">>), F(<<"FROM", "(", "<SubSel>", ")", "<Alias>">>), F(<<"FROM", "t", ",", "t">>),
                        F(<<"FROM", "LATERAL", "(", "SELECT", "1", ")", "AS", "l">>), F(<<"FROM", "\"t\"">>), F(<<"FROM", "T">>), F(<<"FROM", "turdb_catalog">>), F(<<"FROM", "select">>) >>)
  @@ ("<Where>"   :> << D(<<>>), F(<<"WHERE", "<Bool>">>), F(<<"WHERE", "id", "=", "<Num>">>), F(<<"WHERE", "i", "=", "<Num>">>), F(<<"WHERE", "i", "<CmpOp>", "<Num>">>),
                        F(<<"WHERE", "id", "BETWEEN", "<Num>", "AND", "<Num>">>), F(<<"WHERE", "tx", "=", "<Text>">>), F(<<"WHERE", "id", "=", "1", "OR", "id", "=", "2">>),
                        F(<<"WHERE", "id", "IN", "(", "<NumList>", ")">>), F(<<"WHERE">>) >>)
  @@ ("<GroupBy>" :> << D(<<>>), F(<<"GROUP", "BY", "bo">>), F(<<"GROUP", "BY", "<Expr>">>), F(<<"GROUP", "BY", "bo", ",", "i">>), F(<<"GROUP", "BY", "1">>), F(<<"GROUP", "BY", "nosuch">>),
                        F(<<"GROUP", "BY", "v">>), F(<<"GROUP", "BY", "j">>), F(<<"GROUP", "BY">>) >>)
  @@ ("<Having>"  :> << D(<<>>), F(<<"HAVING", "COUNT", "(", "*", ")", ">", "0">>), F(<<"HAVING", "<Bool>">>), F(<<"HAVING", "<Agg>", "(", "<AggArg>", ")", "<CmpOp>", "<Num>">>) >>)
  @@ ("<OrderBy>" :> << D(<<>>), F(<<"ORDER", "BY", "id">>), F(<<"ORDER", "BY", "<Expr>", "<Dir>">>), F(<<"ORDER", "BY", "i", "<Dir>", ",", "id", "<Dir>">>), F(<<"ORDER", "BY", "1">>),
                        F(<<"ORDER", "BY", "0">>), F(<<"ORDER", "BY", "99">>), F(<<"ORDER", "BY", "-1">>), F(<<"ORDER", "BY", "nosuch">>), F(<<"ORDER", "BY", "v", "<->", "<Vec>">>),
                        F(<<"ORDER", "BY", "v">>), F(<<"ORDER", "BY", "j">>), F(<<"ORDER", "BY", "b">>), F(<<"ORDER", "BY", "tx", "<Dir>">>), F(<<"ORDER", "BY">>) >>)
  @@ ("<Dir>"     :> << D(<<>>), F(<<"ASC">>), F(<<"DESC">>), F(<<"NULLS", "FIRST">>), F(<<"DESC", "NULLS", "LAST">>), F(<<"ASC", "NULLS">>) >>)
  @@ ("<Limit>"   :> << D(<<>>), F(<<"LIMIT", "<LimitVal>">>), F(<<"FETCH", "FIRST", "<LimitVal>", "ROWS", "ONLY">>), F(<<"FETCH", "NEXT", "<LimitVal>", "ROW", "ONLY">>), F(<<"LIMIT">>),
                        F(<<"FETCH", "FIRST", "ROWS", "ONLY">>) >>)
  @@ ("<Offset>"  :> << D(<<>>), F(<<"OFFSET", "<LimitVal>">>), F(<<"OFFSET", "<LimitVal>", "ROWS">>), F(<<"LIMIT", "<LimitVal>", "OFFSET", "<LimitVal>">>) >>)
  @@ ("<LimitVal>" :> << D(<<"2">>), V(<<"0">>), V(<<"1">>), V(<<"-1">>), V(<<"9223372036854775807">>), V(<<"-9223372036854775808">>), V(<<"18446744073709551615">>),
                         V(<<"99999999999999999999">>), V(<<"1.5">>), V(<<"'a'">>), V(<<"NULL">>), V(<<"<Param>">>), V(<<"1", "+", "1">>), V(<<"(", "SELECT", "1", ")">>), V(<<"id">>),
                         V(<<"4294967296">>), V(<<"1e308">>) >>)
  @@ ("<SetTail>" :> << D(<<>>), F(<<"<SetOp>", "<SimpleSel>">>) >>)
  @@ ("<ForClause>" :> << D(<<>>), F(<<"FOR", "UPDATE">>), F(<<"FOR", "SHARE">>), F(<<"FOR", "NO", "KEY", "UPDATE">>), F(<<"FOR", "KEY", "SHARE">>), F(<<"FOR", "UPDATE", "OF", "t">>),
                          F(<<"FOR", "UPDATE", "NOWAIT">>), F(<<"FOR", "SHARE", "SKIP", "LOCKED">>), F(<<"FOR">>) >>)

-----------------------------------------------------------------------------
(* DML.  u(id INT PRIMARY KEY, i INT UNIQUE, tx TEXT NOT NULL, tid BIGINT) *)

DmlProd ==
     ("<Insert>"  :> << D(<<"INSERT", "INTO", "<InsTarget>", "<InsSource>", "<OnConflict>", "<Returning>">>) >>)
  @@ ("<InsTarget>" :> << D(<<"u", "(", "id", ",", "i", ",", "tx", ",", "tid", ")">>), F(<<"u">>), F(<<"root", ".", "u">>), F(<<"u", "AS", "x">>), F(<<"u", "(", "tid", ",", "tx", ",", "i", ",", "id", ")">>),
                          F(<<"u", "(", "id", ",", "id", ",", "tx", ",", "tid", ")">>), F(<<"u", "(", "id", ",", "nosuch", ",", "tx", ",", "tid", ")">>), F(<<"nosuch">>),
                          F(<<"nosuch", ".", "u">>), F(<<"u", "(", ")">>), F(<<"e", "(", "id", ",", "i", ",", "tx", ",", "tid", ")">>), F(<<"turdb_catalog">>) >>)
  @@ ("<InsSource>" :> << D(<<"VALUES", "<Row>">>), F(<<"VALUES", "<Row>", ",", "<Row>">>), F(<<"VALUES", "<Row>", ",", "<Row>", ",", "<Row>">>), F(<<"DEFAULT", "VALUES">>),
                          F(<<"SELECT", "id", "+", "100", ",", "i", "+", "100", ",", "tx", ",", "tid", "FROM", "u">>), F(<<"SELECT", "*", "FROM", "u">>), F(<<"<SimpleSel>">>),
                          F(<<"VALUES", "(", ")">>), F(<<"VALUES", "(", "100", ")">>), F(<<"VALUES", "(", "100", ",", "100", ",", "'n'", ",", "1", ",", "5", ")">>), F(<<"VALUES">>),
                          F(<<"WITH", "c", "AS", "(", "SELECT", "100", ",", "100", ",", "'n'", ",", "1", ")", "SELECT", "*", "FROM", "c">>) >>)
  @@ ("<Row>"     :> << D(<<"(", "<PkVal>", ",", "<UniqVal>", ",", "<Text>", ",", "<Num>", ")">>) >>)
  @@ ("<PkVal>"   :> << D(<<"100">>), V(<<"1">>), V(<<"NULL">>), V(<<"101">>), V(<<"2147483647">>), V(<<"2147483648">>), V(<<"-2147483649">>), V(<<"9223372036854775807">>), V(<<"'x'">>),
                        V(<<"1.5">>), V(<<"DEFAULT">>), V(<<"<Param>">>), V(<<"<Num>">>), V(<<"-", "100">>), V(<<"(", "SELECT", "MAX", "(", "id", ")", "+", "1", "FROM", "u", ")">>) >>)
  @@ ("<UniqVal>" :> << D(<<"100">>), V(<<"10">>), V(<<"NULL">>), V(<<"101">>), V(<<"DEFAULT">>), V(<<"<Num>">>), V(<<"<Param>">>) >>)
  @@ ("<OnConflict>" :> << D(<<>>), F(<<"ON", "CONFLICT", "DO", "NOTHING">>), F(<<"ON", "CONFLICT", "(", "id", ")", "DO", "NOTHING">>), F(<<"ON", "CONFLICT", "(", "i", ")", "DO", "NOTHING">>),
                           F(<<"ON", "CONFLICT", "(", "id", ")", "DO", "UPDATE", "SET", "<Assigns>">>), F(<<"ON", "CONFLICT", "(", "i", ")", "DO", "UPDATE", "SET", "<Assigns>">>),
                           F(<<"ON", "CONFLICT", "DO", "UPDATE", "SET", "<Assigns>">>), F(<<"ON", "CONFLICT", "(", "nosuch", ")", "DO", "NOTHING">>),
                           F(<<"ON", "CONFLICT", "(", "id", ",", "i", ")", "DO", "NOTHING">>), F(<<"ON", "CONFLICT", "ON", "CONSTRAINT", "u_pkey", "DO", "NOTHING">>),
                           F(<<"ON", "CONFLICT", "(", "tid", ")", "DO", "UPDATE", "SET", "tid", "=", "1">>), F(<<"ON", "CONFLICT", "(", "id", ")", "DO", "UPDATE", "SET", "id", "=", "id", "+", "1">>),
                           F(<<"ON", "CONFLICT">>), F(<<"ON", "CONFLICT", "(", "id", ")", "DO">>) >>)
  @@ ("<Returning>" :> << D(<<>>), F(<<"RETURNING", "*">>), F(<<"RETURNING", "id">>), F(<<"RETURNING", "<Expr>", "<Alias>">>), F(<<"RETURNING", "nosuch">>), F(<<"RETURNING", "id", ",", "tx", ",", "*">>),
                          F(<<"RETURNING", "u", ".", "*">>), F(<<"RETURNING", "COUNT", "(", "*", ")">>), F(<<"RETURNING">>) >>)
  \* one column of every type of t, with boundary literals of that type
  @@ ("<InsertT>" :> << D(<<"INSERT", "INTO", "t", "(", "id", ",", "i", ")", "VALUES", "(", "<PkVal>", ",", "<Num>", ")", "<Returning>">>),
                        D(<<"INSERT", "INTO", "t", "(", "id", ",", "<TCol>", ")", "VALUES", "(", "100", ",", "<Expr>", ")">>),
                        D(<<"INSERT", "INTO", "t", "(", "id", ",", "<TextCol>", ")", "VALUES", "(", "100", ",", "<Text>", ")">>),
                        D(<<"INSERT", "INTO", "t", "(", "id", ",", "<NumCol>", ")", "VALUES", "(", "100", ",", "<Num>", ")">>),
                        D(<<"INSERT", "INTO", "t", "(", "id", ",", "<DateCol>", ")", "VALUES", "(", "100", ",", "<Date>", ")">>),
                        D(<<"INSERT", "INTO", "t", "(", "id", ",", "v", ")", "VALUES", "(", "100", ",", "<VecLit>", ")">>),
                        D(<<"INSERT", "INTO", "e", "(", "id", ",", "v", ")", "VALUES", "(", "100", ",", "<VecLit>", ")">>),
                        D(<<"INSERT", "INTO", "e", "(", "id", ",", "v", ")", "VALUES", "(", "100", ",", "<Expr>", ")">>),   \* any type into the vector column
                        D(<<"INSERT", "INTO", "t", "(", "id", ",", "j", ")", "VALUES", "(", "100", ",", "<JsonLit>", ")">>),
                        D(<<"INSERT", "INTO", "t", "(", "id", ",", "uu", ")", "VALUES", "(", "100", ",", "<UuidLit>", ")">>),
                        D(<<"INSERT", "INTO", "t", "(", "id", ",", "b", ")", "VALUES", "(", "100", ",", "<BlobLit>", ")">>),
                        D(<<"INSERT", "INTO", "t", "(", "id", ",", "bo", ")", "VALUES", "(", "100", ",", "<BoolLit>", ")">>),
                        D(<<"INSERT", "INTO", "t", "VALUES", "(", "100", ",", "<Num>", ",", "<Num>", ",", "<Num>", ",", "<Num>", ",", "<Text>", ",", "<Text>", ",", "<BlobLit>", ",", "<BoolLit>",
                            ",", "<Date>", ",", "'10:11:12'", ",", "'2024-01-02 10:11:12'", ",", "<UuidLit>", ",", "<JsonLit>", ",", "<VecLit>", ",", "<Num>", ")">>) >>)
  @@ ("<TCol>"    :> << D(<<"i">>), F(<<"s">>), F(<<"r">>), F(<<"d">>), F(<<"tx">>), F(<<"vc">>), F(<<"b">>), F(<<"bo">>), F(<<"dt">>), F(<<"tm">>), F(<<"ts">>), F(<<"uu">>), F(<<"j">>), F(<<"v">>), F(<<"n">>) >>)
  @@ ("<TextCol>" :> << D(<<"tx">>), F(<<"vc">>) >>)
  @@ ("<NumCol>"  :> << D(<<"i">>), F(<<"s">>), F(<<"r">>), F(<<"d">>), F(<<"n">>) >>)
  @@ ("<DateCol>" :> << D(<<"dt">>), F(<<"tm">>), F(<<"ts">>) >>)
  @@ ("<VecLit>"  :> << D(<<"'[1,2,3]'">>), V(<<"'[1,2]'">>), V(<<"'[1,2,3,4]'">>), V(<<"'[]'">>), V(<<"'[1e39,0,0]'">>), V(<<"'[NaN,Infinity,-Infinity]'">>), V(<<"'[1,2,3'">>), V(<<"'x'">>),
                        V(<<"''">>), V(<<"NULL">>), V(<<"1">>), V(<<"[", "1", ",", "2", ",", "3", "]">>), V(<<"ARRAY", "[", "1", ",", "2", "]">>), V(<<"x'00'">>), V(<<"<Param>">>) >>)
  @@ ("<JsonLit>" :> << D(<<"'{\"a\":1}'">>), V(<<"'{\"a\":'">>), V(<<"'[1,2,{\"b\":[true,false,null,1.5e3,\"s\"]}]'">>), V(<<"''">>), V(<<"'x'">>), V(<<"'1e999'">>), V(<<"'\"\\\\ud800\"'">>),
                        V(<<"'\"\\\\u0000\"'">>), V(<<"'{\"a\":1,\"a\":2}'">>), V(<<"'{\"\":{\"\":{\"\":{}}}}'">>), V(<<"'-0'">>), V(<<"'123456789012345678901234567890'">>),
                        V(<<"'[[[[[[[[[[[[[[[[[[[[[[[[[[[[[[[[[[[[[[[[[[[[[[[[[[[[[[[[[[[[[[[[[[[[[[1]]]]]]]]]]]]]]]]]]]]]]]]]]]]]]]]]]]]]]]]]]]]]]]]]]]]]]]]]]]]]]]]]]]]]]'">>),
                        V(<<"NULL">>), V(<<"1">>), V(<<"TRUE">>), V(<<"<Param>">>), V(<<LongString>>) >>)
  @@ ("<UuidLit>" :> << D(<<"'550e8400-e29b-41d4-a716-446655440000'">>), V(<<"'550e8400e29b41d4a716446655440000'">>), V(<<"'550e8400-e29b-41d4-a716-44665544000'">>), V(<<"'x'">>), V(<<"''">>),
                        V(<<"'550e8400-e29b-41d4-a716-44665544000g'">>), V(<<"'{550e8400-e29b-41d4-a716-446655440000}'">>), V(<<"'\\u00e950e8400-e29b-41d4-a716-44665544000'">>),
                        V(<<"NULL">>), V(<<"1">>), V(<<"x'550e8400e29b41d4a716446655440000'">>), V(<<"x'00'">>), V(<<"<Param>">>) >>)
  @@ ("<BlobLit>" :> << D(<<"x'00ff'">>), V(<<"x''">>), V(<<"X'ABCDEF'">>), V(<<"x'0'">>), V(<<"'text'">>), V(<<"NULL">>), V(<<"1">>), V(<<"0xFF">>), V(<<"<Param>">>) >>)
  @@ ("<BoolLit>" :> << D(<<"TRUE">>), V(<<"FALSE">>), V(<<"NULL">>), V(<<"1">>), V(<<"0">>), V(<<"2">>), V(<<"'true'">>), V(<<"'x'">>), V(<<"<Param>">>) >>)
  @@ ("<Update>"  :> << D(<<"UPDATE", "<UpdTarget>", "SET", "<Assigns>", "<UpdFrom>", "<Where>", "<Returning>">>) >>)
  @@ ("<UpdTarget>" :> << D(<<"u">>), F(<<"root", ".", "u">>), F(<<"u", "AS", "x">>), F(<<"nosuch">>), F(<<"t">>), F(<<"e">>), F(<<"turdb_catalog">>) >>)
  @@ ("<Assigns>" :> << D(<<"tid", "=", "<Num>">>), F(<<"tx", "=", "<Text>">>), F(<<"i", "=", "<UniqVal>">>), F(<<"id", "=", "<PkVal>">>), F(<<"i", "=", "i", "+", "1">>), F(<<"id", "=", "id", "+", "1">>),
                        F(<<"tx", "=", "NULL">>), F(<<"tid", "=", "<Num>", ",", "<Assigns>">>), F(<<"tid", "=", "1", ",", "tid", "=", "2">>), F(<<"nosuch", "=", "1">>), F(<<"u", ".", "tid", "=", "1">>),
                        F(<<"root", ".", "u", ".", "tid", "=", "1">>), F(<<"tid", "=", "DEFAULT">>), F(<<"tid", "=", "(", "SELECT", "MAX", "(", "id", ")", "FROM", "t", ")">>), F(<<"tid", "=", "<Expr>">>),
                        F(<<"tid", "=">>), F(<<"(", "tid", ",", "tx", ")", "=", "(", "1", ",", "'a'", ")">>) >>)
  @@ ("<UpdFrom>" :> << D(<<>>), F(<<"FROM", "t", "WHERE", "t", ".", "id", "=", "u", ".", "tid">>), F(<<"FROM", "t">>), F(<<"FROM", "u">>), F(<<"FROM", "nosuch">>) >>)
  @@ ("<UpdateT>" :> << D(<<"UPDATE", "t", "SET", "<TAssign>", "<Where>">>) >>)
  @@ ("<TAssign>" :> << D(<<"i", "=", "<Num>">>), F(<<"<NumCol>", "=", "<Num>">>), F(<<"<TextCol>", "=", "<Text>">>), F(<<"<DateCol>", "=", "<Date>">>), F(<<"v", "=", "<VecLit>">>), F(<<"j", "=", "<JsonLit>">>),
                        F(<<"uu", "=", "<UuidLit>">>), F(<<"b", "=", "<BlobLit>">>), F(<<"bo", "=", "<BoolLit>">>), F(<<"<TCol>", "=", "<Expr>">>), F(<<"<TCol>", "=", "NULL">>), F(<<"id", "=", "<PkVal>">>),
                        F(<<"tx", "=", LongString>>), F(<<"i", "=", "i", "+", "1", ",", "tx", "=", "tx", "||", "'z'">>) >>)
  @@ ("<Delete>"  :> << D(<<"DELETE", "FROM", "<UpdTarget>", "<DelUsing>", "<Where>", "<Returning>">>) >>)
  @@ ("<DelUsing>" :> << D(<<>>), F(<<"USING", "t", "WHERE", "t", ".", "id", "=", "u", ".", "tid">>), F(<<"USING", "t">>), F(<<"USING", "nosuch">>) >>)

-----------------------------------------------------------------------------
(* DDL, transactions, PRAGMA / SET / EXPLAIN, statements the parser accepts and the executor rejects *)

DdlProd ==
     ("<CreateTable>" :> << D(<<"CREATE", "TABLE", "<IfNotExists>", "<NewTable>", "(", "<ColDefs>", "<TableConstraints>", ")">>) >>)
  @@ ("<IfNotExists>" :> << D(<<>>), F(<<"IF", "NOT", "EXISTS">>), F(<<"IF", "EXISTS">>), F(<<"IF", "NOT">>) >>)
  @@ ("<NewTable>" :> << D(<<"nt">>), F(<<"t">>), F(<<"root", ".", "nt">>), F(<<"nosuch", ".", "nt">>), F(<<"\"q t\"">>), F(<<LongIdent>>), F(<<HugeIdent>>), F(<<"select">>), F(<<"\"\"">>),
                         F(<<"\"a/../b\"">>), F(<<"\"\\u00e9\"">>), F(<<"`bt`">>), F(<<"turdb_catalog">>), F(<<"T">>), F(<<"\".\"">>), F(<<"\"a\\u0000b\"">>) >>)
  @@ ("<ColDefs>" :> << D(<<"id", "INT", "PRIMARY", "KEY", ",", "<ColDef>">>), F(<<"<ColDef>">>), F(<<"<ColDef>", ",", "<ColDefs>">>), F(<<"id", "INT", ",", "id", "TEXT">>), F(<<>>),
                        F(<<"id", "INT", "PRIMARY", "KEY", ",", "k", "INT", "PRIMARY", "KEY">>) >>)
  @@ ("<ColDef>"  :> << D(<<"c", "<AnyType>", "<ColConstraints>">>), F(<<"<NewCol>", "<AnyType>">>) >>)
  @@ ("<NewCol>"  :> << D(<<"c">>), F(<<"select">>), F(<<"\"q c\"">>), F(<<LongIdent>>), F(<<"\"\"">>), F(<<"id">>), F(<<"ID">>), F(<<"rowid">>), F(<<"_rowid">>), F(<<"`bt`">>) >>)
  @@ ("<ColConstraints>" :> << D(<<>>), F(<<"<ColConstraint>">>), F(<<"<ColConstraint>", "<ColConstraints>">>) >>)
  @@ ("<ColConstraint>" :> << D(<<"NOT", "NULL">>), F(<<"NULL">>), F(<<"PRIMARY", "KEY">>), F(<<"UNIQUE">>), F(<<"AUTO_INCREMENT">>), F(<<"DEFAULT", "<Expr>">>), F(<<"DEFAULT", "NULL">>),
                              F(<<"CHECK", "(", "<Bool>", ")">>), F(<<"CHECK", "(", "c", ">", "0", ")">>), F(<<"CHECK", "(", "c", ">", "99999999999999999999", ")">>), F(<<"CHECK", "(", "c", ")">>),
                              F(<<"CHECK", "(", "c", ">=", "'x'", ")">>), F(<<"REFERENCES", "u", "(", "id", ")", "<RefActions>">>), F(<<"REFERENCES", "u", "<RefActions>">>), F(<<"REFERENCES", "nosuch", "(", "id", ")">>),
                              F(<<"REFERENCES", "nt", "(", "c", ")">>), F(<<"GENERATED", "ALWAYS", "AS", "(", "<Num>", ")", "STORED">>), F(<<"GENERATED", "ALWAYS", "AS", "(", "c", "+", "1", ")">>),
                              F(<<"NOT">>), F(<<"DEFAULT">>), F(<<"PRIMARY">>) >>)
  @@ ("<RefActions>" :> << D(<<>>), F(<<"ON", "DELETE", "CASCADE">>), F(<<"ON", "DELETE", "SET", "NULL">>), F(<<"ON", "UPDATE", "RESTRICT">>), F(<<"ON", "DELETE", "NO", "ACTION", "ON", "UPDATE", "SET", "DEFAULT">>),
                           F(<<"ON", "DELETE">>), F(<<"ON", "UPDATE", "CASCADE", "ON", "DELETE", "CASCADE">>) >>)
  @@ ("<TableConstraints>" :> << D(<<>>), F(<<",", "<TableConstraint>">>), F(<<",", "<TableConstraint>", ",", "<TableConstraint>">>) >>)
  @@ ("<TableConstraint>" :> << D(<<"UNIQUE", "(", "c", ")">>), F(<<"PRIMARY", "KEY", "(", "c", ")">>), F(<<"PRIMARY", "KEY", "(", "id", ",", "c", ")">>), F(<<"CONSTRAINT", "k1", "UNIQUE", "(", "id", ",", "c", ")">>),
                                F(<<"FOREIGN", "KEY", "(", "c", ")", "REFERENCES", "u", "(", "id", ")", "<RefActions>">>), F(<<"FOREIGN", "KEY", "(", "c", ",", "id", ")", "REFERENCES", "u", "(", "id", ")">>),
                                F(<<"CHECK", "(", "<Bool>", ")">>), F(<<"CONSTRAINT", "k2", "CHECK", "(", "c", ">", "0", ")">>), F(<<"UNIQUE", "(", "nosuch", ")">>), F(<<"UNIQUE", "(", ")">>),
                                F(<<"PRIMARY", "KEY", "(", "c", ",", "c", ")">>), F(<<"CONSTRAINT">>), F(<<"CONSTRAINT", "k3">>) >>)
  @@ ("<CreateIndex>" :> << D(<<"CREATE", "<Unique>", "INDEX", "<IfNotExists>", "<NewIndex>", "ON", "<IdxTable>", "<Using>", "(", "<IdxCols>", ")", "<IdxWhere>">>) >>)
  @@ ("<Unique>"  :> << D(<<>>), F(<<"UNIQUE">>), F(<<"OR", "REPLACE">>) >>)
  @@ ("<NewIndex>" :> << D(<<"nx">>), F(<<"t_i">>), F(<<"u_pkey">>), F(<<LongIdent>>), F(<<"\"q x\"">>), F(<<"select">>), F(<<"\"a/b\"">>), F(<<"e_v">>) >>)
  @@ ("<IdxTable>" :> << D(<<"t">>), F(<<"u">>), F(<<"e">>), F(<<"nosuch">>), F(<<"root", ".", "t">>), F(<<"nosuch", ".", "t">>), F(<<"t", "AS", "x">>) >>)
  @@ ("<Using>"   :> << D(<<>>), F(<<"USING", "BTREE">>), F(<<"USING", "HASH">>), F(<<"USING", "GIN">>), F(<<"USING", "GIST">>), F(<<"USING", "HNSW">>), F(<<"USING", "nosuch">>), F(<<"USING">>) >>)
  @@ ("<IdxCols>" :> << D(<<"s">>), F(<<"i">>), F(<<"tx">>), F(<<"id">>), F(<<"s", ",", "tx">>), F(<<"s", ",", "s">>), F(<<"nosuch">>), F(<<"v">>), F(<<"j">>), F(<<"b">>), F(<<"uu">>), F(<<"n">>), F(<<"dt">>), F(<<"bo">>), F(<<"r">>),
                        F(<<"s", "DESC">>), F(<<"s", "ASC", "NULLS", "FIRST">>), F(<<"s", "NULLS", "LAST", ",", "tx", "DESC">>), F(<<"LOWER", "(", "tx", ")">>), F(<<"s", "+", "1">>), F(<<"<Expr>">>), F(<<>>),
                        F(<<"id", ",", "i", ",", "s", ",", "r", ",", "d", ",", "tx", ",", "vc", ",", "b", ",", "bo", ",", "dt", ",", "tm", ",", "ts", ",", "uu", ",", "n">>) >>)
  @@ ("<IdxWhere>" :> << D(<<>>), F(<<"WHERE", "<Bool>">>), F(<<"WHERE", "s", "IS", "NOT", "NULL">>), F(<<"WHERE">>) >>)
  @@ ("<CreateMisc>" :> << D(<<"CREATE", "SCHEMA", "<IfNotExists>", "<NewSchema>">>),
                           D(<<"CREATE", "<OrReplace>", "<Materialized>", "VIEW", "<NewTable>", "<ViewCols>", "AS", "<SimpleSel>", "<CheckOption>">>),
                           D(<<"CREATE", "<OrReplace>", "FUNCTION", "f", "(", "a", "INT", ")", "RETURNS", "INT", "AS", "'SELECT 1'", "LANGUAGE", "sql">>),
                           D(<<"CREATE", "PROCEDURE", "p", "(", ")", "AS", "'SELECT 1'">>),
                           D(<<"CREATE", "TRIGGER", "tr", "BEFORE", "INSERT", "ON", "u", "FOR", "EACH", "ROW", "EXECUTE", "FUNCTION", "f", "(", ")">>),
                           D(<<"CREATE", "TYPE", "mood", "AS", "ENUM", "(", "'a'", ",", "'b'", ")">>), D(<<"CREATE", "TYPE", "pt", "AS", "(", "x", "INT", ",", "y", "INT", ")">>),
                           D(<<"CREATE", "DOMAIN", "dm", "AS", "INT">>), D(<<"CREATE", "<CreateJunk>">>) >>)
  @@ ("<NewSchema>" :> << D(<<"ns">>), F(<<"root">>), F(<<"\"a/../b\"">>), F(<<"\"\"">>), F(<<LongIdent>>), F(<<"select">>), F(<<"\".\"">>), F(<<"\"..\"">>), F(<<"wal">>), F(<<"\"\\u00e9\"">>) >>)
  @@ ("<OrReplace>" :> << D(<<>>), F(<<"OR", "REPLACE">>), F(<<"OR">>) >>)
  @@ ("<Materialized>" :> << D(<<>>), F(<<"MATERIALIZED">>) >>)
  @@ ("<ViewCols>" :> << D(<<>>), F(<<"(", "a", ")">>), F(<<"(", "a", ",", "b", ")">>), F(<<"(", ")">>) >>)
  @@ ("<CheckOption>" :> << D(<<>>), F(<<"WITH", "CHECK", "OPTION">>), F(<<"WITH", "CASCADED", "CHECK", "OPTION">>), F(<<"WITH", "LOCAL", "CHECK">>) >>)
  @@ ("<CreateJunk>" :> << D(<<"SEQUENCE", "sq">>), F(<<>>), F(<<"TABLE">>), F(<<"UNIQUE">>), F(<<"UNIQUE", "TABLE", "x">>), F(<<"TEMPORARY", "TABLE", "tt", "(", "a", "INT", ")">>), F(<<"INDEX">>), F(<<"OR", "REPLACE", "TABLE", "x", "(", "a", "INT", ")">>) >>)
  @@ ("<Drop>"    :> << D(<<"DROP", "<DropKind>", "<IfExists>", "<DropNames>", "<Cascade>">>) >>)
  @@ ("<DropKind>" :> << D(<<"TABLE">>), D(<<"INDEX">>), D(<<"SCHEMA">>), F(<<"VIEW">>), F(<<"SEQUENCE">>), F(<<"FUNCTION">>), F(<<"PROCEDURE">>), F(<<"TRIGGER">>), F(<<"COLUMN">>), F(<<>>) >>)
  @@ ("<IfExists>" :> << D(<<>>), F(<<"IF", "EXISTS">>), F(<<"IF", "NOT", "EXISTS">>), F(<<"IF">>) >>)
  @@ ("<DropNames>" :> << D(<<"u">>), F(<<"t">>), F(<<"e">>), F(<<"t_i">>), F(<<"e_v">>), F(<<"u_tx">>), F(<<"u_pkey">>), F(<<"nosuch">>), F(<<"root">>), F(<<"root", ".", "u">>), F(<<"nosuch", ".", "u">>), F(<<"u", ",", "t">>),
                          F(<<"u", ",", "u">>), F(<<"turdb_catalog">>), F(<<LongIdent>>), F(<<"\"a/../b\"">>), F(<<>>) >>)
  @@ ("<Cascade>" :> << D(<<>>), F(<<"CASCADE">>), F(<<"RESTRICT">>), F(<<"CASCADE", "RESTRICT">>) >>)
  @@ ("<Truncate>" :> << D(<<"TRUNCATE", "<TableKw>", "<TruncNames>", "<Identity>", "<Cascade>">>) >>)
  @@ ("<TableKw>" :> << D(<<"TABLE">>), F(<<>>) >>)
  @@ ("<TruncNames>" :> << D(<<"u">>), F(<<"t">>), F(<<"e">>), F(<<"u", ",", "t">>), F(<<"u", ",", "u">>), F(<<"nosuch">>), F(<<"root", ".", "u">>), F(<<"u", "AS", "x">>), F(<<>>) >>)
  @@ ("<Identity>" :> << D(<<>>), F(<<"RESTART", "IDENTITY">>), F(<<"CONTINUE", "IDENTITY">>), F(<<"RESTART">>) >>)
  @@ ("<Alter>"   :> << D(<<"ALTER", "TABLE", "<AlterTable>", "<AlterAction>">>) >>)
  @@ ("<AlterTable>" :> << D(<<"u">>), F(<<"t">>), F(<<"e">>), F(<<"nosuch">>), F(<<"root", ".", "u">>), F(<<>>) >>)
  @@ ("<AlterAction>" :> << D(<<"ADD", "COLUMN", "<ColDef>">>), F(<<"ADD", "<ColDef>">>), F(<<"ADD", "COLUMN", "z", "INT", "DEFAULT", "<Expr>">>), F(<<"ADD", "COLUMN", "id", "INT">>), F(<<"ADD", "COLUMN", "z", "INT", "NOT", "NULL">>),
                            F(<<"ADD", "COLUMN", "z", "INT", "PRIMARY", "KEY">>), F(<<"ADD", "COLUMN", "z", "INT", "UNIQUE">>),
                            F(<<"DROP", "COLUMN", "<OldCol>">>), F(<<"DROP", "<OldCol>">>), F(<<"DROP", "COLUMN", "IF", "EXISTS", "<OldCol>", "CASCADE">>),
                            F(<<"RENAME", "COLUMN", "<OldCol>", "TO", "<NewCol>">>), F(<<"RENAME", "TO", "<NewTable>">>), F(<<"RENAME", "COLUMN", "tx", "TO", "tx">>), F(<<"RENAME", "COLUMN", "tx", "TO", "id">>),
                            F(<<"ALTER", "COLUMN", "<OldCol>", "SET", "NOT", "NULL">>), F(<<"ALTER", "COLUMN", "<OldCol>", "DROP", "NOT", "NULL">>), F(<<"ALTER", "COLUMN", "<OldCol>", "SET", "DEFAULT", "<Expr>">>),
                            F(<<"ALTER", "COLUMN", "<OldCol>", "DROP", "DEFAULT">>), F(<<"ALTER", "COLUMN", "<OldCol>", "TYPE", "<AnyType>">>), F(<<"ALTER", "<OldCol>", "SET", "DATA", "TYPE", "<AnyType>">>),
                            F(<<"ADD", "CONSTRAINT", "<TableConstraint>">>), F(<<"DROP", "CONSTRAINT", "<IfExists>", "k1", "<Cascade>">>), F(<<"ALTER", "COLUMN", "tx", "SET">>), F(<<>>), F(<<"RENAME">>) >>)
  @@ ("<OldCol>"  :> << D(<<"tid">>), F(<<"tx">>), F(<<"i">>), F(<<"id">>), F(<<"nosuch">>), F(<<"v">>), F(<<"j">>), F(<<"TID">>) >>)
  @@ ("<Txn>"     :> << D(<<"BEGIN", "<BeginOpts>">>), D(<<"COMMIT">>), D(<<"ROLLBACK", "<RollbackOpts>">>), D(<<"SAVEPOINT", "<SpName>">>), D(<<"RELEASE", "<SpKw>", "<SpName>">>) >>)
  @@ ("<BeginOpts>" :> << D(<<>>), F(<<"WORK">>), F(<<"TRANSACTION">>), F(<<"ISOLATION", "LEVEL", "<IsoLevel>">>), F(<<"READ", "ONLY">>), F(<<"READ", "WRITE">>),
                          F(<<"TRANSACTION", "ISOLATION", "LEVEL", "<IsoLevel>", ",", "READ", "ONLY">>), F(<<"ISOLATION", "LEVEL">>), F(<<"READ">>), F(<<"ISOLATION", "LEVEL", "<IsoLevel>", "ISOLATION", "LEVEL", "<IsoLevel>">>) >>)
  @@ ("<IsoLevel>" :> << D(<<"SERIALIZABLE">>), F(<<"READ", "COMMITTED">>), F(<<"READ", "UNCOMMITTED">>), F(<<"REPEATABLE", "READ">>), F(<<"SNAPSHOT">>) >>)
  @@ ("<RollbackOpts>" :> << D(<<>>), F(<<"WORK">>), F(<<"TRANSACTION">>), F(<<"TO", "<SpName>">>), F(<<"TO", "SAVEPOINT", "<SpName>">>), F(<<"TO">>), F(<<"WORK", "TO", "SAVEPOINT", "<SpName>">>) >>)
  @@ ("<SpKw>"    :> << D(<<>>), F(<<"SAVEPOINT">>) >>)
  @@ ("<SpName>"  :> << D(<<"sp1">>), V(<<"select">>), V(<<"\"q s\"">>), V(<<LongIdent>>), V(<<HugeIdent>>), V(<<"\"\"">>), V(<<"1">>), V(<<"'s'">>), V(<<>>) >>)
  @@ ("<Explain>" :> << D(<<"EXPLAIN", "<ExplainOpts>", "<Explained>">>) >>)
  @@ ("<ExplainOpts>" :> << D(<<>>), F(<<"ANALYZE">>), F(<<"VERBOSE">>), F(<<"ANALYZE", "VERBOSE">>), F(<<"(", "ANALYZE", ",", "VERBOSE", ",", "FORMAT", "JSON", ")">>), F(<<"(", "FORMAT", "TEXT", ")">>),
                            F(<<"(", "FORMAT", ")">>), F(<<"(", ")">>), F(<<"(", "ANALYZE", ",", ")">>), F(<<"VERBOSE", "ANALYZE">>) >>)
  @@ ("<Explained>" :> << D(<<"<QSelect>">>), D(<<"<QJoin>">>), D(<<"<QAgg>">>), D(<<"<QSub>">>), D(<<"<QSet>">>), D(<<"<QCte>">>), D(<<"<QWin>">>), D(<<"<Insert>">>), D(<<"<Update>">>), D(<<"<Delete>">>),
                          F(<<"<CreateTable>">>), F(<<"<Drop>">>), F(<<"<Txn>">>), F(<<"<Pragma>">>), F(<<"EXPLAIN", "<QWhere>">>), F(<<>>) >>)
  @@ ("<Pragma>"  :> << D(<<"PRAGMA", "<PragmaName>", "<PragmaValue>">>) >>)
  @@ ("<PragmaName>" :> << D(<<"wal">>), D(<<"wal_autoflush">>), D(<<"synchronous">>), D(<<"join_memory_budget">>), D(<<"memory_budget">>), D(<<"memory_stats">>), D(<<"persisted_memory_stats">>),
                           D(<<"wal_checkpoint">>), D(<<"wal_checkpoint_stats">>), D(<<"wal_checkpoint_threshold">>), D(<<"wal_frame_count">>), D(<<"wal_size">>), D(<<"database_mode">>), D(<<"recover_wal">>),
                           F(<<"nosuch">>), F(<<"WAL">>), F(<<"select">>), F(<<LongIdent>>), F(<<"\"wal\"">>), F(<<>>) >>)
  @@ ("<PragmaValue>" :> << D(<<>>), F(<<"=", "<PragmaArg>">>), F(<<"(", "<PragmaArg>", ")">>), F(<<"<PragmaArg>">>), F(<<"=">>), F(<<"(", ")">>), F(<<"=", "<PragmaArg>", "<PragmaArg>">>) >>)
  @@ ("<PragmaArg>" :> << D(<<"ON">>), V(<<"OFF">>), V(<<"0">>), V(<<"1">>), V(<<"2">>), V(<<"3">>), V(<<"-1">>), V(<<"NORMAL">>), V(<<"FULL">>), V(<<"TRUE">>), V(<<"FALSE">>), V(<<"nosuch">>), V(<<"4096">>), V(<<"1048576">>),
                          V(<<"4294967296">>), V(<<"9223372036854775807">>), V(<<"18446744073709551615">>), V(<<"18446744073709551616">>), V(<<"99999999999999999999999999">>), V(<<"1.5">>), V(<<"'on'">>),
                          V(<<"NULL">>), V(<<LongIdent>>), V(<<"\"\"">>), V(<<"0x10">>) >>)
  @@ ("<Set>"     :> << D(<<"SET", "<SetScope>", "<SetName>", "<SetEq>", "<SetValue>">>) >>)
  @@ ("<SetScope>" :> << D(<<>>), F(<<"SESSION">>), F(<<"LOCAL">>), F(<<"GLOBAL">>) >>)
  @@ ("<SetName>" :> << D(<<"foreign_keys">>), F(<<"FOREIGN_KEYS">>), F(<<"nosuch">>), F(<<"select">>), F(<<LongIdent>>), F(<<"\"foreign_keys\"">>), F(<<>>) >>)
  @@ ("<SetEq>"   :> << D(<<"=">>), F(<<"TO">>), F(<<>>) >>)
  @@ ("<SetValue>" :> << D(<<"ON">>), V(<<"OFF">>), V(<<"TRUE">>), V(<<"FALSE">>), V(<<"0">>), V(<<"1">>), V(<<"'on'">>), V(<<"'yes'">>), V(<<"NULL">>), V(<<"1.5">>), V(<<"99999999999999999999">>), V(<<"1", ",", "2">>),
                         V(<<"<Expr>">>), V(<<"DEFAULT">>), V(<<>>), V(<<"-", "1">>), V(<<"yes">>) >>)
  @@ ("<Other>"   :> << D(<<"SHOW", "<ShowArg>">>), D(<<"RESET", "<ShowArg>">>), D(<<"CALL", "<CallName>", "(", "<CallArgs>", ")">>),
                        D(<<"MERGE", "INTO", "u", "<MergeAlias>", "USING", "t", "<MergeAlias>", "ON", "<Bool>", "<MergeClauses>">>),
                        D(<<"GRANT", "<Privs>", "ON", "<GrantObj>", "TO", "<Grantees>", "<GrantOpt>">>), D(<<"REVOKE", "<Privs>", "ON", "<GrantObj>", "FROM", "<Grantees>", "<Cascade>">>) >>)
  @@ ("<ShowArg>" :> << D(<<"ALL">>), F(<<"foreign_keys">>), F(<<"nosuch">>), F(<<"TABLES">>), F(<<>>), F(<<LongIdent>>) >>)
  @@ ("<CallName>" :> << D(<<"p">>), F(<<"root", ".", "p">>), F(<<"select">>), F(<<"ABS">>) >>)
  @@ ("<CallArgs>" :> << D(<<>>), F(<<"<Expr>">>), F(<<"<Expr>", ",", "<Expr>">>), F(<<",">>) >>)
  @@ ("<MergeAlias>" :> << D(<<>>), F(<<"AS", "m">>), F(<<"m">>), F(<<"AS">>) >>)
  @@ ("<MergeClauses>" :> << D(<<"WHEN", "MATCHED", "THEN", "UPDATE", "SET", "<Assigns>">>), F(<<"WHEN", "MATCHED", "THEN", "DELETE">>),
                             F(<<"WHEN", "NOT", "MATCHED", "THEN", "INSERT", "(", "id", ")", "VALUES", "(", "<Num>", ")">>), F(<<"WHEN", "NOT", "MATCHED", "THEN", "INSERT", "VALUES", "(", "1", ",", "2", ")">>),
                             F(<<"WHEN", "MATCHED", "THEN", "DELETE", "WHEN", "NOT", "MATCHED", "THEN", "INSERT", "VALUES", "(", "1", ")">>), F(<<>>), F(<<"WHEN", "MATCHED", "THEN", "INSERT">>), F(<<"WHEN">>) >>)
  @@ ("<Privs>"   :> << D(<<"SELECT">>), F(<<"ALL">>), F(<<"ALL", "PRIVILEGES">>), F(<<"SELECT", ",", "INSERT", ",", "UPDATE", ",", "DELETE">>), F(<<"nosuch">>), F(<<>>), F(<<"SELECT", ",">>) >>)
  @@ ("<GrantObj>" :> << D(<<"u">>), F(<<"TABLE", "u">>), F(<<"SCHEMA", "root">>), F(<<"root", ".", "u">>), F(<<>>), F(<<"TABLE">>) >>)
  @@ ("<Grantees>" :> << D(<<"alice">>), F(<<"alice", ",", "bob">>), F(<<"PUBLIC">>), F(<<>>), F(<<"alice", ",">>) >>)
  @@ ("<GrantOpt>" :> << D(<<>>), F(<<"WITH", "GRANT", "OPTION">>), F(<<"WITH", "GRANT">>) >>)

(* the statement frames; the choice of a frame is free *)
StmtProd == ("<Stmt>" :> << D(<<"<QSelect>">>), D(<<"<QExpr>">>), D(<<"<QWhere>">>), D(<<"<QAgg>">>), D(<<"<QWin>">>), D(<<"<QJoin>">>), D(<<"<QSet>">>), D(<<"<QCte>">>), D(<<"<QSub>">>),
                           D(<<"<Insert>">>), D(<<"<InsertT>">>), D(<<"<Update>">>), D(<<"<UpdateT>">>), D(<<"<Delete>">>),
                           D(<<"<CreateTable>">>), D(<<"<CreateIndex>">>), D(<<"<CreateMisc>">>), D(<<"<Drop>">>), D(<<"<Truncate>">>), D(<<"<Alter>">>),
                           D(<<"<Txn>">>), D(<<"<Explain>">>), D(<<"<Pragma>">>), D(<<"<Set>">>), D(<<"<Other>">>), D(<<"<Deep>">>) >>)

Prod == StmtProd @@ QueryProd @@ DmlProd @@ DdlProd @@ ExprProd

\* the declared nonterminals (NamesMatch below: exactly the domain of Prod)
NTNames == {"<Stmt>", "<QSelect>", "<QExpr>", "<ExprFrom>", "<QWhere>", "<WhereTable>", "<QAgg>", "<AggList>", "<AggItem>", "<AggArg>", "<QWin>", "<WinFn>", "<WinSpec>", "<PartBy>",
            "<WinOrder>", "<Frame>", "<Bound>", "<QJoin>", "<JoinCols>", "<JoinOp>", "<JoinCond>", "<MoreJoin>", "<QSet>", "<SimpleSel>", "<SetOp>", "<SetMore>", "<QCte>", "<CteList>",
            "<QSub>", "<SubCmp>", "<SubSel>", "<With>", "<Distinct>", "<SelList>", "<SelItem>", "<Alias>", "<From>", "<Where>", "<GroupBy>", "<Having>", "<OrderBy>", "<Dir>", "<Limit>",
            "<Offset>", "<LimitVal>", "<SetTail>", "<ForClause>",
            "<Insert>", "<InsTarget>", "<InsSource>", "<Row>", "<PkVal>", "<UniqVal>", "<OnConflict>", "<Returning>", "<InsertT>", "<TCol>", "<TextCol>", "<NumCol>", "<DateCol>", "<VecLit>",
            "<JsonLit>", "<UuidLit>", "<BlobLit>", "<BoolLit>", "<Update>", "<UpdTarget>", "<Assigns>", "<UpdFrom>", "<UpdateT>", "<TAssign>", "<Delete>", "<DelUsing>",
            "<CreateTable>", "<IfNotExists>", "<NewTable>", "<ColDefs>", "<ColDef>", "<NewCol>", "<ColConstraints>", "<ColConstraint>", "<RefActions>", "<TableConstraints>", "<TableConstraint>",
            "<CreateIndex>", "<Unique>", "<NewIndex>", "<IdxTable>", "<Using>", "<IdxCols>", "<IdxWhere>", "<CreateMisc>", "<NewSchema>", "<OrReplace>", "<Materialized>", "<ViewCols>",
            "<CheckOption>", "<CreateJunk>", "<Drop>", "<DropKind>", "<IfExists>", "<DropNames>", "<Cascade>", "<Truncate>", "<TableKw>", "<TruncNames>", "<Identity>", "<Alter>", "<AlterTable>",
            "<AlterAction>", "<OldCol>", "<Txn>", "<BeginOpts>", "<IsoLevel>", "<RollbackOpts>", "<SpKw>", "<SpName>", "<Explain>", "<ExplainOpts>", "<Explained>", "<Pragma>", "<PragmaName>",
            "<PragmaValue>", "<PragmaArg>", "<Set>", "<SetScope>", "<SetName>", "<SetEq>", "<SetValue>", "<Other>", "<ShowArg>", "<CallName>", "<CallArgs>", "<MergeAlias>", "<MergeClauses>",
            "<Privs>", "<GrantObj>", "<Grantees>", "<GrantOpt>",
            "<Expr>", "<Num>", "<IntArg>", "<Text>", "<Date>", "<Fmt>", "<Bool>", "<Pattern>", "<Escape>", "<Vec>", "<Json>", "<JsonKey>", "<JsonPath>", "<Arr>", "<Misc>", "<Param>", "<NumList>",
            "<ArithOp>", "<CmpOp>", "<VecOp>", "<LikeOp>", "<Agg>", "<NumType>", "<TextType>", "<DateType>", "<AnyType>", "<OtherType>", "<TypeLen>"}
NT == NTNames \cup {"<Deep>"}
IsNT(s) == s \in NT

-----------------------------------------------------------------------------
(* Nesting shapes: the recursion of the parser / planner / evaluator is      *)
(* unbounded, so depth is a feature of its own.  DeepForm(shape, n) is a     *)
(* complete sentence with n nested (or chained) occurrences of one construct *)

DeepShapes == {"paren", "not", "neg", "bitnot", "plus", "or", "and", "concat", "subquery", "exists", "case", "fn", "array", "inlist", "union",
               "fromparen", "derived", "explain", "cast", "subscript", "arrow", "widelist", "widetable", "between", "likechain", "cmpchain"}

DeepForm(shape, n) ==
  CASE shape = "paren"     -> <<"SELECT">> \o Rep("(", n) \o <<"1">> \o Rep(")", n)
    [] shape = "not"       -> <<"SELECT">> \o Rep("NOT", n) \o <<"TRUE">>
    [] shape = "neg"       -> <<"SELECT">> \o Rep("-", n) \o <<"1">>
    [] shape = "bitnot"    -> <<"SELECT">> \o Rep("~", n) \o <<"1">>
    [] shape = "plus"      -> <<"SELECT", "1">> \o [i \in 1..(2 * n) |-> IF i % 2 = 1 THEN "+" ELSE "1"]
    [] shape = "or"        -> <<"SELECT", "id", "FROM", "t", "WHERE", "id", "=", "0">> \o [i \in 1..(4 * n) |-> <<"OR", "id", "=", "0">>[((i - 1) % 4) + 1]]
    [] shape = "and"       -> <<"SELECT", "id", "FROM", "t", "WHERE", "id", ">", "0">> \o [i \in 1..(4 * n) |-> <<"AND", "id", ">", "0">>[((i - 1) % 4) + 1]]
    [] shape = "concat"    -> <<"SELECT", "'a'">> \o [i \in 1..(2 * n) |-> IF i % 2 = 1 THEN "||" ELSE "'a'"]
    [] shape = "subquery"  -> <<"SELECT">> \o [i \in 1..(2 * n) |-> IF i % 2 = 1 THEN "(" ELSE "SELECT"] \o <<"1">> \o Rep(")", n)
    [] shape = "exists"    -> <<"SELECT">> \o [i \in 1..(3 * n) |-> <<"EXISTS", "(", "SELECT">>[((i - 1) % 3) + 1]] \o <<"1">> \o Rep(")", n)
    [] shape = "case"      -> <<"SELECT">> \o [i \in 1..(4 * n) |-> <<"CASE", "WHEN", "TRUE", "THEN">>[((i - 1) % 4) + 1]] \o <<"1">> \o Rep("END", n)
    [] shape = "fn"        -> <<"SELECT">> \o [i \in 1..(2 * n) |-> IF i % 2 = 1 THEN "ABS" ELSE "("] \o <<"1">> \o Rep(")", n)
    [] shape = "array"     -> <<"SELECT">> \o Rep("[", n) \o <<"1">> \o Rep("]", n)
    [] shape = "inlist"    -> <<"SELECT", "id", "FROM", "t", "WHERE", "id", "IN", "(", "1">> \o [i \in 1..(2 * n) |-> IF i % 2 = 1 THEN "," ELSE "1"] \o <<")">>
    [] shape = "union"     -> <<"SELECT", "id", "FROM", "t">> \o [i \in 1..(5 * n) |-> <<"UNION", "SELECT", "id", "FROM", "t">>[((i - 1) % 5) + 1]]
    [] shape = "fromparen" -> <<"SELECT", "*", "FROM">> \o Rep("(", n) \o <<"t">> \o Rep(")", n)
    [] shape = "derived"   -> [i \in 1..(5 * n) |-> <<"SELECT", "*", "FROM", "(", "SELECT">>[((i - 1) % 5) + 1]] \o <<"1">>
                              \o [i \in 1..(3 * n) |-> <<")", "AS", "z">>[((i - 1) % 3) + 1]]
    [] shape = "explain"   -> Rep("EXPLAIN", n) \o <<"SELECT", "1">>
    [] shape = "cast"      -> <<"SELECT", "1">> \o [i \in 1..(2 * n) |-> IF i % 2 = 1 THEN "::" ELSE "INT"]
    [] shape = "subscript" -> <<"SELECT", "v">> \o [i \in 1..(3 * n) |-> <<"[", "1", "]">>[((i - 1) % 3) + 1]] \o <<"FROM", "t">>
    [] shape = "arrow"     -> <<"SELECT", "j">> \o [i \in 1..(2 * n) |-> IF i % 2 = 1 THEN "->" ELSE "'a'"] \o <<"FROM", "t">>
    [] shape = "widelist"  -> <<"SELECT", "1">> \o [i \in 1..(2 * n) |-> IF i % 2 = 1 THEN "," ELSE "1"]
    [] shape = "widetable" -> <<"CREATE", "TABLE", "nt", "(", "c0", "INT">> \o [i \in 1..(3 * n) |-> IF i % 3 = 1 THEN "," ELSE IF i % 3 = 2 THEN "c" \o ToString((i + 1) \div 3) ELSE "INT"] \o <<")">>
    [] shape = "between"   -> <<"SELECT", "1">> \o [i \in 1..(4 * n) |-> <<"BETWEEN", "0", "AND", "1">>[((i - 1) % 4) + 1]]
    [] shape = "likechain" -> <<"SELECT", "'a'">> \o [i \in 1..(2 * n) |-> IF i % 2 = 1 THEN "LIKE" ELSE "'a'"]
    [] shape = "cmpchain"  -> <<"SELECT", "1">> \o [i \in 1..(2 * n) |-> IF i % 2 = 1 THEN "=" ELSE "1"]

-----------------------------------------------------------------------------
(* Near-valid programs: token-level mutations of a complete sentence *)

Junk == {"'unterminated", "\"unterminated", "`", "/*", "*/", "--", "$", "$$", "?", ":", "@", "\\", "\\u00e9", "\\ud83d\\ude00", "\\u0001", "\\u0000",
         "0x", "0b", "1e", "..", ".", ";", ",", "(", ")", "[", "]", "{", "}", "::", "!", "#", "NULL", "SELECT", "FROM", "NOT", "''", "x'0'", "x'zz'",
         "1.2.3", "99999999999999999999999999999", "-", "*", "=", "AND", "nosuch", "9223372036854775807", "-9223372036854775808"}

MutKinds == {"drop", "dup", "swap", "replace", "paren", "trunc", "glue"}

MutationsOf(f, kind) ==
  LET n == Len(f)
      Cut(a, b) == IF a > b THEN <<>> ELSE SubSeq(f, a, b)
  IN CASE kind = "drop"    -> { Cut(1, i - 1) \o Cut(i + 1, n) : i \in 1..n }
       [] kind = "dup"     -> { Cut(1, i) \o Cut(i, n) : i \in 1..n }
       [] kind = "swap"    -> { Cut(1, i - 1) \o <<f[i + 1], f[i]>> \o Cut(i + 2, n) : i \in 1..(n - 1) }
       [] kind = "replace" -> { [f EXCEPT ![i] = j] : i \in 1..n, j \in JunkTokens }
       [] kind = "paren"   -> { Cut(1, i - 1) \o <<p>> \o Cut(i, n) : i \in 1..(n + 1), p \in {"(", ")"} }
       [] kind = "trunc"   -> { Cut(1, i) : i \in 1..(n - 1) }
       [] kind = "glue"    -> { Cut(1, i - 1) \o <<f[i] \o f[i + 1]>> \o Cut(i + 2, n) : i \in 1..(n - 1) }

-----------------------------------------------------------------------------
(* The derivation system *)

VARIABLE mks       \* the kinds of the planned mutations, in order (chosen with the plan)
VARIABLE done      \* the sentence has been handed to the implementation (Call)
allvars == <<pre, rest, budget, vbudget, mplan, muts, trail, mks, done>>

\* The sentential form is kept as  pre \o rest : pre holds terminals only, rest is empty or begins with the
\* leftmost nonterminal (so that Expand does not have to search for it).
form == pre \o rest
HasNT == rest # <<>>
Complete == ~HasNT /\ muts = mplan

NTIdx(f) == {i \in 1..Len(f) : IsNT(f[i])}
FirstIdx(S) == CHOOSE i \in S : \A k \in S : i <= k
\* the successor form after the leftmost nonterminal was replaced by r
Split(r) == LET f == r \o Tail(rest)
                S == NTIdx(f) IN
            IF S = {} THEN [p |-> pre \o f, r |-> <<>>]
            ELSE LET i == FirstIdx(S) IN [p |-> pre \o SubSeq(f, 1, i - 1), r |-> SubSeq(f, i, Len(f))]

Init == /\ pre = <<>>
        /\ \E s \in Starts : rest = <<s>>
        /\ budget = Budget /\ vbudget = VBudget
        /\ mplan \in 0..MaxMut
        /\ mks \in [1..MaxMut -> MutKinds]      \* always MaxMut long so that mplan is uniform in random walks
        /\ muts = 0
        /\ trail = <<>>
        /\ done = FALSE

Expand ==
  /\ HasNT
  /\ rest[1] # "<Deep>"
  /\ LET alts == Prod[rest[1]] IN
     \E k \in 1..Len(alts) :
       LET a == alts[k]
           n == Split(a.r) IN
       /\ a.c <= budget /\ a.v <= vbudget
       /\ pre' = n.p /\ rest' = n.r
       /\ budget' = budget - a.c /\ vbudget' = vbudget - a.v
       /\ trail' = Append(trail, <<rest[1], k>>)
  /\ UNCHANGED <<mplan, muts, mks, done>>

ExpandDeep ==
  /\ HasNT
  /\ rest[1] = "<Deep>"
  /\ \E sh \in DeepShapes, n \in DeepN :
       LET m == Split(DeepForm(sh, n)) IN
       /\ pre' = m.p /\ rest' = m.r
       /\ trail' = Append(trail, <<"<Deep>", sh, n>>)
  /\ UNCHANGED <<budget, vbudget, mplan, muts, mks, done>>

Mutate ==
  /\ ~HasNT /\ muts < mplan
  /\ Len(pre) \in 1..MutMaxLen
  /\ \E m \in MutationsOf(pre, mks[muts + 1]) : pre' = m
  /\ trail' = Append(trail, <<"mut", mks[muts + 1]>>)
  /\ muts' = muts + 1
  /\ UNCHANGED <<rest, budget, vbudget, mplan, mks, done>>

\* a sentence that is too long to be mutated is emitted unmutated
GiveUpMutation ==
  /\ ~HasNT /\ muts < mplan /\ Len(pre) \notin 1..MutMaxLen
  /\ mplan' = muts
  /\ UNCHANGED <<pre, rest, budget, vbudget, muts, trail, mks, done>>

\* Call: the complete sentence is executed; the implementation must answer with an outcome in Allowed
Call ==
  /\ Complete /\ ~done
  /\ done' = TRUE
  /\ UNCHANGED <<pre, rest, budget, vbudget, mplan, muts, trail, mks>>

Next == Expand \/ ExpandDeep \/ Mutate \/ GiveUpMutation \/ Call
Spec == Init /\ [][Next]_allvars

-----------------------------------------------------------------------------
(* Meta-properties of the model itself (checked by TLC, not on TurDB) *)

Count(f, tok) == Cardinality({i \in 1..Len(f) : f[i] = tok})
RECURSIVE DepthOK(_, _, _, _, _)
DepthOK(f, i, open, close, d) ==            \* no prefix closes more than it opened
  IF i > Len(f) THEN d = 0
  ELSE IF f[i] = open THEN DepthOK(f, i + 1, open, close, d + 1)
  ELSE IF f[i] = close THEN d > 0 /\ DepthOK(f, i + 1, open, close, d - 1)
  ELSE DepthOK(f, i + 1, open, close, d)

TypeOK == /\ budget \in 0..Budget /\ vbudget \in 0..VBudget /\ mplan \in 0..MaxMut /\ muts \in 0..mplan
          /\ NTIdx(pre) = {}
          /\ rest # <<>> => IsNT(rest[1])

\* an unmutated sentence of the grammar has balanced brackets unless a production of the trail is itself
\* one of the (deliberately) broken ones - those never contain a bracket, so balance must hold for all
Balanced == (~HasNT /\ muts = 0) =>
               /\ Count(form, "(") = Count(form, ")")
               /\ Count(form, "[") = Count(form, "]")
               /\ Len(form) <= 400 => (DepthOK(form, 1, "(", ")", 0) /\ DepthOK(form, 1, "[", "]", 0))

StatementKeywords == {"SELECT", "WITH", "INSERT", "UPDATE", "DELETE", "CREATE", "DROP", "TRUNCATE", "ALTER", "BEGIN", "COMMIT", "ROLLBACK",
                      "SAVEPOINT", "RELEASE", "EXPLAIN", "CALL", "MERGE", "SET", "SHOW", "RESET", "GRANT", "REVOKE", "PRAGMA", "("}
KeywordLed == (~HasNT /\ muts = 0) => (Len(form) > 0 /\ form[1] \in StatementKeywords)

Bounded == (muts = 0 /\ \A e \in 1..Len(trail) : trail[e][1] # "<Deep>") => Len(form) <= MaxLen

\* the default alternative of every nonterminal is free and its closure terminates
RECURSIVE DefTerm(_, _)
DefTerm(sym, fuel) == IF sym \notin DOMAIN Prod THEN TRUE
                      ELSE fuel > 0 /\ \A e \in 1..Len(Prod[sym][1].r) : DefTerm(Prod[sym][1].r[e], fuel - 1)
ASSUME DefaultsTerminate == \A nt \in DOMAIN Prod : Prod[nt][1].c = 0 /\ Prod[nt][1].v = 0 /\ DefTerm(nt, 8)
ASSUME JunkTokens \subseteq Junk

\* tokens that begin with "<" and are NOT nonterminals (operators)
AngleTokens == {"<", "<=", "<>", "<<", "<->", "<#>", "<=>", "<@"}
ASSUME NamesMatch == DOMAIN Prod = NTNames
\* every right-hand-side symbol is a declared nonterminal, <Deep>, or a token that cannot be mistaken for one;
\* the python side re-checks emitted sentences for tokens of the shape <Name> (see c22.py)
RhsSymbols == UNION { UNION { {Prod[nt][k].r[e] : e \in 1..Len(Prod[nt][k].r)} : k \in 1..Len(Prod[nt]) } : nt \in DOMAIN Prod }
ASSUME AllReachable == \A nt \in NTNames \ {"<Stmt>"} : nt \in RhsSymbols
=============================================================================

CONSTANTS Threads = {1, 2}  MaxMods = 3
SPECIFICATION Spec
VIEW view
ACTION_CONSTRAINT Emit
CHECK_DEADLOCK FALSE

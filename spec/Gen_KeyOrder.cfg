CONSTANTS Sel = {0,1,2,3,4,5,6,7,8,9,10,11}  Seed = 1  RandN = 10
SPECIFICATION Spec
CHECK_DEADLOCK FALSE

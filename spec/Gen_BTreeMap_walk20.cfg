\* walks over sixteen ~3 KB keys + four short ones: interior pages fill after five separators (interior splits, 3 levels)
CONSTANTS NKeys = 20  KB <- KB_U20  Vals = {1, 2, 3, 4, 5, 6, 7, 8}  VLen <- VLen8  InsVals <- AllVals8  AllowUnsafe = FALSE
CONSTANTS MaxOps = 120  Preloads <- NoPreload  Motifs = {"deep", "reverse", "random"}  PhaseLen = 20  OpVals <- OpVals_U6
SPECIFICATION SpecWalk
ACTION_CONSTRAINT EmitWalk
CHECK_DEADLOCK FALSE

SPECIFICATION Spec
INVARIANT Verdict
CHECK_DEADLOCK FALSE

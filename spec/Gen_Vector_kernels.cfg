CONSTANTS MaxLen = 70  LawDim = 1  LawFull = FALSE  Rich = FALSE
INIT InitK
NEXT NextK
INVARIANTS KSound EmitK
CHECK_DEADLOCK FALSE

#!/usr/bin/env python3
"""One-off helper (not part of the framework): writes known_findings.d/C43.json from the signatures observed in the runs
named on the command line (evidence json copies) and the replay files, with hand-written explanations per signature family."""
import json, sys, glob, os

API_NOTE = {
    "insert_batch": "insert_batch (batch.rs:42-168) builds records from the caller's values and appends them to the table B-tree: no constraint check, no index maintenance, no AUTO_INCREMENT, no MVCC header",
    "insert_batch_into_schema": "insert_batch_into_schema (batch.rs:51-168, the body of insert_batch) appends raw records: no constraint check, no index maintenance, no AUTO_INCREMENT, no MVCC header",
    "bulk_insert": "bulk_insert (batch.rs:443-491, FastLoader::insert_unchecked) is documented as unchecked; the property demands the same observable state as INSERT, so the documentation is not an admissible contract here: no constraint check, no index maintenance, no AUTO_INCREMENT, and row keys are numbered from the header row count instead of next_row_id",
    "insert_cached": "the cached-plan path of a prepared INSERT (Database::insert_cached, batch.rs:170-441; every execution after the first)",
}
WHY = {
    "insert_batch": "the batch APIs bypass the INSERT pipeline; the repair is to route them through the per-row INSERT code (checks, index maintenance, MVCC wrap), i.e. a rewrite of batch.rs",
    "insert_batch_into_schema": "see insert_batch",
    "bulk_insert": "see insert_batch; additionally starting_row_id must come from next_row_id",
    "insert_cached": "insert_cached re-implements INSERT without NOT NULL / AUTO_INCREMENT handling and appends index keys with insert_append (only correct for ascending keys) and without the row-id suffix secondary indexes use; needs to share the INSERT row loop",
}


def family(sig):
    p = sig.split(":")
    return p


def what(sig):
    p = sig.split(":")
    k = p[0]
    if k == "lookup" and p[2].startswith("by_"):
        api, by, path, how = p[1], p[2][3:], p[3], p[4]
        idx = {"id": "PRIMARY KEY index", "a": "UNIQUE index on a", "b": "secondary index on b"}[by]
        after = (" after " + p[6]) if len(p) > 6 else ""
        if api in API_NOTE:
            if how == "misses_rows":
                extra = " (insert_cached appends index keys with insert_append, which is only right for ascending keys: descending / repeating keys are lost)" if api == "insert_cached" else ""
                return "rows loaded through %s are not found through the %s: `WHERE %s = v` returns nothing for a row the full scan shows%s" % (api, idx, by, extra)
            return "after %s the %s answers `WHERE %s = v` with %s" % (api, idx, by, how.replace("_", " "))
        return "a %s statement%s leaves the %s inconsistent with the scan (%s): the bulk path wrote index keys in a form UPDATE/DELETE do not recognise" % (api, after, idx, how.replace("_", " "))
    if k == "constraint_not_enforced_after":
        c = "PRIMARY KEY" if p[2] == "dup_pk" else "UNIQUE"
        return "after loading through %s an INSERT that repeats a loaded %s value is accepted: the constraint check consults the index the API did not fill" % (p[1], c)
    if k == "later_insert_rejected_after":
        return "after a %s call every later INSERT into the table fails with `key already exists`: %s numbers its row keys from the header row count, so they collide with next_row_id" % (p[1], p[1])
    if k == "stores_refused_row":
        cls = {"pk_batch": "a row that repeats the primary key of an earlier row of the same batch", "uq_batch": "a row that repeats the UNIQUE value of an earlier row of the same batch",
               "pk_exist": "a row that repeats the primary key of a stored row", "uq_exist": "a row that repeats the UNIQUE value of a stored row",
               "null_in_not_null": "a row with NULL in a NOT NULL column"}[p[2]]
        return "%s stores %s; row-at-a-time INSERT refuses that row (RelBulk.tla: no admissible outcome contains it)" % (p[1], cls)
    if k == "stores_null_id_instead_of_generating":
        return "%s stores NULL in the AUTO_INCREMENT primary key for rows given without id instead of generating ids (C12 gen_null:%s)" % (p[1], p[1])
    if k == "next_auto_increment_value":
        return "after %s the next INSERT generates an id as if the batch had not happened (the counter in the table header is not advanced)" % p[1]
    if k == "panic":
        return "%s panics (`Keys out of order or duplicate in split_leaf`) on a 5000-row batch into the AUTO_INCREMENT table: the NULL ids it stores are appended to the primary-key index with insert_append and the first leaf split asserts" % p[1]
    if k == "scan" and p[1] == "rollback":
        return "ROLLBACK does not remove rows a prepared INSERT stored through its cached plan inside the transaction (insert_cached registers no write entry for undo): BEGIN; three executions; ROLLBACK leaves the second and third row"
    if k == "scan":
        if p[1] in API_NOTE:
            return "%s reports success but rows of the batch are not visible afterwards (%s): after earlier deletes its row keys (numbered from the header row count) land on existing keys / tombstones" % (p[1], p[2])
        return "a %s statement after %s does not take effect on rows that API stored (%s): the records lack the MVCC header DELETE/UPDATE write their tombstone into" % (p[1], p[-1], p[2])
    if k == "result":
        return "%s: %s" % (p[1], " ".join(p[2:]))
    if k == "count_differs_from_visible_rows":
        return "after %s COUNT(*) differs from the number of rows a scan shows" % p[1]
    return sig


def main():
    sigs = {}
    for f in sys.argv[1:]:
        e = json.load(open(f))
        for s, n in e["coverage"]["divergence_signatures"].items():
            sigs[s] = sigs.get(s, 0) + n
    ex = {}
    for f in glob.glob("/verif/out/replays/C43/*.json"):
        d = json.load(open(f))
        ex[d["signature"]] = d["replay"]
    out = []
    for s in sorted(sigs):
        p = s.split(":")
        api = next((x for x in p if x in API_NOTE), None)
        r = ex.get(s)
        dv = None
        if r:
            want = {"lookup": "lookup", "constraint_not_enforced_after": "probe", "later_insert_rejected_after": "probe", "stores_refused_row": "scan",
                    "stores_null_id_instead_of_generating": "scan", "next_auto_increment_value": "probe", "panic": "panic", "scan": "scan", "result": "result",
                    "count_differs_from_visible_rows": "count"}.get(p[0])
            cands = [d for d in r["divergences"] if d["kind"] == want]
            if p[0] == "lookup":
                cands = [d for d in cands if "by_" + str(d.get("by")) == p[2]] or cands
            if p[0] == "next_auto_increment_value":
                cands = [d for d in cands if d.get("name") == "next_ai"] or cands
            if p[0] == "constraint_not_enforced_after":
                cands = [d for d in cands if d.get("name") == p[2]] or cands
            dv = (cands or r["divergences"])[0]
        example = {"sql": r["sql"] if r else "see out/replays", "expected": "an outcome RelBulk.tla admits", "observed": json.dumps(dv)[:320] if dv else ""}
        out.append({"property": "C43", "signature": s, "what": what(s) + (". " + API_NOTE[api] if api and s.split(":")[0] in ("stores_refused_row", "lookup") and False else ""),
                    "example": example, "why_not_fixed": WHY.get(api or "insert_batch")})
    json.dump({"_about": {a: API_NOTE[a] for a in API_NOTE}, "findings": out, "fixed": []}, open("/verif/known_findings.d/C43.json", "w"), indent=1)
    print(len(out), "findings written")


if __name__ == "__main__":
    main()

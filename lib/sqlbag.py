"""Plumbing shared by the C17 / C18 checks: run SQL sessions on the sql-run harness and compare bags of rows.

Nothing in here knows SQL semantics: expected bags come from TLC (Join.tla / Subquery.tla); this module only turns
harness values and TLC values into the same canonical form (a Counter of tuples, NULL = None) and compares them.
"""
import collections, json
import vlib

NULL = -99     # N in the specifications


def model_row(r):
    return tuple(None if v == NULL else v for v in r)


def model_bag(entries, count="n"):
    """[{r: row, n: multiplicity}, ..] (as printed by TLC) -> Counter"""
    c = collections.Counter()
    for e in entries:
        if e[count]:
            c[model_row(e["r"])] += e[count]
    return c


def _val(v):
    if isinstance(v, dict):
        if "bool" in v:
            return bool(v["bool"])
        if "f" in v:
            try:
                f = float(v["f"])
                return int(f) if f == int(f) else f
            except (ValueError, OverflowError):
                return ("float", v["f"])
        return ("other", json.dumps(v, sort_keys=True))
    return v


def observed_bag(rows):
    return collections.Counter(tuple(_val(v) for v in r) for r in rows)


def bag_list(c, limit=40):
    """printable form of a Counter bag"""
    out = [[list(k), n] for k, n in sorted(c.items(), key=lambda kv: json.dumps(kv[0], default=str))]
    return out if len(out) <= limit else out[:limit] + [["...", len(out) - limit]]


def outcome(res):
    """harness result -> ("rows", Counter) | ("err", msg) | ("panic", msg) | ("missing", "")"""
    if res is None:
        return ("missing", "")
    if "rows" in res:
        return ("rows", observed_bag(res["rows"]))
    if "ok" in res and isinstance(res["ok"], dict) and res["ok"].get("rows") is not None:
        return ("rows", observed_bag(res["ok"]["rows"]))
    if "panic" in res:
        return ("panic", res["panic"])
    if "err" in res:
        return ("err", res["err"])
    return ("err", json.dumps(res)[:200])


def run_sessions(sessions, tag, jobs=None, watchdog=300, timeout=3000, sub="sql-run"):
    """sessions: list of op lists. Returns the list of result lists (same order). A panic does not stop a session.
    sub: harness subcommand (sql-run, or join-obs which also understands the op {"k":"hits"})."""
    cases = []
    for i, ops in enumerate(sessions):
        cases.append({"id": i, "ops": [dict(o, stop_on_panic=False) for o in ops]})
    inp = "%s/%s_in.ndjson" % (vlib.scratch(), tag)
    outp = "%s/%s_out.ndjson" % (vlib.scratch(), tag)
    vlib.write_ndjson(inp, cases)
    vlib.run_vh([sub, "--in", inp, "--out", outp, "--jobs", jobs or vlib.NCPU, "--watchdog", watchdog], timeout=timeout)
    out = [None] * len(sessions)
    for r in vlib.read_ndjson(outp):
        res = r["res"]
        if res and "fatal" in res[0]:
            raise vlib.ToolError("cannot create scratch database: %s" % res[0]["fatal"])
        out[r["id"]] = res
    if any(o is None for o in out):
        raise vlib.ToolError("harness returned no result for %d sessions" % sum(o is None for o in out))
    return out


def insert_ops(table, rows, chunk=200):
    """rows: list of tuples of python values (None = NULL) -> INSERT statements"""
    ops = []
    for i in range(0, len(rows), chunk):
        vals = ",".join("(" + ",".join("NULL" if v is None else str(v) for v in r) + ")" for r in rows[i:i + chunk])
        ops.append({"k": "exec", "sql": "INSERT INTO %s VALUES %s" % (table, vals), "setup": True})
    return ops

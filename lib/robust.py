"""Plumbing shared by the robustness checks C22 / C23: rendering of TLC-generated token sequences, the process-isolated
harness runner (harness/src/robust.rs), outcome classification, confirmation and delta-minimisation of a failing case.

Nothing here decides anything: the admissible outcomes come from the specification (`allowed` field emitted by TLC);
this module only observes Ok / Err / Panic(site) / Crash(signal) / Hang and compares the class."""
import json, os, re, subprocess, time
import vlib

# ----------------------------------------------------------------------------- rendering
_ESC = re.compile(r'(\\\\)|\\u([0-9a-fA-F]{4})')


def decode_token(tok):
    """A token of the spec is ASCII; `\\uXXXX` stands for that UTF-16 code unit and `\\\\` for one backslash followed
    by nothing special (so `\\\\u0041` is the six characters \\u0041)."""
    if '\\' not in tok:
        return tok
    out, i, units = [], 0, []

    def flush():
        if units:
            b = b''.join(u.to_bytes(2, 'big') for u in units)
            out.append(b.decode('utf-16-be', errors='replace'))
            del units[:]
    for m in _ESC.finditer(tok):
        if m.start() > i:
            flush()
            out.append(tok[i:m.start()])
        if m.group(1):
            flush()
            out.append('\\')
        else:
            units.append(int(m.group(2), 16))
        i = m.end()
    flush()
    out.append(tok[i:])
    return ''.join(out)


def render(toks):
    return ' '.join(decode_token(t) for t in toks)


KINDS = {"SELECT": "query", "WITH": "query", "EXPLAIN": "query", "(": "query",
         "INSERT": "dml", "UPDATE": "dml", "DELETE": "dml", "MERGE": "dml",
         "CREATE": "ddl", "DROP": "ddl", "ALTER": "ddl", "TRUNCATE": "ddl",
         "BEGIN": "txn", "COMMIT": "txn", "ROLLBACK": "txn", "SAVEPOINT": "txn", "RELEASE": "txn",
         "PRAGMA": "admin", "SET": "admin", "SHOW": "admin", "RESET": "admin", "CALL": "admin", "GRANT": "admin", "REVOKE": "admin"}


def stmt_kind(sql):
    m = re.match(r'\s*([A-Za-z]+|\()', sql)
    return KINDS.get(m.group(1).upper(), "other") if m else "other"


def first_keyword(sql):
    m = re.match(r'\s*([A-Za-z]+|\()', sql)
    return m.group(1).upper() if m else "-"


# ----------------------------------------------------------------------------- running
def run_cases(cases, setup, sub="robust-run", jobs=None, watchdog_ms=10000, vmem_mb=6144, tag="c", extra=None, timeout=3000):
    """cases: list of dicts with unique 'id'. Returns {id: record}. A missing record is a tool error."""
    sc = vlib.scratch()
    inp, outp, setp = [os.path.join(sc, "%s_%s.ndjson" % (tag, x)) for x in ("in", "out", "setup")]
    vlib.write_ndjson(inp, cases)
    args = [sub, "--in", inp, "--out", outp, "--jobs", jobs or vlib.NCPU, "--watchdog", watchdog_ms, "--vmem-mb", vmem_mb]
    if setup is not None:
        with open(setp, "w") as f:
            json.dump(setup, f)
        args += ["--setup", setp]
    args += extra or []
    vlib.run_vh(args, timeout=timeout)
    res = {}
    for r in vlib.read_ndjson(outp):
        res[r["id"]] = r
    missing = [c["id"] for c in cases if c["id"] not in res]
    if missing:
        raise vlib.ToolError("harness returned no record for %d cases (first: %s)" % (len(missing), missing[0]))
    for f in (inp, outp):
        try:
            os.remove(f)
        except OSError:
            pass
    return res


def msg_class(msg):
    """panic message with the numbers abstracted (index 5 / len 3 -> index N / len N)"""
    s = re.sub(r'\d+', 'N', msg or '')
    s = re.sub(r'\s+', ' ', s).strip()
    return s[:70]


def site_of(p):
    """the blamed code site of a panic record: innermost turdb function of the backtrace, else file of the location"""
    site = p.get("site") or ""
    if site:
        site = re.sub(r'::\{\{closure\}\}', '', site)
        site = re.sub(r'<(.*?) as .*?>', r'\1', site)
        return site
    loc = p.get("loc") or ""
    loc = re.sub(r'^/rustc/[0-9a-f]+/', 'rust:', loc)
    loc = re.sub(r':\d+$', '', loc)
    return loc or "unknown"


def classify(rec):
    """record of one case -> (cls, detail). cls: ok | err | panic | crash | hang | fatal.
    For multi-op cases the class is that of the worst op; detail carries the op index."""
    if rec.get("outcome") == "hang":
        return "hang", {"at": rec.get("at"), "ms": rec.get("ms")}
    if rec.get("outcome") == "crash":
        st = rec.get("status") or {}
        return "crash", {"at": rec.get("at"), "signal": st.get("signal"), "code": st.get("code")}
    if "fatal" in rec:
        return "fatal", {"msg": rec["fatal"]}
    if "panic" in rec and "res" not in rec:
        return "panic", {"at": "open", "panic": rec["panic"], "site": site_of(rec), "loc": rec.get("loc")}
    cls, det = "ok", {}
    for i, r in enumerate(rec.get("res", [])):
        if "drop" in r:
            r = r["drop"]
            i = "drop"
        if "panic" in r:
            return "panic", {"at": i, "panic": r["panic"], "site": site_of(r), "loc": r.get("loc")}
        if "err" in r and cls == "ok":
            cls, det = "err", {"at": i, "err": r["err"]}
    return cls, det


SIGNAMES = {6: "SIGABRT", 11: "SIGSEGV", 9: "SIGKILL", 7: "SIGBUS", 4: "SIGILL", 8: "SIGFPE"}


def crash_name(det):
    if det.get("signal") is not None:
        return SIGNAMES.get(det["signal"], "SIG%s" % det["signal"])
    return "exit%s" % det.get("code")


# ----------------------------------------------------------------------------- minimisation
def ddmin(items, still_fails_batch, max_rounds=40):
    """Delta debugging on a list. still_fails_batch(list of candidate lists) -> list of bool (run as one harness batch).
    Returns a 1-minimal-ish sublist (bounded effort)."""
    n = 2
    rounds = 0
    while len(items) >= 2 and rounds < max_rounds:
        rounds += 1
        size = max(1, len(items) // n)
        chunks = [(i, min(len(items), i + size)) for i in range(0, len(items), size)]
        cands = [items[:a] + items[b:] for a, b in chunks]
        cands = [c for c in cands if c]
        if not cands:
            break
        verdicts = still_fails_batch(cands)
        hit = next((c for c, v in zip(cands, verdicts) if v), None)
        if hit is not None:
            items = hit
            n = max(n - 1, 2)
        elif size == 1:
            break
        else:
            n = min(len(items), n * 2)
    # chunks are aligned; a final pass slides windows of 4..1 items over the list (e.g. the pair `FROM t`)
    progress = True
    while progress and rounds < max_rounds + 12 and len(items) >= 2:
        progress = False
        for w in (4, 3, 2, 1):
            if w >= len(items):
                continue
            rounds += 1
            cands = [items[:a] + items[a + w:] for a in range(0, len(items) - w + 1)]
            verdicts = still_fails_batch(cands)
            hit = next((c for c, v in zip(cands, verdicts) if v), None)
            if hit is not None:
                items = hit
                progress = True
                break
    return items

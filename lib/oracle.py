"""Helper for oracle-style checks: fixed tables, many queries, each with an answer computed by a TLA+ oracle.

  run_sql(setup, queries, batch=150)   setup: list of SQL strings (DDL + INSERTs) executed on a fresh database per
                                       batch; queries: list of SQL strings -> list of results aligned with queries:
                                       {"rows": [[..]..]} | {"err": msg} | {"panic": msg} | {"missing": True}
  norm(v)                              harness value -> comparable python value (floats become python floats)
  bag(rows)                            order-insensitive canonical form of a result
"""
import json, math
import vlib


def norm(v):
    if isinstance(v, dict):
        if "f" in v:
            try:
                f = float(v["f"])
            except ValueError:
                return ("float", v["f"])
            if math.isnan(f):
                return ("nan",)
            return f
        if "bool" in v:
            return bool(v["bool"])
        return tuple(sorted((k, json.dumps(x)) for k, x in v.items()))
    return v


def norm_rows(rows):
    return [[norm(v) for v in r] for r in rows]


def _key(r):
    return json.dumps(r, sort_keys=True, default=str)


def bag(rows):
    return sorted(norm_rows(rows), key=_key)


def run_sql(setup, queries, batch=150, jobs=None, watchdog=120, setup_failure_is_error=True):
    """Every batch of queries runs on its own fresh database built by `setup` (so a panic in one query, which ends
    its case, costs at most the rest of one batch: those come back as {"missing": True} and are re-run singly)."""
    cases, index = [], []
    setup_ops = [{"k": "exec", "sql": s} for s in setup]
    for i in range(0, len(queries), batch):
        qs = queries[i:i + batch]
        cases.append({"id": len(cases), "ops": setup_ops + [{"k": "query", "sql": q} for q in qs]})
        index.append((i, len(qs)))
    out = [None] * len(queries)
    pending = cases
    round_ = 0
    while pending:
        inp, outp = vlib.scratch() + "/orc_in%d.ndjson" % round_, vlib.scratch() + "/orc_out%d.ndjson" % round_
        vlib.write_ndjson(inp, pending)
        vlib.run_vh(["sql-run", "--in", inp, "--out", outp, "--jobs", jobs or vlib.NCPU, "--watchdog", watchdog], timeout=3000)
        retry = []
        for r in vlib.read_ndjson(outp):
            start, n = index[r["id"]]
            res = r["res"]
            if res and "fatal" in res[0]:
                raise vlib.ToolError("cannot create scratch database: %s" % res[0]["fatal"])
            ns = len(setup_ops)
            if setup_failure_is_error:
                for j in range(min(ns, len(res))):
                    if "ok" not in res[j]:
                        raise vlib.ToolError("setup statement failed: %s -> %s" % (setup[j], json.dumps(res[j])[:300]))
            for j in range(n):
                k = ns + j
                if k < len(res):
                    out[start + j] = res[k]
                elif n == 1:
                    out[start + j] = {"missing": True}
                else:
                    # not executed because an earlier query of the batch panicked: run it alone
                    cid = len(index)
                    index.append((start + j, 1))
                    retry.append({"id": cid, "ops": setup_ops + [{"k": "query", "sql": queries[start + j]}]})
        pending = retry
        round_ += 1
    return out

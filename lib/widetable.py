"""WideTable.tla replay: a table with hundreds of rows (several B-tree leaves, an interior level), statements on runs of
ids, probes through the primary-key index, the secondary index and the full scan after every step."""
import json, os
import vlib

PAD = "p" * 200
BIGPAD = "q" * 3000          # above TOAST_THRESHOLD: stored out of line
BIG_PROBE_IDS = [1, 64, 129]
PROBE_IDS = [1, 2, 7, 8, 9, 31, 32, 33, 63, 64, 65, 127, 128, 129, 200, 255, 256, 257]
SETUP = ["CREATE TABLE w (id INT PRIMARY KEY, a INT, pad TEXT, c INT)", "CREATE INDEX w_a ON w (a)"]
CBASE = 100000


def run_ids(op):
    ids = list(range(op["lo"], op["lo"] + op["len"]))
    if op["ord"] == "desc":
        ids.reverse()
    elif op["ord"] == "evens_then_odds":
        ids = [i for i in ids if i % 2 == 0] + [i for i in ids if i % 2 == 1]
    return ids


def op_ops(op):
    k = op["k"]
    if k == "insert_run":
        ids = run_ids(op)
        return [{"k": "exec", "sql": "INSERT INTO w VALUES " + ", ".join("(%d, %d, '%s', %d)" % (i, i % 10, PAD, CBASE - i) for i in ids[j:j + 50])}
                for j in range(0, len(ids), 50)]
    if k == "delete_range":
        return [{"k": "exec", "sql": "DELETE FROM w WHERE id BETWEEN %d AND %d" % (op["lo"], op["hi"])}]
    if k == "delete_eq":
        return [{"k": "exec", "sql": "DELETE FROM w WHERE a = %d" % op["v"]}]
    if k == "update_range":
        return [{"k": "exec", "sql": "UPDATE w SET a = a + 1 WHERE id BETWEEN %d AND %d" % (op["lo"], op["hi"])}]
    if k == "reopen":
        return [{"k": "reopen"}]
    if k == "pad_grow":
        return [{"k": "exec", "sql": "UPDATE w SET pad = '%s' WHERE id BETWEEN %d AND %d" % (BIGPAD, op["lo"], op["hi"])}]
    if k == "pad_shrink":
        return [{"k": "exec", "sql": "UPDATE w SET pad = '%s' WHERE id BETWEEN %d AND %d" % (PAD, op["lo"], op["hi"])}]
    if k == "delete_big":
        return [{"k": "exec", "sql": "DELETE FROM w WHERE LENGTH(pad) > 1000"}]
    if k == "create_index":
        return [{"k": "exec", "sql": "CREATE INDEX w_%s ON w (%s)" % (op["col"], op["col"])}]
    if k == "drop_index":
        return [{"k": "exec", "sql": "DROP INDEX w_%s" % op["col"]}]
    raise ValueError(k)


def probe_ops(n):
    ids = PROBE_IDS + [n - 1, n]
    ops = [{"k": "query", "sql": "SELECT id, a FROM w"}, {"k": "query", "sql": "SELECT COUNT(*) FROM w"}]
    ops += [{"k": "query", "sql": "SELECT a FROM w WHERE id = %d" % i} for i in ids]
    ops += [{"k": "query", "sql": "SELECT COUNT(*) FROM w WHERE a = %d" % v} for v in (0, 3, 11)]
    ops += [{"k": "query", "sql": "SELECT COUNT(*) FROM w WHERE id BETWEEN %d AND %d" % r} for r in ((60, 70), (120, 260), (n - 5, n))]
    ops += [{"k": "query", "sql": "SELECT id FROM w WHERE a = 3"}]
    ops += [{"k": "query", "sql": "SELECT COUNT(*) FROM w WHERE pad = '%s'" % PAD}, {"k": "query", "sql": "SELECT id FROM w WHERE pad = '%s'" % PAD}]
    ops += [{"k": "query", "sql": "SELECT id FROM w WHERE c = %d" % (CBASE - i)} for i in ids]
    ops += [{"k": "query", "sql": "SELECT COUNT(*) FROM w WHERE LENGTH(pad) > 1000"}]          # a predicate over out-of-line values
    ops += [{"k": "query", "sql": "SELECT pad FROM w WHERE id = %d" % i} for i in BIG_PROBE_IDS]       # plain projection (length taken here)
    return ops, ids


def describe(hist):
    out = []
    for h in hist:
        op = h["op"]
        out.append({"insert_run": lambda: "insert %d..%d %s" % (op["lo"], op["lo"] + op["len"] - 1, op["ord"]),
                    "delete_range": lambda: "delete id in %d..%d" % (op["lo"], op["hi"]), "delete_eq": lambda: "delete a=%d" % op["v"],
                    "update_range": lambda: "a+=1 for id in %d..%d" % (op["lo"], op["hi"]), "reopen": lambda: "reopen",
                    "delete_big": lambda: "delete where LENGTH(pad) > 1000",
                    "pad_grow": lambda: "pad := 3000 bytes for id in %d..%d" % (op["lo"], op["hi"]), "pad_shrink": lambda: "pad := 200 bytes for id in %d..%d" % (op["lo"], op["hi"]),
                    "create_index": lambda: "CREATE INDEX on " + op["col"], "drop_index": lambda: "DROP INDEX on " + op["col"]}.get(op["k"], lambda: op["k"])())
    return "; ".join(out)


def walks(chk, num, depth, n=400, ddl=False, pad=True, cap=None):
    cfg = vlib.scratch() + "/GenWide%d%d.cfg" % (ddl, pad)
    open(cfg, "w").write(open(os.path.join(vlib.SPEC, "Gen_WideTableSlim.cfg")).read().replace("MaxOps = 12", "MaxOps = %d" % depth).replace("N = 400", "N = %d" % n)
                         .replace("WithDDL = FALSE", "WithDDL = %s" % ("TRUE" if ddl else "FALSE"))
                         .replace("WithPad = FALSE", "WithPad = %s" % ("TRUE" if pad else "FALSE")))
    sim = vlib.run_tlc("MC_WideTable.tla", cfg, workers=1, timeout=1500, simulate="num=%d" % num, seed=chk.seed, extra=["-depth", str(depth)])
    em = vlib.parse_emitted(sim["out"])
    hists, prev = [], None
    for e in em:
        if prev is not None and len(e["hist"]) <= len(prev["hist"]):
            hists.append(prev["hist"])
        prev = e
    if prev is not None:
        hists.append(prev["hist"])
    seen, uniq = set(), []
    for h in hists:          # the weights of the spec (\E w \in 1..k) make TLC print the same successor k times
        k = json.dumps([x["op"] for x in h], sort_keys=True)
        if k not in seen:
            seen.add(k)
            uniq.append(h)
    hists = uniq
    if cap and len(hists) > cap:
        # TLC prints every candidate successor of a walk: keep the longest behaviours (the walks themselves) and a seeded sample
        import random
        rng = random.Random(chk.seed)
        full = [h for h in hists if len(h) == depth]
        rest = [h for h in hists if len(h) < depth]
        rng.shuffle(full); rng.shuffle(rest)
        hists = full[: max(1, cap // 2)] + rest[: cap - min(len(full), max(1, cap // 2))]
    if not hists:
        raise vlib.ToolError("TLC -simulate produced no WideTable behaviours:\n" + sim["out"][-1500:])
    return hists


def execute(hists, n=400, ddl=False):
    """ddl: the behaviours come from WithDDL = TRUE, where the table starts without secondary indexes"""
    rend, meta = [], {}
    for cid, h in enumerate(hists):
        ops = [{"k": "exec", "sql": s} for s in (SETUP[:1] if ddl else SETUP)]
        if ddl:      # WideTable.Prefilled
            ops += op_ops({"k": "insert_run", "lo": 1, "len": 600, "ord": "asc"})
        marks = []
        for st in h:
            o = op_ops(st["op"])
            at = len(ops)
            ops += o
            p, ids = probe_ops(n)
            marks.append((at, len(o), len(ops)))
            ops += p
        rend.append({"id": cid, "ops": ops})
        meta[cid] = marks
    inp, outp = vlib.scratch() + "/wide_in.ndjson", vlib.scratch() + "/wide_out.ndjson"
    vlib.write_ndjson(inp, rend)
    vlib.run_vh(["sql-run", "--in", inp, "--out", outp, "--jobs", vlib.NCPU, "--watchdog", 300], timeout=3000)
    return {r["id"]: (r["res"], meta[r["id"]]) for r in vlib.read_ndjson(outp)}


def judge(hists, outs, n=400):
    """-> list of (hist_prefix, kind, detail) problems, stats. kind: 'model' (statement result / scan differs from the
    model: C05 territory) or 'index' (an index path disagrees with the scan of the same database: C10)"""
    probs, stats = [], {"steps": 0, "ok": 0, "abandoned": 0, "rows_max": 0}
    _, ids = probe_ops(n)
    for cid, h in enumerate(hists):
        res, marks = outs[cid]
        for si, st in enumerate(h):
            at, nops, pat = marks[si]
            stats["steps"] += 1
            exp = st["probes"]
            rs = res[at:at + nops]
            if len(res) < pat + 2 or any("ok" not in r for r in rs):
                probs.append((h[:si + 1], "model", {"what": "statement_failed", "op": st["op"], "observed": [json.dumps(r)[:200] for r in rs if "ok" not in r][:2]}))
                stats["abandoned"] += len(h) - si - 1
                break
            got_n = sum(r["ok"].get("n") or 0 for r in rs) if st["op"]["k"] != "reopen" else 0
            pr = res[pat:pat + len(probe_ops(n)[0])]
            if any("rows" not in r for r in pr):
                probs.append((h[:si + 1], "model", {"what": "probe_failed", "observed": [json.dumps(r)[:200] for r in pr if "rows" not in r][:2]}))
                stats["abandoned"] += len(h) - si - 1
                break
            scan = {r[0]: r[1] for r in pr[0]["rows"]}
            stats["rows_max"] = max(stats["rows_max"], len(scan))
            bad = False
            if got_n != st["n"]:
                probs.append((h[:si + 1], "model", {"what": "affected_rows", "expected": st["n"], "observed": got_n})); bad = True
            pts_model = {int(k): v for k, v in (exp["pts"].items() if isinstance(exp["pts"], dict) else enumerate(exp["pts"], 1))}
            model_scan_ok = len(scan) == exp["count"] and all((scan.get(i, -1)) == pts_model.get(i, -1) for i in pts_model)
            if not model_scan_ok:
                probs.append((h[:si + 1], "model", {"what": "scan_differs_from_model", "expected_count": exp["count"], "observed_count": len(scan)})); bad = True
            # index paths against the scan of the same database
            j = 1
            if pr[j]["rows"] != [[len(scan)]]:
                probs.append((h[:si + 1], "index", {"what": "count_star", "scan": len(scan), "observed": pr[j]["rows"]})); bad = True
            j += 1
            for i in ids:
                want = [[scan[i]]] if i in scan else []
                if pr[j]["rows"] != want:
                    probs.append((h[:si + 1], "index", {"what": "pk_point_lookup", "id": i, "scan": want, "observed": pr[j]["rows"]})); bad = True
                j += 1
            for v in (0, 3, 11):
                want = sum(1 for x in scan.values() if x == v)
                if pr[j]["rows"] != [[want]]:
                    probs.append((h[:si + 1], "index", {"what": "secondary_eq_count", "a": v, "scan": want, "observed": pr[j]["rows"]})); bad = True
                j += 1
            for lo, hi in ((60, 70), (120, 260), (n - 5, n)):
                want = sum(1 for x in scan if lo <= x <= hi)
                if pr[j]["rows"] != [[want]]:
                    probs.append((h[:si + 1], "index", {"what": "pk_range_count", "range": [lo, hi], "scan": want, "observed": pr[j]["rows"]})); bad = True
                j += 1
            want = sorted(x for x, v in scan.items() if v == 3)
            if sorted(r[0] for r in pr[j]["rows"]) != want:
                probs.append((h[:si + 1], "index", {"what": "secondary_eq_rows", "scan_n": len(want), "observed_n": len(pr[j]["rows"])})); bad = True
            j += 1
            nsmall = len(scan) - st.get("nbig", 0)          # rows that hold the 200-byte pad (the scan does not show the pad: model)
            pad_judged = model_scan_ok and got_n == st["n"]          # nsmall is only meaningful while the table follows the model
            if pad_judged and pr[j]["rows"] != [[nsmall]]:
                probs.append((h[:si + 1], "index", {"what": "pad_eq_count", "scan": nsmall, "observed": pr[j]["rows"]})); bad = True
            j += 1
            if pad_judged and (len(pr[j]["rows"]) != nsmall or not set(r[0] for r in pr[j]["rows"]) <= set(scan)):
                probs.append((h[:si + 1], "index", {"what": "pad_eq_rows", "scan_n": nsmall, "observed_n": len(pr[j]["rows"])})); bad = True
            for i in ids:
                j += 1
                want = [[i]] if i in scan else []
                if pr[j]["rows"] != want:
                    probs.append((h[:si + 1], "index", {"what": "c_point_lookup", "id": i, "scan": want, "observed": pr[j]["rows"]})); bad = True
            # large values (model kind): a predicate over the out-of-line values, and the pad of three probe rows by projection
            j += 1
            if "nbig" in st:
                if pr[j]["rows"] != [[st["nbig"]]]:
                    probs.append((h[:si + 1], "model", {"what": "predicate_over_out_of_line_value", "query": "COUNT(*) WHERE LENGTH(pad) > 1000", "expected": st["nbig"], "observed": pr[j]["rows"]})); bad = True
                bp = st["bigpts"]
                bp = {int(k): v for k, v in (bp.items() if isinstance(bp, dict) else zip(BIG_PROBE_IDS, bp))}
                for i in BIG_PROBE_IDS:
                    j += 1
                    want = [] if i not in scan else [[3000 if bp.get(i) else 200]]
                    got = [[len(r[0]) if isinstance(r[0], str) else r[0]] for r in pr[j]["rows"]]
                    if got != want:
                        probs.append((h[:si + 1], "model", {"what": "pad_length", "id": i, "expected": want, "observed": got})); bad = True
                stats["big_pad_rows_max"] = max(stats.get("big_pad_rows_max", 0), st["nbig"])
            if not bad:
                stats["ok"] += 1
            if not model_scan_ok or got_n != st["n"]:
                stats["abandoned"] += len(h) - si - 1
                break
    return probs, stats


def replay(chk, rep, kind, prefix="wide"):
    """bin/check CNN --replay: re-run one recorded WideTable behaviour and classify what shows again"""
    h, ddl = rep["wide_hist"], bool(rep.get("wide_ddl"))
    n = 700 if ddl else 400
    vlib.build_harness()
    probs, st = judge([h], execute([h], n=n, ddl=ddl), n=n)
    print("replayed:", describe(h))
    for hp, k, d in probs:
        print("  %s after step %d: %s" % (k, len(hp), json.dumps(d)[:300]))
        if k == kind:
            chk.classify("wide:predicate_over_out_of_line_value" if d["what"] == "predicate_over_out_of_line_value" else "%s:%s:%s" % (prefix, d["what"], hp[-1]["op"]["k"]), {"behaviour": describe(hp), "wide_hist": hp, "wide_ddl": ddl, "detail": d})
    chk.cov = {"evaluations": st["steps"], "distinct_nontrivial": max(2, st["steps"]), "rule": "replay of one recorded behaviour", "samples": [describe(h)],
               "states": 1, "transitions": len(h), "traces_validated_against_impl": 1}
    return chk.finish()

"""Trace validation of the durability protocol: events recorded by `vharness crash-run` -> Trace_Durability.tla.

Only autocommit DML and Database::checkpoint workloads are rendered (transactions, reopen/recovery, TRUNCATE and
PRAGMA wal_checkpoint follow other code paths that Durability.tla does not model yet; they are covered by the crash
materialisation)."""
import json, os, re
import vlib

SUPPORTED = {"insert", "update", "delete", "checkpoint"}


def supported(hist):
    return all(st["op"]["k"] in SUPPORTED for st in hist)


def events_to_trace(hist, out, table_ids):
    """-> list of trace events for one workload (without the leading reset), or None if an event cannot be mapped"""
    tr = []
    cur = None
    flushed = False
    for n, name, op, detail in out["events"]:
        i = op if op >= 0 else -op - 1
        if op >= 0 and cur != i:
            tr.append({"e": "begin"}); cur = i; flushed = False
        if name == "mmap.page_mut":
            f, p = detail.rsplit(":", 1)
            if not f:
                return None
            tr.append({"e": "mut", "f": f, "p": int(p)})
        elif name == "wal.frame_written":
            a = json.loads(detail)
            if not flushed:
                tr.append({"e": "flush"}); flushed = True
            f = table_ids.get(a[2])
            if f is None:
                return None
            tr.append({"e": "frame", "f": f, "p": a[0]})
        elif name == "fsync" and str(detail).startswith("wal."):
            if not flushed:
                tr.append({"e": "flush"}); flushed = True
            tr.append({"e": "walsync"})
        elif name == "msync":
            tr.append({"e": "msync", "f": detail})
        elif name == "truncated" and str(detail).startswith("wal."):
            tr.append({"e": "trunc"})
        elif name == "op_end":
            if cur != i:      # a statement without any hook event
                tr.append({"e": "begin"})
            tr.append({"e": "ack"}); cur = None
        # other events (budget points, created, fsync of other files) are not part of the protocol model
    return tr


def validate(traces, files, max_page, timeout=900):
    """traces: list of event lists. One TLC run validates their concatenation. -> (accepted, detail, stats)"""
    path = vlib.scratch() + "/dur_trace.ndjson"
    n = 0
    with open(path, "w") as f:
        for tr in traces:
            for ev in [{"e": "reset"}] + tr:
                f.write(json.dumps(ev) + "\n"); n += 1
    cfg = vlib.scratch() + "/Trace_Durability.cfg"
    base = open(os.path.join(vlib.SPEC, "Trace_Durability.cfg")).read()
    base = re.sub(r"(?<![A-Za-z])Files = \{[^}]*\}", "Files = {%s}" % ", ".join('"%s"' % x for x in sorted(files)), base)
    base = re.sub(r"Pages = \{[^}]*\}", "Pages = {%s}" % ", ".join(str(i) for i in range(max_page + 1)), base)
    open(cfg, "w").write(base)
    res = vlib.run_tlc("Trace_Durability.tla", cfg, workers=1, timeout=timeout,
                       env={"TRACE": path, "JAVA_TOOL_OPTIONS": "-Xss1g -Dtlc2.tool.queue.IStateQueue=StateDeque"})
    out = res["out"]
    m = re.search(r'"REJECTED_AT", (\d+), (.*)>>', out)
    if res["violated"]:
        return False, {"invariant_violated": res["violated"], "tail": out[-1500:]}, {"events": n}
    if m:
        return False, {"rejected_at": int(m.group(1)), "event": m.group(2)}, {"events": n}
    if res["rc"] != 0:
        raise vlib.ToolError("TLC failed on the durability trace:\n" + out[-2500:])
    return True, {}, {"events": n, "states": res["stats"].get("distinct", 0)}

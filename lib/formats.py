"""Shared plumbing of the data-format checks C31 (records), C32 (JSONB), C33 (spill rows).

Nothing here decides a property: TLC (RecordGen / JsonGen / SpillRow) produces the cases and the expected answers,
the harness (harness/src/formats.rs) produces the observations, and this module renders documents as JSON text,
runs the tools and compares observation with expectation structurally.
"""
import concurrent.futures, json, os, random
import vlib


# ----------------------------------------------------------------------------- running several TLC jobs at once
def tlc_many(jobs, workers=4):
    """jobs: list of dict(name, module, cfg, simulate=None, seed=None, timeout=900). Returns {name: tlc_emit result}."""
    out = {}

    def one(j):
        return j["name"], vlib.tlc_emit(j["module"], j["cfg"], timeout=j.get("timeout", 900), simulate=j.get("simulate"),
                                        seed=j.get("seed"), extra=j.get("extra"), workers=1 if j.get("simulate") else workers)
    with concurrent.futures.ThreadPoolExecutor(max_workers=len(jobs)) as ex:
        for name, res in ex.map(one, jobs):
            out[name] = res
    return out


def write_cfg(name, text):
    p = os.path.join(vlib.scratch(), name)
    with open(p, "w") as f:
        f.write(text)
    return p


def run_harness(sub, cases, tag, timeout=1800, env=None, jobs=None):
    inp, outp = os.path.join(vlib.scratch(), tag + "_in.ndjson"), os.path.join(vlib.scratch(), tag + "_out.ndjson")
    vlib.write_ndjson(inp, cases)
    vlib.run_vh([sub, "--in", inp, "--out", outp, "--jobs", jobs or min(vlib.NCPU, 8)], timeout=timeout, env=env)
    res = {r["id"]: r for r in vlib.read_ndjson(outp)}
    missing = [c["id"] for c in cases if c["id"] not in res]
    if missing:
        raise vlib.ToolError("harness %s returned no result for %d cases (first: %s)" % (sub, len(missing), missing[0]))
    return res


# ----------------------------------------------------------------------------- JSON documents (C32)
class JsonTables:
    def __init__(self, t):
        self.nums = {n["c"]: n for n in t["nums"]}
        self.strs = {s["c"]: s for s in t["strs"]}

    def text_of(self, c):
        s = self.strs[c]
        return "".join(chr(cp) for cp in s["cp"]) * s["rep"]

    def cps_of(self, c):
        s = self.strs[c]
        return list(s["cp"]) * s["rep"]


SHORT = {8: "\\b", 12: "\\f", 10: "\\n", 13: "\\r", 9: "\\t"}
WS_MODES = ("compact", "spaced", "wild")
ESC_MODES = ("raw", "short", "u", "umix")
PLAIN = {"ws": "compact", "esc": "raw", "num": 0}


def _u(cp, upper):
    fmt = "\\u%04X" if upper else "\\u%04x"
    if cp >= 0x10000:
        v = cp - 0x10000
        return fmt % (0xD800 + (v >> 10)) + fmt % (0xDC00 + (v & 0x3FF))
    return fmt % cp


def render_string(cps, esc):
    """One JSON string literal for the code points, in the requested escaping style (all styles denote the same string)."""
    out = ['"']
    for n, cp in enumerate(cps):
        if esc == "u":
            out.append(_u(cp, n % 2 == 0))
        elif cp == 0x22:
            out.append('\\"')
        elif cp == 0x5C:
            out.append("\\\\")
        elif cp < 0x20:
            out.append(SHORT[cp] if cp in SHORT else _u(cp, False))
        elif cp == 0x2F and esc == "short":
            out.append("\\/")
        elif cp >= 0x80 and esc == "umix":
            out.append(_u(cp, False))
        else:
            out.append(chr(cp))
    out.append('"')
    return "".join(out)


def render(doc, tb, sp):
    """JSON text of a JsonGen document under a spelling sp = {ws, esc, num}."""
    ws, esc, numk = sp["ws"], sp["esc"], sp["num"]
    if ws == "compact":
        comma, colon, lo, lc, pad = ",", ":", "", "", ""
    elif ws == "spaced":
        comma, colon, lo, lc, pad = ", ", ": ", "", "", ""
    else:
        comma, colon, lo, lc, pad = " ,\n\t", "\t:\r\n ", "\n ", " \t", " \r\n"

    def go(v):
        t = v["t"]
        if t == "null":
            return "null"
        if t == "bool":
            return "true" if v["b"] else "false"
        if t == "num":
            sps = tb.nums[v["c"]]["sp"]
            return sps[numk % len(sps)]
        if t == "str":
            return render_string(tb.cps_of(v["c"]), esc)
        if t == "arr":
            return "[" + lo + comma.join(go(e) for e in v["e"]) + lc + "]"
        if t == "obj":
            return "{" + lo + comma.join(render_string(tb.cps_of(p["k"]), esc) + colon + go(p["v"]) for p in v["p"]) + lc + "}"
        raise vlib.ToolError("cannot render " + repr(v)[:100])
    return pad + go(doc) + pad


def concrete(doc, tb):
    """The document with classes replaced by concrete scalars (the harness' tree format)."""
    t = doc["t"]
    if t in ("null", "missing"):
        return {"t": t}
    if t == "bool":
        return {"t": "bool", "b": doc["b"]}
    if t == "num":
        return {"t": "num", "v": tb.nums[doc["c"]]["canon"]}
    if t == "str":
        return {"t": "str", "s": tb.text_of(doc["c"])}
    if t == "arr":
        return {"t": "arr", "e": [concrete(e, tb) for e in doc["e"]]}
    if t == "obj":
        return {"t": "obj", "p": [[tb.text_of(p["k"]), concrete(p["v"], tb)] for p in doc["p"]]}
    raise vlib.ToolError("bad document node " + repr(doc)[:100])


def tree_diff(exp, obs, path=()):
    """First difference between an expected and an observed tree: None or (path, expected node, observed node, why).
    Objects are compared as sequences of pairs after a STABLE sort by key (member order is not part of a JSON value)."""
    if not isinstance(obs, dict) or "t" not in obs:
        return (path, exp, obs, "not_a_tree")
    if exp["t"] != obs["t"]:
        return (path, exp, obs, "type")
    t = exp["t"]
    if t == "bool":
        return None if exp["b"] == obs["b"] else (path, exp, obs, "value")
    if t == "num":
        try:
            same = float(exp["v"]) == float(obs["v"])
        except ValueError:
            same = False
        return None if same else (path, exp, obs, "value")
    if t == "str":
        return None if exp["s"] == obs["s"] else (path, exp, obs, "value")
    if t == "arr":
        if len(exp["e"]) != len(obs["e"]):
            return (path, exp, obs, "length")
        for i, (a, b) in enumerate(zip(exp["e"], obs["e"])):
            d = tree_diff(a, b, path + (i,))
            if d:
                return d
        return None
    if t == "obj":
        if len(exp["p"]) != len(obs["p"]):
            return (path, exp, obs, "length")
        ea = sorted(exp["p"], key=lambda kv: kv[0].encode("utf-8"))
        oa = sorted(obs["p"], key=lambda kv: kv[0].encode("utf-8"))
        for (ka, va), (kb, vb) in zip(ea, oa):
            if ka != kb:
                return (path, exp, obs, "keys")
            d = tree_diff(va, vb, path + (ka,))
            if d:
                return d
        return None
    return None


def tree_of_json_text(text):
    """Tree of a JSON text as a reference reader sees it (every pair of every object kept)."""
    def conv(x):
        if x is None:
            return {"t": "null"}
        if isinstance(x, bool):
            return {"t": "bool", "b": x}
        if isinstance(x, (int, float)):
            return {"t": "num", "v": repr(float(x))}
        if isinstance(x, str):
            return {"t": "str", "s": x}
        if isinstance(x, _Pairs):
            return {"t": "obj", "p": [[k, conv(v)] for k, v in x]}
        if isinstance(x, list):
            return {"t": "arr", "e": [conv(e) for e in x]}
        raise ValueError(x)
    return conv(json.loads(text, object_pairs_hook=_Pairs))


class _Pairs(list):
    pass

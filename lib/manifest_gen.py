#!/usr/bin/env python3
"""Regenerates /verif/MANIFEST.json from the table below (single source of truth for check registration)."""
import json, os, subprocess
ROOT = os.path.dirname(os.path.dirname(os.path.abspath(__file__)))

def hook_commits():
    out = subprocess.run(["git", "-C", "/repo", "log", "--format=%h %s"], stdout=subprocess.PIPE, text=True).stdout
    return [l.split()[0] for l in out.splitlines() if l.split(" ", 1)[1].startswith("verif hooks")]

CHECKS = {
 "C03": dict(cat="model_checking", ref="DESIGN.md 3.1, 6 (C03)",
   tech="TLA+ spec Wal.tla model-checked by TLC; every TLC-explored transition replayed on the real Wal (spec->impl conformance)",
   text="TLC exhausts all append/sync/rotate/truncate/reopen histories (<=4 quick, <=5 thorough operations, 2 files x 2 pages, 2 segments) plus one cut or damaged slot, checks NoOverwriteNoPhantom/ReplayExact on the design, and every explored transition is executed on the real Wal with the segment files and the result of recovery compared against the model",
   note="bounded histories; one fault per history, instantiated at representative (quick) or swept (thorough) byte offsets; the harness's own CRC and file parser are trusted"),
 "C39": dict(cat="model_checking", ref="DESIGN.md 3.5, 6 (C39)",
   tech="TLA+ spec MemBudget.tla model-checked by TLC (safety + termination); TLC schedules driven through the real MemoryBudget by a puppeteer at hook points",
   text="TLC explores every interleaving of 2 threads x 2 calls (3 threads x 1 call in thorough) at the granularity of the code's atomic operations; each explored transition is a schedule that is forced on the real code, comparing path, results and pool counters after every step and evaluating HardLimit/Accounting on the observed counters",
   note="schedule points only where hooks are (total_used() is one step); sizes {5,8} units near a 32-unit limit; cross-pool race is a recorded finding whose region is carved out by the ghost variable `overlap`"),
 "C36": dict(cat="model_checking", ref="DESIGN.md 3.4, 6 (C36)",
   tech="TLA+ spec PageLocks.tla model-checked by TLC (safety + liveness); TLC schedules driven through the real PageLockManager by a puppeteer at hook points",
   text="TLC explores every interleaving of 2 threads x 3 lock/unlock/table-intent operations over 2 pages (3 threads in thorough) with one action per critical section of the code, checks MutexW/NoRW/TablesEmptyWhenIdle and AcquireSucceeds under weak fairness; each explored transition is forced on the real lock manager, with the harness's own occupancy table and the lock-table sizes compared after every step; in addition real threads (2 writers, 3-4 readers of one hot page, 2 threads on neighbouring pages) hammer the real PageLockManager for a few seconds while MutexW / MutexRW are monitored on a shadow state changed only under the real lock (reaches interleavings inside regions without hook points; nondeterministic)",
   note="blocking is modelled as disabledness (schedules never park a thread inside a contended lock); schedule points exist only at the hooks; page_write_multi not modelled"),
 "C34": dict(cat="model_checking", ref="DESIGN.md 3.7, 6 (C34)",
   tech="TLA+ spec Freelist.tla (trunk-shaped model vs abstract free set) model-checked by TLC; single-operation and bulk (FreelistBulk.tla) histories from TLC replayed on the real Freelist",
   text="TLC checks Conservation/CountIsAllocatable/NoDoubleAlloc for every release/allocate history up to 9 operations over 6 pages with 2-entry trunks (several trunks crossed); every explored single-operation history (real trunk size) and every bulk history with runs of 1,2,4089..4092 operations (up to 3 real trunk boundaries, both directions) is executed on the real Freelist and judged by the abstract set semantics plus the model's predicted counts",
   note="page identity is not compared (any free page may be returned); sparse in-memory Storage in the harness; double release is outside the client contract"),
 "C37": dict(cat="model_checking", ref="DESIGN.md 3.3, 6 (C37)",
   tech="TLA+ spec GroupCommit.tla (queue + caller protocol) model-checked by TLC incl. liveness; TLC schedules driven through the real GroupCommitQueue by a puppeteer, C37 evaluated on observed acknowledgements vs log",
   text="TLC explores every interleaving of 2 committers x 2 commits (3 committers in thorough) with injected write failures, one action per critical section of the queue mutex, and checks AckAfterWrite/AtMostOnce/FailureReachesAll/NoStuckFlag and NoLostWakeup under weak fairness; each explored transition is a schedule forced on the real queue with the caller protocol enacted step by step; after any divergence the execution is continued and judged on what is observed",
   note="the caller protocol is re-enacted by the harness on the bare queue (not through Database handles); the WAL write is a harness-side log; the 30 s timeout is outside the model"),
 "C04": dict(cat="model_checking", ref="DESIGN.md 3.9, 6 (C04)",
   tech="TLA+ reference spec Relational.tla explored by TLC (per-transition emission, VIEW hides history; -simulate random walks); every behaviour rendered to SQL and replayed on TurDB, results and full observation compared with the model",
   text="Reopen and Checkpoint are stuttering actions of Relational.tla interleaved anywhere in the DML histories TLC explores (depth 3 quick / 4 thorough, plus action-weighted random walks of 12-20 steps in which reopen, checkpoint and DELETE-all motifs are frequent); after each, the full observation (scan, COUNT(*), primary-key, unique and range lookups) must equal the model's and later statements must behave as the model says; run with the WAL off and on, the checkpoint issued as the API call, as PRAGMA wal_checkpoint, and automatically (threshold 1)",
   note="bounded domain (3 ids, a in {NULL,1,2}, b in {NULL,0,1,5}); quick replays a stratified seeded sample of the explored transitions plus random walks, thorough replays depth-4 transitions; renderer/normaliser in lib/relational.py trusted; open findings listed in known_findings.json by spec-defined signature"),
 "C05": dict(cat="model_checking", ref="DESIGN.md 3.9, 6 (C05)",
   tech="TLA+ reference spec Relational.tla explored by TLC (per-transition emission, VIEW hides history; -simulate random walks); every behaviour rendered to SQL and replayed on TurDB, results and full observation compared with the model",
   text="every INSERT (1 and 2 rows) / UPDATE / DELETE / TRUNCATE transition TLC explores from every reachable table state (with tombstone and reopen history classes in the VIEW) is executed on TurDB: affected-row count, resulting rows and COUNT(*) must equal the model's; the same behaviours with the last statement issued ... RETURNING id, a, b must return the model's `ret` rows (inserted rows, new images, deleted rows); INSERT .. ON CONFLICT DO NOTHING / (id|a) DO UPDATE SET c = v (USpec: every variant over collisions on the primary key, the UNIQUE key, both, none) is judged the same way; a second reference, WideTable.tla, drives statements on runs of ids over tables of 150-400 rows (leaf and interior splits), including UPDATEs that move the 200-byte pad of runs of rows to a 3000-byte out-of-line (TOAST) value and back, with affected-row counts and the scan compared with the model after every step",
   note="bounded domain (3 ids, a in {NULL,1,2}, b in {NULL,0,1,5}); quick replays a stratified seeded sample of the explored transitions plus random walks, thorough replays depth-4 transitions; renderer/normaliser in lib/relational.py trusted; open findings listed in known_findings.json by spec-defined signature"),
 "C06": dict(cat="model_checking", ref="DESIGN.md 3.9, 6 (C06)",
   tech="TLA+ reference spec Relational.tla explored by TLC (per-transition emission, VIEW hides history; -simulate random walks); every behaviour rendered to SQL and replayed on TurDB, results and full observation compared with the model",
   text="every failing statement TLC generates (all failure kinds incl. k-th row of a multi-row INSERT and multi-row UPDATE) and every statement TurDB rejects: the full observation afterwards must equal the model's pre-statement state (also for refused INSERT .. ON CONFLICT statements, USpec, and for statements that are wrong in themselves - unknown table / column / function, too many values, text into an INT column, also as the second row of a VALUES list and in a multi-row UPDATE / DELETE: BSpec); on a table with an AUTO_INCREMENT primary key (schedules of AutoInc.tla) every statement TurDB rejects must leave the table as read back before it",
   note="bounded domain (3 ids, a in {NULL,1,2}, b in {NULL,0,1,5}); quick replays a stratified seeded sample of the explored transitions plus random walks, thorough replays depth-4 transitions; renderer/normaliser in lib/relational.py trusted; open findings listed in known_findings.json by spec-defined signature"),
 "C09": dict(cat="model_checking", ref="DESIGN.md 3.9, 6 (C09)",
   tech="TLA+ reference spec Relational.tla explored by TLC (per-transition emission, VIEW hides history; -simulate random walks); every behaviour rendered to SQL and replayed on TurDB, results and full observation compared with the model",
   text="TurDB must accept a write iff Relational.tla's TableOk (PRIMARY KEY, UNIQUE with distinct NULLs, NOT NULL, CHECK) holds for the resulting table, for every explored transition, both directions (accepts_invalid / rejects_valid) reported, including INSERT .. ON CONFLICT DO NOTHING / DO UPDATE whose updated image keeps or breaks each constraint (USpec); FOREIGN KEY is decided with ForeignKey.tla (parent / child tables, ON DELETE noaction | restrict | cascade, key updates, two-row statements, ROLLBACK, reopen; no dangling reference in what TurDB shows) and CHECK with CheckExpr.tla (912 expressions incl. every AND / OR / NOT shape written with minimal parentheses, NULL passes, through INSERT and UPDATE); after every sampled behaviour the constraint state itself is probed: the table must accept exactly the single-row INSERTs the model accepts (Accepts in MC_Relational.tla), so a unique / primary-key entry lost or left behind by an earlier statement shows at once",
   note="bounded domain (3 ids, a in {NULL,1,2}, b in {NULL,0,1,5}); quick replays a stratified seeded sample of the explored transitions plus random walks, thorough replays depth-4 transitions; renderer/normaliser in lib/relational.py trusted; open findings listed in known_findings.json by spec-defined signature"),
 "C10": dict(cat="model_checking", ref="DESIGN.md 3.9, 6 (C10)",
   tech="TLA+ reference spec Relational.tla explored by TLC (per-transition emission, VIEW hides history; -simulate random walks); every behaviour rendered to SQL and replayed on TurDB, results and full observation compared with the model",
   text="after every explored transition on a table with primary-key, unique and secondary indexes, every index-path query (point, range, IS NULL) is compared with what the full scan of the same database implies; no model is involved in the comparison, the model only generates the histories; plus a transaction-focused exhaustive exploration (TSpec: ROLLBACK / ROLLBACK TO / RELEASE histories of depth 6-7 on a table with a CREATE INDEX index) INSERT .. ON CONFLICT histories (USpec), and WideTable.tla walks over tables of 150-1000 rows (primary-key and secondary-index probes vs the scan after every step; in the DDL variant the indexes on a, pad and a unique-valued column are created and dropped on the populated table)",
   note="bounded domain (3 ids, a in {NULL,1,2}, b in {NULL,0,1,5}); quick replays a stratified seeded sample of the explored transitions plus random walks, thorough replays depth-4 transitions; renderer/normaliser in lib/relational.py trusted; open findings listed in known_findings.json by spec-defined signature"),
}

NOT_APPLICABLE = {}

# checks registered by their own module: lib/checks/cNN.py may define
#   MANIFEST = dict(cat=<level category>, ref=<DESIGN.md section>, tech=<technique>, text=<level text>, note=<level note>)
# modules accepted by the coordinator (a module under development is not registered until it is listed here)
ACCEPTED = ["C01", "C02", "C07", "C08", "C11", "C12", "C13", "C14", "C15", "C16", "C17", "C18", "C19", "C20", "C21", "C22", "C23", "C24", "C25", "C26", "C27", "C28", "C29", "C30", "C31", "C32", "C33", "C35", "C38", "C40", "C41", "C42", "C43"]


def _module_checks():
    import importlib, sys, glob
    sys.path.insert(0, os.path.join(ROOT, "lib"))
    for f in sorted(glob.glob(os.path.join(ROOT, "lib", "checks", "c[0-9][0-9].py"))):
        pid = os.path.basename(f)[:-3].upper()
        mod = importlib.import_module("checks." + pid.lower())
        m = getattr(mod, "MANIFEST", None)
        if m and pid not in CHECKS and pid in ACCEPTED:
            assert m["cat"] == mod.LEVEL, (pid, "MANIFEST cat differs from LEVEL")
            CHECKS[pid] = m
        na = getattr(mod, "NOT_APPLICABLE", None)
        if na and pid not in CHECKS:
            NOT_APPLICABLE[pid] = na

def main():
    _module_checks()
    ids = [json.loads(l)["id"] for l in open(os.path.join(ROOT, "properties.jsonl"))]
    checks = []
    for pid in ids:
        if pid not in CHECKS:
            continue
        c = CHECKS[pid]
        checks.append({
            "property_id": pid,
            "quick_cmd": "bin/check %s --tier quick" % pid,
            "thorough_cmd": "bin/check %s --tier thorough" % pid,
            "evidence_file": "/verif/evidence/%s.json" % pid,
            "replay_cmd_template": "bin/check %s --replay {path}" % pid,
            "engine": "tlc",
            "technique": c["tech"],
            "level_claimed": {"category": c["cat"], "text": c["text"], "design_ref": c["ref"]},
            "level_note": c["note"],
        })
    na = [{"property_id": i, "reason": NOT_APPLICABLE.get(i, "check not built yet (work in progress; see DESIGN.md section 9 build order)")}
          for i in ids if i not in CHECKS]
    m = {
        "version": 1,
        "setup_cmd": "cd /verif/harness && cargo build --release --offline",
        "hooks": {
            "guard": "kahflane_turdb_verif",
            "enable": "rustc cfg: /verif/harness/.cargo/config.toml sets rustflags = [\"--cfg\", \"kahflane_turdb_verif\"]; the harness has a path dependency on /repo, so every check rebuilds TurDB from /repo's working tree with hooks on",
            "baseline_off_cmd": "/verif/bin/baseline",
            "source_commits": hook_commits(),
            "add_only": True,
        },
        "engines": [{"name": "tlc", "path": "/verif/spec", "serves_properties": sorted(CHECKS),
                     "kind_free_text": "explicit TLA+ specifications model-checked by TLC; behaviours/schedules emitted by TLC are replayed on the real code by /verif/harness (puppeteer for schedules), traces recorded from the real code are validated against Trace_* specs"}],
        "checks": checks,
        "not_applicable": na,
        "notes": "bin/check <id> --tier quick|thorough; exit 0 held / 1 VIOLATION / 2 tool error. known_findings.json lists open genuine defects by spec-defined signature.",
    }
    json.dump(m, open(os.path.join(ROOT, "MANIFEST.json"), "w"), indent=1)

if __name__ == "__main__":
    main()

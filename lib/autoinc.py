"""C12 plumbing: AutoInc.tla schedules -> harness cases -> observed traces -> AutoIncTrace.tla (the judge, run by TLC).

Python renders and collects; it never decides whether a generated value is admissible. The judge's verdict records
(kinds / shape / blame / blocker, all computed by TLC from AutoInc's operators) are only mapped to signatures here."""
import json, os
import vlib, reldl
from reldl import N, lit

SCHEMA = "CREATE TABLE t (id INT PRIMARY KEY AUTO_INCREMENT, v INT)"
SCAN = "SELECT id, v FROM t"
C12_KINDS = {"gen_reused", "gen_not_increasing", "gen_null", "gen_missing", "returning_differs_from_stored", "rejected_valid", "panic"}


def step_ops(op):
    k = op["k"]
    if k == "ins":
        items = op["items"]
        if op["form"] == "omit":
            sql = "INSERT INTO t (v) VALUES %s RETURNING id" % ", ".join("(%d)" % it["v"] for it in items)
        else:
            sql = "INSERT INTO t VALUES %s RETURNING id" % ", ".join("(%s, %d)" % (lit(it["id"]), it["v"]) for it in items)
        return [{"k": "exec", "sql": sql}]
    if k == "bulk":
        return [{"k": "bulk", "api": op["api"], "table": "t", "schema": "root", "sql": "INSERT INTO t VALUES (?, ?)",
                 "rows": [[None if it["id"] == N else it["id"], it["v"]] for it in op["items"]]}]
    if k == "del":
        return [{"k": "exec", "sql": "DELETE FROM t" if op["w"] == "all" else "DELETE FROM t WHERE id = %d" % op["ids"][0]}]
    if k == "trunc":
        return [{"k": "exec", "sql": "TRUNCATE TABLE t"}]
    if k == "upd":
        return [{"k": "exec", "sql": "UPDATE t SET id = %d WHERE id = %d" % (op["to"], op["from"])}]
    if k == "reopen":
        return [{"k": "reopen"}]
    if k in ("begin", "commit", "rollback"):
        return [{"k": "exec", "sql": k.upper()}]
    raise ValueError(k)


def describe(hist):
    out = []
    for h in hist:
        o = step_ops(h["op"])[0]
        out.append(o.get("sql") or (o["k"] + (":" + o["api"] + json.dumps(o["rows"]) if o["k"] == "bulk" else "")))
    return "; ".join(out)


def render(cid, hist):
    ops = [{"k": "exec", "sql": SCHEMA}]
    for h in hist:
        ops += step_ops(h["op"])
        ops.append({"k": "query", "sql": SCAN})
    return {"id": cid, "ops": ops}


def observe(cid, hist, res):
    """-> (trace for the judge, list of harness-level events: panic / cut). One judge step per executed model step."""
    steps, events = [], []
    if not res or "fatal" in res[0] or not reldl.is_ok(res[0]):
        return None, [{"kind": "setup_failed", "detail": json.dumps(res[:1])[:200]}]
    for i, h in enumerate(hist):
        op = h["op"]
        ri, si = 1 + 2 * i, 2 + 2 * i
        if ri >= len(res):
            events.append({"kind": "cut", "at": i})
            break
        r = res[ri]
        if "panic" in r:
            events.append({"kind": "panic", "at": i, "detail": r["panic"][:200], "op": op["k"], "api": op.get("api", "sql")})
            break
        scan = reldl.rows_of(res[si]) if si < len(res) else None
        if scan is None:
            detail = json.dumps(res[si])[:200] if si < len(res) else "not executed"
            events.append({"kind": "scan_failed", "at": i, "detail": detail, "op": op["k"], "api": op.get("api", "sql"), "stmt": json.dumps(r)[:200]})
            break
        ok = "ok" in r
        if op["k"] == "bulk" and ok and r["ok"].get("nerr", 0) > 0:
            ok = False
        ret, hasret = [], False
        if op["k"] == "ins" and ok and r["ok"].get("rows") is not None:
            ret, hasret = [reldl.val(x[0]) if x else N for x in r["ok"]["rows"]], True
        steps.append({"k": op["k"], "api": op.get("api", "sql"),
                      "items": [[it["id"], it["v"]] for it in op.get("items", [])],
                      "ok": ok, "hasret": hasret, "ret": ret, "rows": scan,
                      "ids": op.get("ids", []), "w": op.get("w", ""), "from": op.get("from", 0), "to": op.get("to", 0),
                      "err": "" if ok else (r.get("err") or json.dumps(r.get("ok", {}).get("errs", [])))[:160]})
    return {"id": cid, "steps": steps}, events


def judge(traces, timeout=1800, workers=8):
    """Runs AutoIncTrace.tla over the observed traces -> {(trace id, step): verdict}."""
    path = os.path.join(vlib.scratch(), "c12_traces.ndjson")
    vlib.write_ndjson(path, [{"id": t["id"], "steps": [{k: v for k, v in s.items() if k != "err"} for s in t["steps"]]} for t in traces])
    res = vlib.run_tlc("AutoIncTrace.tla", os.path.join(vlib.SPEC, "AutoIncTrace.cfg"), workers=workers, timeout=timeout, env={"TRACE": path})
    vlib.tlc_ok(res, "AutoIncTrace (judge)")
    if res["violated"]:
        raise vlib.ToolError("the judge violated its own invariant: %s" % res["violated"])
    out = {}
    for v in vlib.parse_emitted(res["out"]):
        out[(v["id"], v["step"])] = v
    want = sum(len(t["steps"]) for t in traces)
    if len(out) != want:
        raise vlib.ToolError("judge printed %d verdicts for %d observed steps" % (len(out), want))
    return out, res["stats"]


def stale(origin):
    """values the column held that a counter following only successful INSERT statements does not know about"""
    return origin in ("update", "leftover_of_failed_statement") or origin.startswith("explicit_") or origin.startswith("gen_")


def signatures(v):
    """verdict -> list of (signature, is_c12). Every word comes from the judge's record (AutoIncTrace.tla):
    kinds (which clause of GenOK / MayFail fails), blame (origin and whereabouts of a re-generated value), cause."""
    sigs = []
    api = v["api"]
    by = "" if api == "sql" else ":by=" + api
    shape = ",".join(v.get("shape") or [])
    for k in sorted(v["kinds"]):
        if k == "gen_reused":
            for b in sorted(v["blame"], key=lambda b: b["g"]):
                o = b["origin"]
                if stale(o):
                    sigs.append(("stale_counter:%s" % o, True))
                else:
                    reop = ":reopened" if v["reopened"] else ""
                    sigs.append(("gen_reused:origin=%s:where=%s%s%s" % (o, b["where"], reop, by), True))
        elif k in ("gen_null", "gen_missing", "returning_differs_from_stored"):
            sigs.append(("%s:%s" % (k, api), True))
        elif k == "gen_not_increasing":
            sigs.append(("gen_not_increasing:%s%s" % (api, ":reopened" if v["reopened"] else ""), True))
        elif k == "rejected_valid":
            c = v["cause"]
            if v["ngen"] > 0 and api != "sql":
                sigs.append(("bulk_api_rejected_batch:%s" % api, False))      # C43's business: nothing was generated
            elif v["ngen"] > 0 and c.startswith("blocked_by_") and stale(c[len("blocked_by_"):]):
                sigs.append(("stale_counter:%s" % c[len("blocked_by_"):], True))
            elif v["ngen"] > 0 and c == "after_bulk_insert":
                sigs.append(("generating_insert_rejected:after_bulk_insert", True))
            elif v["ngen"] > 0:
                sigs.append(("generating_insert_rejected:shape=%s:cause=%s" % (shape, c), True))
            else:
                sigs.append(("explicit_insert_rejected:%s:shape=%s" % (api, shape), False))
        else:
            sigs.append(("%s:%s:%s" % (k, v["k"], api), False))
    return sigs

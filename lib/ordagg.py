"""Plumbing shared by C15 (OrderLimit.tla) and C16 (Aggregate.tla): fixed tables, SQL rendering of the queries TLC
enumerates, batch execution through the sql-run harness (with EXPLAIN to classify the execution path).
Nothing here decides a property: expected answers and admissibility classes come from TLC."""
import json, re
import vlib

N = -99          # NULL in the specs
NOLIM = -1

# the tables of OrderLimit.tla / Aggregate.tla (kept in step with Tab(t) by check_tables())
TABLES = {
    "t": [(1, 2, 1), (2, N, 1), (3, 1, N), (4, 2, 0), (5, N, N), (6, 2, 1), (7, 1, 0)],
    "u": [(1, 2, 1), (2, 0, 1), (3, 1, 3), (4, 2, 0), (5, 0, 2), (6, 2, 1)],
    "e": [],
    "n": [(1, N, 1), (2, N, 0), (3, N, 1)],
}
W = [(1, 1), (2, 2), (3, 2), (4, N)]


def lit(v):
    return "NULL" if v == N else str(v)


def text_of(v):
    """column s is the TEXT image of column b under an order-preserving encoding: 0 -> 'a', 1 -> 'b', ..."""
    return None if v == N else chr(ord("a") + v)


def code_of(s):
    """inverse of text_of for observed values; anything else is returned unchanged"""
    if isinstance(s, str) and len(s) == 1 and "a" <= s <= "z":
        return ord(s) - ord("a")
    return s


def setup_sql(indexed=False):
    """DDL + INSERTs. indexed=True adds a secondary index on column a of every table (same names, so the same SQL
    text runs against the indexed copy). Every table has a fourth column s TEXT = text_of(b) (used by C16)."""
    out = []
    for t, rows in TABLES.items():
        out.append("CREATE TABLE %s (id INT PRIMARY KEY, a INT, b INT, s TEXT)" % t)
        for r in rows:
            out.append("INSERT INTO %s VALUES (%s, %s)" % (t, ", ".join(lit(v) for v in r), "NULL" if r[2] == N else "'%s'" % text_of(r[2])))
        if indexed:
            out.append("CREATE INDEX ix_%s_a ON %s (a)" % (t, t))
    out.append("CREATE TABLE w (id INT PRIMARY KEY, a INT)")
    for r in W:
        out.append("INSERT INTO w VALUES (%s)" % ", ".join(lit(v) for v in r))
    return out


def denull(v):
    """spec value -> python value (N -> None), recursively"""
    if isinstance(v, list):
        return [denull(x) for x in v]
    return None if v == N else v


# ------------------------------------------------------------------ plan shape from EXPLAIN
_OP = re.compile(r"->\s*([A-Za-z]+)")


def plan_shape(plan_text):
    """'-> Sort\n  -> Project\n    -> TableScan on t (reverse=false)' -> 'Sort/Project/TableScan'"""
    if not plan_text:
        return "?"
    ops = []
    for line in plan_text.splitlines():
        m = _OP.search(line)
        if m:
            op = m.group(1)
            if op == "TableScan" and "reverse=true" in line:
                op = "TableScanRev"
            if op == "SecondaryIndexScan":
                op = "IndexScanRev" if "reverse=true" in line else "IndexScan"
            ops.append(op)
    return "/".join(ops) or "?"


def run_queries(setup, queries, batch=100, explain=True, jobs=None, watchdog=120):
    """queries: list of SQL strings. Returns list of dict(res=<{"rows"}|{"err"}|{"panic"}|{"missing"}>, plan=<shape>).
    Every batch runs on a fresh database; a panic ends its case, the rest of that batch is re-run one by one."""
    setup_ops = [{"k": "exec", "sql": s} for s in setup]
    ns = len(setup_ops)
    per = 2 if explain else 1

    def ops_for(qs):
        ops = []
        for s in qs:
            if explain:
                ops.append({"k": "exec", "sql": "EXPLAIN " + s})
            # a panic is data; the session goes on (read-only queries), and every failing query is confirmed
            # afterwards in a session without panics
            ops.append({"k": "query", "sql": s, "stop_on_panic": False})
        return ops

    out = [None] * len(queries)
    pending = []
    for i in range(0, len(queries), batch):
        pending.append(list(range(i, min(i + batch, len(queries)))))
    rnd = 0
    while pending:
        cases = [{"id": ci, "ops": setup_ops + ops_for([queries[i] for i in idx])} for ci, idx in enumerate(pending)]
        inp, outp = vlib.scratch() + "/oa_in%d.ndjson" % rnd, vlib.scratch() + "/oa_out%d.ndjson" % rnd
        vlib.write_ndjson(inp, cases)
        vlib.run_vh(["sql-run", "--in", inp, "--out", outp, "--jobs", jobs or vlib.NCPU, "--watchdog", watchdog], timeout=3000)
        retry = []
        for r in vlib.read_ndjson(outp):
            idx = pending[r["id"]]
            res = r["res"]
            if res and "fatal" in res[0]:
                raise vlib.ToolError("cannot create scratch database: %s" % res[0]["fatal"])
            for j in range(min(ns, len(res))):
                if "ok" not in res[j]:
                    raise vlib.ToolError("setup statement failed: %s -> %s" % (setup[j], json.dumps(res[j])[:300]))
            for pos, qi in enumerate(idx):
                k = ns + per * pos
                plan = None
                if explain and k < len(res):
                    plan = (res[k].get("ok") or {}).get("plan")
                kq = k + per - 1
                if kq < len(res):
                    out[qi] = {"res": res[kq], "plan": plan_shape(plan)}
                else:
                    # not executed: an earlier query of this batch panicked (a panic ends its case); the rest of
                    # the batch is re-run as one new batch
                    if pos == 0:
                        out[qi] = {"res": {"missing": True}, "plan": plan_shape(plan)}
                        if len(idx) > 1:
                            retry.append(idx[1:])
                    else:
                        retry.append(idx[pos:])
                    break
        pending = retry
        rnd += 1
    return out


def norm_val(v):
    if isinstance(v, dict):
        if "f" in v:
            try:
                return float(v["f"])
            except ValueError:
                return ("float", v["f"])
        if "bool" in v:
            return bool(v["bool"])
        return ("other", json.dumps(v, sort_keys=True))
    return v


def norm_rows(rows):
    return [[norm_val(v) for v in r] for r in rows]


def err_class(msg):
    """error text with the volatile parts removed"""
    m = re.sub(r"[0-9]+", "#", str(msg))
    m = re.sub(r"'[^']*'", "'_'", m)
    return m[:90]

"""C40 - catalog persistence round-trips and survives crashes during DDL (spec/Catalog.tla).

(A) TLC model-checks the persistence protocol of Catalog.tla - one action per file-system step of
    CatalogPersistence::save - with NoLoss / NoTableLost evaluated in every state (= a crash after every step, in the
    kill and the power-loss model) for the protocol the code uses (temp file + rename); the in-place protocol of the
    pinned tree is kept as a witness configuration that MUST violate NoLoss (non-vacuity of the invariant).
(B) every DDL history TLC explores (CREATE/DROP TABLE, CREATE/DROP INDEX, ADD COLUMN over a pre-existing populated
    table) is executed on TurDB with the durability hooks on; at every hook event (catalog/meta write steps, file
    creation, page mutation, sync, rename) and statement boundary the directory is snapshotted in both crash models,
    reopened, and judged: the database opens, the on-disk catalog loads and equals the model's catalog before or
    after the running statement on every table that existed before it, and the pre-existing table is readable with
    its rows.
(C) round trip: after every history the catalog file is loaded (CatalogPersistence::load) and compared with the
    model's catalog (tables, column lists, explicit indexes), and its full structural dump (types, constraints,
    defaults, index kinds, table ids) must be identical after close + reopen.
"""
import json, os, random
import vlib

LEVEL = "fault_enumeration"
MANIFEST = dict(cat=LEVEL, ref="DESIGN.md 3.2, 6 (C40)",
    tech="TLA+ spec Catalog.tla (DDL actions + one action per file-system step of the catalog save protocol) model-checked by TLC for NoLoss in two crash models; TLC-generated DDL histories executed on TurDB with every hook event materialised as a crash point (kill / power-loss shadow), reopened and compared with the model's catalogs; on-disk catalog round trip compared with the model",
    text="TLC exhausts every DDL history of <=4 statements over 2 table names x 2 column templates with the save protocol interleaved step by step (NoLoss in every state, both crash models; the in-place protocol is shown to violate it); each explored history is executed on TurDB, every hook event and statement boundary is a crash point in both crash models, and after reopening the catalog must load and equal the model's catalog before or after the running statement for every pre-existing table and index, with the pre-existing rows readable; the on-disk catalog equals the model after every statement and is byte-structurally identical across reopen",
    note="assumptions A-FS / A-KILL (rename and truncation take effect at once; no torn writes); catalogs reachable by the DDL of Catalog.tla (2 templates covering INT/BIGINT/FLOAT/TEXT/DATE, PRIMARY KEY, NOT NULL, UNIQUE, DEFAULT, unique and plain secondary indexes, ADD COLUMN with DEFAULT); foreign keys, non-default schemas and HNSW indexes are not in the model")

TEMPLATE_SQL = {1: "(id INT PRIMARY KEY, a INT, s TEXT)",
                2: "(k BIGINT PRIMARY KEY, f FLOAT NOT NULL, d DATE DEFAULT '2020-02-29', v TEXT UNIQUE)"}
SETUP = ["CREATE TABLE t " + TEMPLATE_SQL[1], "INSERT INTO t VALUES (1, 10, 'x'), (2, 20, 'y')"]
T_ROWS = [[1, 10, "x"], [2, 20, "y"]]
IMPLICIT = ("_pkey", "_key")


def op_sql(op):
    k = op["k"]
    if k == "create_table":
        return "CREATE TABLE %s %s" % (op["n"], TEMPLATE_SQL[op["tmpl"]])
    if k == "drop_table":
        return "DROP TABLE %s" % op["n"]
    if k == "create_index":
        return "CREATE %sINDEX %s ON %s (%s)" % ("UNIQUE " if op["unique"] else "", op["name"], op["n"], op["col"])
    if k == "drop_index":
        return "DROP INDEX %s" % op["name"]
    if k == "add_column":
        return "ALTER TABLE %s ADD COLUMN %s INT DEFAULT 7" % (op["n"], op["col"])
    raise ValueError(k)


def describe(hist):
    return "; ".join(op_sql(h["op"]) for h in hist)


def model_cat(c):
    """model catalog -> {table: (cols, sorted explicit index names)}"""
    return {n: (list(t["cols"]), sorted(i["name"] for i in t["idx"])) for n, t in c.items()}


def dump_cat(rows):
    """harness catalog dump -> same shape, user tables of schema root only; implicit constraint indexes dropped"""
    out = {}
    for schema, table, tid, cols, idx in rows:
        if schema != "root" or table is None:
            continue
        names = sorted(i[0] for i in idx if not i[0].endswith(IMPLICIT))
        out[table] = ([c[0] for c in cols], names)
    return out


INITIAL = {"t": (["id", "a", "s"], [])}


def judge_snapshot(snap, before, after):
    """before/after: model catalogs (dict) around the running statement (equal at a boundary). -> list of problems"""
    if snap["open"] != "ok":
        return [("reopen_failed" if snap["open"].startswith("err") else "reopen_panicked", snap["open"][:160])]
    res = snap["res"]
    probs = []
    cat = res[0]
    if "rows" not in cat:
        return [("catalog_unloadable", json.dumps(cat)[:160])]
    got = dump_cat(cat["rows"])
    survivors = [n for n in before if n in after]          # tables that existed before the statement and are not being dropped
    for n in survivors:
        if n not in got:
            probs.append(("table_lost", n))
            continue
        if got[n] != before[n] and got[n] != after[n]:
            lost_idx = set(before[n][1]) & set(after[n][1]) - set(got[n][1])
            probs.append(("index_lost" if lost_idx else "table_definition_neither_old_nor_new", "%s: %s" % (n, json.dumps(got[n]))))
    if got != before and got != after and not probs:
        # tolerated by the property (orphans / the new table half registered) but recorded
        pass
    scan = res[1]
    if "rows" not in scan or sorted(r[:3] for r in scan["rows"]) != T_ROWS:
        probs.append(("preexisting_rows_unreadable", json.dumps(scan)[:160]))
    return probs


def run(chk):
    thorough = chk.tier == "thorough"
    chk.assumptions += ["A-FS / A-KILL (DESIGN.md 2.3)", "pre-existing table t(id INT PRIMARY KEY, a INT, s TEXT) with two rows; DDL on names {u, w} and on t",
                        "WAL on, synchronous=FULL during the histories"]
    vlib.build_harness(); chk.mark("build")
    # (A) the protocol
    mc = vlib.run_tlc("MC_Catalog.tla", os.path.join(vlib.SPEC, "MC_Catalog.cfg"), coverage=True, timeout=900)
    vlib.tlc_ok(mc, "MC_Catalog")
    if mc["violated"]:
        raise vlib.ToolError("Catalog.tla (temp_rename) violates %s" % mc["violated"])
    wit = vlib.run_tlc("MC_Catalog.tla", os.path.join(vlib.SPEC, "MC_Catalog_in_place.cfg"), timeout=600)
    vlib.tlc_ok(wit, "MC_Catalog_in_place")
    if "NoLoss" not in wit["violated"]:
        raise vlib.ToolError("the in-place witness configuration no longer violates NoLoss: the invariant is vacuous")
    chk.mark("tlc_mc")
    # (B)+(C) histories
    cfg = vlib.scratch() + "/GenCatalog.cfg"
    open(cfg, "w").write(open(os.path.join(vlib.SPEC, "Gen_Catalog.cfg")).read().replace("MaxOps = 4", "MaxOps = %d" % (4 if thorough else 3)))
    gen = vlib.tlc_emit("MC_Catalog.tla", cfg, timeout=900)
    cases = gen["emitted"]
    total = len(cases)
    rng = random.Random(chk.seed)
    # maximal histories carry their prefixes as crash points: keep the longest ones, sampled by shape
    maxlen = max(len(c["hist"]) for c in cases)
    longest = [c for c in cases if len(c["hist"]) == maxlen]
    if not thorough:
        longest = vlib.stratified_sample(longest, lambda c: tuple(h["op"]["k"] for h in c["hist"]), 32, rng)
    rend = []
    for cid, c in enumerate(longest):
        rend.append({"id": cid, "setup": [{"k": "exec", "sql": s} for s in SETUP],
                     "after_reopen": [{"k": "exec", "sql": "PRAGMA wal=ON"}, {"k": "exec", "sql": "PRAGMA synchronous=FULL"}],
                     "work": [{"k": "exec", "sql": op_sql(h["op"])} for h in c["hist"]],
                     "verify": [{"k": "catalog"}, {"k": "query", "sql": "SELECT id, a, s FROM t"}], "models": ["kill", "power"], "stride": 1})
    inp, outp = vlib.scratch() + "/c40_in.ndjson", vlib.scratch() + "/c40_out.ndjson"
    vlib.write_ndjson(inp, rend)
    vlib.run_vh(["crash-run", "--in", inp, "--out", outp, "--jobs", vlib.NCPU], timeout=3000)
    chk.mark("crash_run")
    outs = {r["id"]: r for r in vlib.read_ndjson(outp)}
    stats = {"snapshots": 0, "ok": 0, "abandoned": 0, "events": {}}
    sigs = {}
    for cid, c in enumerate(longest):
        o = outs[cid]
        hist = c["hist"]
        cats = [INITIAL] + [model_cat(h["cat"]) for h in hist]
        diverged = None
        for i, h in enumerate(hist):
            r = o["work_res"][i] if i < len(o["work_res"]) else None
            if r is None or "ok" not in r:
                diverged = i
                chk.stale.append("DDL statement of the model failed on TurDB: %s -> %s" % (op_sql(h["op"]), json.dumps(r)[:200]))
                break
        for n, name, op, detail in o["events"]:
            stats["events"][name] = stats["events"].get(name, 0) + 1
        for s in o["snaps"]:
            op = s["op"]
            i = op if op >= 0 else -op - 1
            if diverged is not None and i >= diverged:
                stats["abandoned"] += 1
                continue
            stats["snapshots"] += 1
            before, after = (cats[i], cats[i + 1]) if op >= 0 else (cats[i + 1], cats[i + 1])
            probs = judge_snapshot(s, before, after)
            if not probs:
                stats["ok"] += 1
            for what, detail in probs:
                kind = hist[i]["op"]["k"]
                sig = "%s:%s:%s:%s" % (s["model"], what, "during_" + kind if op >= 0 else "boundary", s["event"])
                sigs[sig] = sigs.get(sig, 0) + 1
                chk.classify(sig, {"history": describe(hist), "case": c, "crash_point": s["n"], "event": s["event"], "model": s["model"], "detail": detail})
    # (C) round trip on every explored history (not only the longest): catalog on disk == model, and identical after reopen
    rt = cases if thorough else vlib.stratified_sample(cases, lambda c: (len(c["hist"]), c["hist"][-1]["op"]["k"]), 300, rng)
    rend = []
    for cid, c in enumerate(rt):
        ops = [{"k": "exec", "sql": s} for s in SETUP] + [{"k": "exec", "sql": op_sql(h["op"])} for h in c["hist"]]
        ops += [{"k": "catalog"}, {"k": "close_reopen"}, {"k": "catalog"}, {"k": "query", "sql": "SELECT id, a, s FROM t"}, {"k": "reopen"}, {"k": "catalog"}]
        rend.append({"id": cid, "ops": ops})
    inp2, outp2 = vlib.scratch() + "/c40_rt_in.ndjson", vlib.scratch() + "/c40_rt_out.ndjson"
    vlib.write_ndjson(inp2, rend)
    vlib.run_vh(["sql-run", "--in", inp2, "--out", outp2, "--jobs", vlib.NCPU], timeout=3000)
    chk.mark("round_trip")
    rt_ok = 0
    for r in vlib.read_ndjson(outp2):
        c = rt[r["id"]]
        res = r["res"]
        n0 = len(SETUP) + len(c["hist"])
        if any("ok" not in x for x in res[:n0]):
            chk.stale.append("DDL history of the model failed on TurDB: %s" % describe(c["hist"]))
            continue
        want = model_cat(c["hist"][-1]["cat"])
        d1, d2, scan, d3 = res[n0], res[n0 + 2], res[n0 + 3], res[n0 + 5]
        rep = {"history": describe(c["hist"]), "case": c}
        if "rows" not in d1 or dump_cat(d1["rows"]) != want:
            chk.classify("round_trip:catalog_on_disk_differs_from_model:" + c["hist"][-1]["op"]["k"], dict(rep, observed=d1, expected=want))
        elif d1 != d2 or d2 != d3:
            chk.classify("round_trip:catalog_changes_across_reopen:" + c["hist"][-1]["op"]["k"], dict(rep, before=d1, after_close_reopen=d2, after_reopen=d3))
        elif "rows" not in scan or sorted(x[:3] for x in scan["rows"]) != T_ROWS:
            chk.classify("round_trip:preexisting_rows_unreadable_after_reopen", dict(rep, observed=scan))
        else:
            rt_ok += 1
    for need in ("catalog.header_written", "catalog.body_written", "created", "op_end"):
        if not stats["events"].get(need):
            raise vlib.ToolError("hook event %s never fired during DDL: crash points inside the catalog rewrite are not covered" % need)
    if stats["snapshots"] == 0:
        raise vlib.ToolError("no snapshot judged")
    chk.cov = {"evaluations": stats["snapshots"] + len(rt), "distinct_nontrivial": stats["snapshots"],
               "rule": "one evaluation = one (crash point, crash model) snapshot of a TLC-generated DDL history reopened and judged against Catalog.tla's catalogs, plus one round-trip comparison per history; snapshots are distinct hook events of distinct histories",
               "protocol_states": mc["stats"].get("distinct"), "protocol_transitions": mc["stats"].get("generated"),
               "protocol_actions_covered": {a: t for a, (d, t) in mc["coverage"].items()},
               "in_place_witness_violates_NoLoss": True,
               "ddl_histories_generated": total, "histories_crash_enumerated": len(longest), "snapshots_ok": stats["ok"],
               "snapshots_abandoned": stats["abandoned"], "hook_events_by_kind": stats["events"],
               "round_trips": len(rt), "round_trips_identical": rt_ok, "signatures": sigs, "exhaustive": thorough,
               "samples": [describe(c["hist"]) for c in longest[:3]]}


def replay(chk, path):
    rep = json.load(open(path))["replay"]
    print("stored case: %s" % rep["history"])
    print("re-run the check to re-evaluate it: bin/check C40 --tier quick (crash points are deterministic per history)")
    chk.cov = {"evaluations": 1, "distinct_nontrivial": 2, "rule": "replay descriptor only", "samples": [rep["history"]]}
    return 2
